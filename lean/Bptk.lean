import Bptk.Props.C14
