import Bptk.Core.C03
import Bptk.Gen.C03Cfg
/-! Driver for C03 over the configuration generated from /repo.
  eq <k> <k XMILE token words> <IR tree words>   per-equation translation validation
  gen <tree words>                               text emitted for a tree + its parse
  san <code points, comma separated>             sanitizeName model
  diag                                           per-template diagnostics -/
open Bptk.Py Bptk.C03

def C : Cfg := Bptk.C03.Gen.cfg
def P : XPrec := xmilePrec

def b01 (b : Bool) : String := if b then "1" else "0"

def parseSexp (ts : List Tok) : String := match parse ts with
  | some p => sexp p
  | none => "error"

def handleEq (ws : List String) : String :=
  match ws with
  | k :: rest =>
    match k.toNat? with
    | some k =>
      if (rest.take k).length ≠ k then "bad-op" else
      match (rest.take k).mapM xtokOfWord, xOfWords (rest.drop k) with
      | some ts, some ir =>
        let g := gen C false ir
        let common := "flatir=" ++ b01 (decide (flat ir = ts)) ++ " irok=" ++ b01 (okAt true ir)
          ++ " vflat=" ++ b01 (validateFlat P ts ir).isSome ++ " knownir=" ++ b01 (known C ir)
          ++ " compile=" ++ (match compile C ir with | some _ => "text" | none => "raise")
        let tail := "\t" ++ wordsOfToks g ++ "\t" ++ parseSexp g
        match xparse P ts with
        | some x =>
          "ok parse=1 flatx=" ++ b01 (decide (flat x = ts)) ++ " wl=" ++ b01 (XWL P x)
            ++ " same=" ++ b01 (decide (gen C false x = g)) ++ " known=" ++ b01 (known C x)
            ++ " valid=" ++ b01 (validate C P ts ir).isSome ++ " " ++ common
            ++ "\t" ++ xsexp x ++ "\t" ++ sexp (trans C P false x) ++ tail
        | none => "ok parse=0 " ++ common ++ "\t-\t-" ++ tail
      | _, _ => "bad-op"
    | none => "bad-op"
  | _ => "bad-op"

def primDiag (L : Nat) (t : Tmpl) : String :=
  let d := tmplDiag L t
  if d ≠ "ok" then d else if lvlH 0 (shapeOf t) < 100 then "not-a-primary" else "ok"

def handle (line : String) : String :=
  match line.trimAscii.toString.splitOn " " with
  | "eq" :: ws => handleEq ws
  | "gen" :: ws => match xOfWords ws with
      | some x => "toks\t" ++ wordsOfToks (gen C false x) ++ "\t" ++ parseSexp (gen C false x)
          ++ "\t" ++ sexp (trans C P false x)
      | none => "bad-op"
  | ["san", cs] =>
      match (cs.splitOn ",").mapM String.toNat? with
      | some l => "san " ++ ",".intercalate ((sanL l).map toString)
      | none => "bad-op"
  | ["san"] => "san " ++ ",".intercalate ((sanL []).map toString)
  | ["diag"] =>
      ";".intercalate (C.fns.map fun t => t.cls ++ "/" ++ toString t.arity ++ "|" ++ primDiag 1 t)
        ++ ";not/1|" ++ primDiag 3 C.notT
        ++ ";" ++ ";".intercalate (allOps.map fun k => "op" ++ xopName k ++ "|" ++
              (if C.opT k = [.hole 0, .op (P.img k), .hole 1] then "ok" else "differs:" ++ wordsOfToks (C.opT k)))
        ++ ";ident|" ++ (if C.identT = idToks "probe" false then "ok" else "differs")
        ++ ";identInit|" ++ (if C.identInitT = idToks "probe" true then "ok" else "differs")
  | ["shapes"] => ";".intercalate (C.fns.map fun t => t.cls ++ "/" ++ toString t.arity ++ "=" ++ sexp (shapeOf t))
  | _ => "bad-op"

partial def loop (h : IO.FS.Stream) : IO Unit := do
  let line ← h.getLine
  if line.isEmpty then return ()
  IO.println (handle line)
  loop h

def main : IO Unit := do loop (← IO.getStdin)
