import Bptk.Core.C16
/-! Line-protocol driver for the C16 instance-isolation model:  `lake env lean --run Drive/C16.lean < lines`

`cfg <0|1> <0|1>`           instancesShareNothing restoreOnlyAddressed
`run <k> <ad> <ops>`        k initial instances, ad = 1: external state adapter; ops: comma list of `<id><code>` (or `-`);
                            codes: b | b<int> | s | s<int> | r | e | k | x | t | c (create) | R | R<int> (/run) | q (/equations) | a (/agents)
reply: one token per op: inv nodata started step:<t> res:<n> ended alive deleted swept created ran names noagents saveerr none
`val <k> <ad> <ops>`        same, with the model's values: step:<t>:<stock>:<knob>, ran:<knob> -/
open Bptk.C16

def parseOp (s : String) : Option (Nat × Req) :=
  let cs := s.toList
  let ds := String.ofList (cs.takeWhile Char.isDigit)
  let rest := String.ofList (cs.dropWhile Char.isDigit)
  match ds.toNat? with
  | none => none
  | some i =>
    if rest == "b" then some (i, .beginSession none)
    else if rest == "s" then some (i, .runStep none)
    else if rest == "c" then some (i, .create)
    else if rest == "R" then some (i, .run none)
    else if rest == "q" then some (i, .equations)
    else if rest == "a" then some (i, .agents)
    else if rest == "r" then some (i, .results)
    else if rest == "e" then some (i, .endSession)
    else if rest == "k" then some (i, .keepAlive)
    else if rest == "x" then some (i, .stop)
    else if rest == "t" then some (i, .expire)
    else if rest.startsWith "s" then ((rest.drop 1).toString.toInt?).map fun v => (i, .runStep (some v))
    else if rest.startsWith "b" then ((rest.drop 1).toString.toInt?).map fun v => (i, .beginSession (some v))
    else if rest.startsWith "R" then ((rest.drop 1).toString.toInt?).map fun v => (i, .run (some v))
    else none

def respStr (vals : Bool) : Option Resp → String
  | none => "none"
  | some .invalid => "inv"
  | some .noData => "nodata"
  | some .started => "started"
  | some (.stepped t st k) => if vals then s!"step:{t}:{st}:{k}" else s!"step:{t}"
  | some (.results l) => s!"res:{l.length}"
  | some .ended => "ended"
  | some .timerReset => "alive"
  | some .deleted => "deleted"
  | some .swept => "swept"
  | some .created => "created"
  | some (.ran k) => if vals then s!"ran:{k}" else "ran"
  | some .names => "names"
  | some .noAgents => "noagents"
  | some .saveError => "saveerr"

def stepLine (c : Cfg) (line : String) : Cfg × String :=
  match line.trimAscii.toString.splitOn " " with
  | ["cfg", v, w] =>
      if (v == "1" || v == "0") && (w == "1" || w == "0") then (⟨v == "1", w == "1"⟩, "ok") else (c, "bad-op")
  | [cmd, k, ad, ops] =>
      if (cmd != "run" && cmd != "val") || (ad != "0" && ad != "1") then (c, "bad-op") else
      match k.toNat?, (if ops == "-" then some [] else (ops.splitOn ",").mapM parseOp) with
      | some k, some ops =>
          (c, ",".intercalate ((resps c (Server.initAd k (ad == "1")) ops).map fun r => respStr (cmd == "val") r.2))
      | _, _ => (c, "bad-op")
  | _ => (c, "bad-op")

partial def loop (h : IO.FS.Stream) (c : Cfg) : IO Unit := do
  let line ← h.getLine
  if line.isEmpty then return ()
  let (c', out) := stepLine c line
  IO.println out
  loop h c'

def main : IO Unit := do loop (← IO.getStdin) ⟨true, true⟩
