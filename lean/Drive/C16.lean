import Bptk.Core.C16
/-! Line-protocol driver for the C16 instance-isolation model:  `lake env lean --run Drive/C16.lean < lines`

`cfg <0|1>×5`               instancesShareNothing restoreOnlyAddressed freshObjects sharedIsScenarioDicts sharedIsHandlerDefaults
`fac <settings>`            the factory's output for the following lines: the scenario-level settings every product starts with
`run <k> <ad> <ops>`        k initial instances, ad = 1: external state adapter; ops: comma list of `<id><code>[<settings>]` (or `-`);
                            codes: b s (begin-session / run-step, optional settings) r e k x t c (create) R (/run, optional settings)
                            q (/equations) a (/agents); settings: `<key>=<value>` joined by `+` (keys 0,1 constants; 2,3 points)
reply: one token per op: inv nodata started step:<t> res:<n> ended alive deleted swept created ran names noagents saveerr none,
       then `made:<n>` (number of factory calls)
`val <k> <ad> <ops>`        same, with the model's values: step:<t>:<memo>  ran:<eff>   (eff: `k=v+k=v` or `-`; memo: effs joined by `|`) -/
open Bptk.C16
open Bptk.C06 (Store)

def parseStore (s : String) : Option Store :=
  if s.isEmpty then some [] else
  (s.splitOn "+").mapM (fun p => match p.splitOn "=" with
    | [a, b] => do some ((← a.toNat?), (← b.toNat?))
    | _ => none)

def parseOp (s : String) : Option (Nat × Req) :=
  let cs := s.toList
  let ds := String.ofList (cs.takeWhile Char.isDigit)
  let rest := cs.dropWhile Char.isDigit
  match ds.toNat?, rest with
  | some i, code :: args =>
    let a := String.ofList args
    if code == 'b' && a.isEmpty then some (i, .beginOmit)          -- begin-session WITHOUT a `settings` key
    else if code == 'B' && a.isEmpty then some (i, .beginSession [])    -- `settings` key present and empty
    else if code == 'b' then (parseStore a).map fun st => (i, .beginSession st)
    else if code == 's' then (parseStore a).map fun st => (i, .runStep st)
    else if code == 'R' then (parseStore a).map fun st => (i, .run st)
    else if !a.isEmpty then none
    else if code == 'c' then some (i, .create)
    else if code == 'q' then some (i, .equations)
    else if code == 'a' then some (i, .agents)
    else if code == 'r' then some (i, .results)
    else if code == 'e' then some (i, .endSession)
    else if code == 'k' then some (i, .keepAlive)
    else if code == 'x' then some (i, .stop)
    else if code == 't' then some (i, .expire)
    else none
  | _, _ => none

def showStore (s : Store) : String :=
  if s.isEmpty then "-" else "+".intercalate (s.map fun kv => s!"{kv.1}={kv.2}")

def respStr (vals : Bool) : Option Resp → String
  | none => "none"
  | some .invalid => "inv"
  | some .noData => "nodata"
  | some .started => "started"
  | some (.stepped t memo) => if vals then s!"step:{t}:" ++ "|".intercalate (memo.map showStore) else s!"step:{t}"
  | some (.results l) => s!"res:{l.length}"
  | some .ended => "ended"
  | some .timerReset => "alive"
  | some .deleted => "deleted"
  | some .swept => "swept"
  | some .created => "created"
  | some (.ran e) => if vals then s!"ran:{showStore e}" else "ran"
  | some .names => "names"
  | some .noAgents => "noagents"
  | some .saveError => "saveerr"

def bit (s : String) : Bool := s == "1" || s == "0"

def stepLine (cf : Cfg × Obj) (line : String) : (Cfg × Obj) × String :=
  let c := cf.1
  match line.trimAscii.toString.splitOn " " with
  | ["cfg", v, w, f, k, hd] =>
      if bit v && bit w && bit f && bit k && bit hd then ((⟨v == "1", w == "1", f == "1", k == "1", hd == "1"⟩, cf.2), "ok")
      else (cf, "bad-op")
  | ["fac", st] =>
      match parseStore (if st == "-" then "" else st) with
      | some scn => ((c, { scn := scn, mod := [], sess := none }), "ok")
      | none => (cf, "bad-op")
  | [cmd, k, ad, ops] =>
      if (cmd != "run" && cmd != "val") || (ad != "0" && ad != "1") then (cf, "bad-op") else
      match k.toNat?, (if ops == "-" then some [] else (ops.splitOn ",").mapM parseOp) with
      | some k, some ops =>
          let s0 := Server.initF cf.2 k (ad == "1")
          let toks := (resps c s0 ops).map fun r => respStr (cmd == "val") r.2
          (cf, ",".intercalate (toks ++ [s!"made:{(final c s0 ops).made}"]))
      | _, _ => (cf, "bad-op")
  | _ => (cf, "bad-op")

partial def loop (h : IO.FS.Stream) (c : Cfg × Obj) : IO Unit := do
  let line ← h.getLine
  if line.isEmpty then return ()
  let (c', out) := stepLine c line
  IO.println out
  loop h c'

def main : IO Unit := do loop (← IO.getStdin) (⟨true, true, true, false, false⟩, Obj.fresh)
