import Bptk.Core.C14
/-! Line-protocol driver for the C14 registry model:  `lake env lean --run Drive/C14.lean < ops`

requests
  cfg countById|idsAliased|deleteArgSnapshot 0|1
  new <k,k,…|->                 fresh registry with these registered factory keys; factories faithful
  fac <k> <a,a,…|->             factory of key k answers attribute list[id % len] (faithful when `-`)
  create k | delete ids | configure spec | configureall spec | reset | setstate i s     → ok | ERR (raises)
  callerappend t x              model.agent_ids(t).append(x)                             → ok | ERR
  cfgn <0|1> <0|1>              next_agent_id incremented before the factory call / before initialize()
  enter k | facdone | leave     re-entrant creation: create_agent(k) called / its factory returned / its initialize() returned (registered)
                                                                                                  → ok | ERR (enter of an unregistered key)
  deleteown t ids|map           model.delete_agents(model.agent_ids(t)) / (model.agent_type_map[t])   → ok | ERR
  query                         every query on types 0..2, states 0..2, ids 0..next+1
  q lookup i | q ids t | q cnt t | q cps t s | q nx t s | q rnd t num u,u,…   single queries (u = 64·random())
-/
open Bptk.C14

def parseNats (s : String) : Option (List Nat) :=
  if s == "-" then some [] else (s.splitOn ",").mapM (·.toNat?)

def parseSpec (s : String) : Option (List (Nat × Nat)) :=
  if s == "-" then some [] else
  (s.splitOn ",").mapM (fun p => match p.splitOn ":" with
    | [a, b] => do some ((← a.toNat?), (← b.toNat?))
    | _ => none)

def showOpt : Option Nat → String
  | some n => toString n
  | none => "ERR"

def showList : Option (List Nat) → String
  | some l => ",".intercalate (l.map toString)
  | none => "ERR"

def showAgent (i : Nat) : Option Agent → String
  | some a => s!"a{i}={a.id}.{a.ty}.{a.state}"
  | none => s!"a{i}=none"

def showNx : Option Nat → String
  | some i => toString i
  | none => "none"

structure St where
  c : Cfg
  tbl : List (Nat × List Nat)
  r : Reg
  n : CfgN := { idReservedBeforeFactory := true, idReservedBeforeInitialize := true }
  stack : List Frame := []

def St.fac (s : St) : Fac := fun k i =>
  match s.tbl.lookup k with
  | some l => if l.isEmpty then k else l.getD (i % l.length) k
  | none => k

def query (c : Cfg) (r : Reg) : String :=
  let tys := [0, 1, 2]
  let sts := [0, 1, 2]
  let ids := String.intercalate ";" (tys.map fun t => s!"ids{t}=" ++ showList (agentIdsE r t))
  let cnt := String.intercalate ";" (tys.map fun t => s!"cnt{t}={showOpt (countE r t)}")
  let cps := String.intercalate ";" (tys.flatMap fun t => sts.map fun s => s!"cps{t}.{s}={showOpt (countPerState c r t s)}")
  let lk := String.intercalate ";" ((List.range (r.next + 2)).map fun i => showAgent i (lookup r i))
  let nx := String.intercalate ";" (tys.flatMap fun t => sts.map fun s => s!"nx{t}.{s}=" ++ showNx (nextAgent r t s))
  s!"{ids};{cnt};{cps};{lk};{nx};next={r.next}"

def doOp (s : St) (o : Op) : St × String :=
  ({ s with r := step s.fac s.r o }, if raises s.r o then "ERR" else "ok")

def bad (s : St) : St × String := (s, "bad-op")

def stepLine (s : St) (line : String) : St × String :=
  match line.trimAscii.toString.splitOn " " with
  | ["cfg", "countById", v] => ({ s with c := { s.c with countById := v == "1" } }, "ok")
  | ["cfg", "idsAliased", v] => ({ s with c := { s.c with idsAliased := v == "1" } }, "ok")
  | ["cfg", "deleteArgSnapshot", v] => ({ s with c := { s.c with deleteArgSnapshot := v == "1" } }, "ok")
  | ["deleteown", t, _] => match t.toNat? with
      | some t => ({ s with r := stepD s.c s.fac s.r (.deleteOwn t) }, if s.r.mapped t then "ok" else "ERR")
      | none => bad s
  | ["cfgn", a, b] => ({ s with n := { idReservedBeforeFactory := a == "1", idReservedBeforeInitialize := b == "1" } }, "ok")
  | ["enter", k] => match k.toNat? with
      | some k =>
          let x := stepN s.n s.fac { r := s.r, stack := s.stack } (.enter k)
          ({ s with r := x.r, stack := x.stack }, if s.r.reg k then "ok" else "ERR")
      | none => bad s
  | ["facdone"] =>
      let x := stepN s.n s.fac { r := s.r, stack := s.stack } .facDone
      ({ s with r := x.r, stack := x.stack }, "ok")
  | ["leave"] =>
      let x := stepN s.n s.fac { r := s.r, stack := s.stack } .leave
      ({ s with r := x.r, stack := x.stack }, "ok")
  | ["new", ks] => match parseNats ks with
      | some ks => ({ s with tbl := [], r := Reg.init (fun t => ks.contains t), stack := [] }, "ok")
      | none => bad s
  | ["fac", k, l] => match k.toNat?, parseNats l with
      | some k, some l => ({ s with tbl := (k, l) :: s.tbl }, "ok")
      | _, _ => bad s
  | ["create", t] => match t.toNat? with
      | some t => doOp s (.create t)
      | none => bad s
  | ["delete", l] => match parseNats l with
      | some ids => doOp s (.delete ids)
      | none => bad s
  | ["configure", sp] => match parseSpec sp with
      | some sp => doOp s (.configure sp)
      | none => bad s
  | ["configureall", sp] => match parseSpec sp with
      | some sp => doOp s (.configureAll sp)
      | none => bad s
  | ["reset"] => doOp s .reset
  | ["setstate", i, st] => match i.toNat?, st.toNat? with
      | some i, some st => doOp s (.setState i st)
      | _, _ => bad s
  | ["callerappend", t, x] => match t.toNat?, x.toNat? with
      | some t, some x => ({ s with r := stepX s.c s.fac s.r (.callerAppend t x) },
                           if s.r.mapped t then "ok" else "ERR")
      | _, _ => bad s
  | ["query"] => (s, query s.c s.r)
  | ["q", "lookup", i] => match i.toNat? with
      | some i => (s, showAgent i (lookup s.r i))
      | none => bad s
  | ["q", "lookupf", i] => match i.toNat? with
      | some i => (s, showAgent i (lookup s.r i))
      | none => bad s
  | ["q", "ids", t] => match t.toNat? with
      | some t => (s, s!"ids{t}=" ++ showList (agentIdsE s.r t))
      | none => bad s
  | ["q", "cnt", t] => match t.toNat? with
      | some t => (s, s!"cnt{t}={showOpt (countE s.r t)}")
      | none => bad s
  | ["q", "cps", t, st] => match t.toNat?, st.toNat? with
      | some t, some st => (s, s!"cps{t}.{st}={showOpt (countPerState s.c s.r t st)}")
      | _, _ => bad s
  | ["q", "nx", t, st] => match t.toNat?, st.toNat? with
      | some t, some st => (s, s!"nx{t}.{st}=" ++ showNx (nextAgent s.r t st))
      | _, _ => bad s
  | ["q", "rnd", t, n, us] => match t.toNat?, n.toNat?, parseNats us with
      | some t, some n, some us =>
          if us.all (· < 64) then
            (s, s!"rnd{t}.{n}=" ++ showList (randomAgents s.r t n (fun j => (us.getD j 0, 64))))
          else bad s
      | _, _, _ => bad s
  | _ => bad s

partial def loop (h : IO.FS.Stream) (s : St) : IO Unit := do
  let line ← h.getLine
  if line.isEmpty then return ()
  let (s', out) := stepLine s line
  IO.println out
  loop h s'

def main : IO Unit := do
  loop (← IO.getStdin) { c := { countById := true, idsAliased := true }, tbl := [], r := Reg.init (fun _ => true) }
