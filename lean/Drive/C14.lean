import Bptk.Core.C14
/-! Line-protocol driver for the C14 registry model:  `lake env lean --run Drive/C14.lean < ops` -/
open Bptk.C14

def parseNats (s : String) : Option (List Nat) :=
  if s == "-" then some [] else (s.splitOn ",").mapM (·.toNat?)

def parseSpec (s : String) : Option (List (Nat × Nat)) :=
  if s == "-" then some [] else
  (s.splitOn ",").mapM (fun p => match p.splitOn ":" with
    | [a, b] => do some ((← a.toNat?), (← b.toNat?))
    | _ => none)

def showOpt : Option Nat → String
  | some n => toString n
  | none => "ERR"

def query (c : Cfg) (r : Reg) : String :=
  let tys := [0, 1]
  let sts := [0, 1, 2]
  let ids := String.intercalate ";" (tys.map fun t => s!"ids{t}=" ++ ",".intercalate ((agentIds r t).map toString))
  let cnt := String.intercalate ";" (tys.map fun t => s!"cnt{t}={count r t}")
  let cps := String.intercalate ";" (tys.flatMap fun t => sts.map fun s => s!"cps{t}.{s}={showOpt (countPerState c r t s)}")
  let lk := String.intercalate ";" ((List.range (r.next + 2)).map fun i =>
    match lookup r i with
    | some a => s!"a{i}={a.id}.{a.ty}.{a.state}"
    | none => s!"a{i}=none")
  let nx := String.intercalate ";" (tys.flatMap fun t => sts.map fun s =>
    s!"nx{t}.{s}=" ++ (match nextAgent r t s with | some i => toString i | none => "none"))
  s!"{ids};{cnt};{cps};{lk};{nx};next={r.next}"

def stepLine (c : Cfg) (r : Reg) (line : String) : Cfg × Reg × String :=
  match line.trimAscii.toString.splitOn " " with
  | ["cfg", "countById", v] => ({ c with countById := v == "1" }, r, "ok")
  | ["new"] => (c, Reg.init, "ok")
  | ["create", t] => match t.toNat? with
      | some t => (c, step r (.create t), "ok")
      | none => (c, r, "bad-op")
  | ["delete", l] => match parseNats l with
      | some ids => (c, step r (.delete ids), "ok")
      | none => (c, r, "bad-op")
  | ["configure", s] => match parseSpec s with
      | some sp => (c, step r (.configure sp), "ok")
      | none => (c, r, "bad-op")
  | ["reset"] => (c, step r .reset, "ok")
  | ["setstate", i, s] => match i.toNat?, s.toNat? with
      | some i, some s => (c, step r (.setState i s), "ok")
      | _, _ => (c, r, "bad-op")
  | ["query"] => (c, r, query c r)
  | _ => (c, r, "bad-op")

partial def loop (h : IO.FS.Stream) (c : Cfg) (r : Reg) : IO Unit := do
  let line ← h.getLine
  if line.isEmpty then return ()
  let (c', r', out) := stepLine c r line
  IO.println out
  loop h c' r'

def main : IO Unit := do loop (← IO.getStdin) { countById := true } Reg.init
