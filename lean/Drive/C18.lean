import Bptk.Core.C18
/-! Line-protocol driver for the C18 interleaving model:  `lake env lean --run Drive/C18.lean < lines`

`cfg a b d e f g`          (0/1: lockIsTestAndSet runStepTakesLock streamUnlocksOnDone unlockOnError unlockOnClientGone
                            refusalKeepsLock)
`run <stop> <kinds> <sched>`  kinds: comma list of `p` (run-step) | `r<n>` (run-steps n) | `s` (stream);
                              sched: comma list of `<tid><g|f|x>` (go | fail | gone) or `-`
reply: `<labels>|<st:res:msgs:holds:pc per thread, ';'>|clock=<n>;lock=<0|1>;produced=<list>`
`srun a b d x <session0> <n> <events>`  session machine: 0/1 flagOnInstance lockNeedsSession unlockNeedsSession
                              sessionReqExcluded, initial session 0/1, number of requests, events `a<i>` (acquire) `f<i>` (end)
                              `E` (end-session) `B` (begin-session) `R` (restore) or `-`
reply: `<outcome per event, ','>|flag=<0|1>;holders=<n>`
`crun a b d x <session0> <n> <events>`  session clock machine: events as for srun plus `r<i>` (run_step reads the clock)
                              `w<i>` (run_step writes); reply: `<epoch.time per log entry, ';'>|clock=<n>;epoch=<n>;session=<0|1>`
`gclose <tokens>`             generator shape: comma list of y u o r T X1 X0 F E C1 C0 D1 D0 (yield unlock other return try
                              except(catches GeneratorExit 1/0) finally endtry cond-begin(loop 1/0) cond-end(loop 1/0))
reply: `<k:unlocked:stuck per yield index k, ';'>|safe=<0|1>` -/
open Bptk.C18

def parseKind (s : String) : Option Kind :=
  if s == "p" then some .runStep
  else if s == "s" then some .stream
  else if s.startsWith "r" then (s.drop 1).toNat?.map .runSteps
  else none

def parseAct (s : String) : Option (Nat × Ev) :=
  if s.length < 2 then none else
  let e := s.drop (s.length - 1)
  let n := s.take (s.length - 1)
  match n.toNat?, e.toString with
  | some i, "g" => some (i, .go)
  | some i, "f" => some (i, .fail)
  | some i, "x" => some (i, .gone)
  | _, _ => none

def lblStr : Lbl → String
  | .RL => "RL" | .TAS => "TAS" | .SL => "SL" | .CL => "CL" | .RS => "RS" | .SIM => "SIM" | .WS => "WS"
  | .Y => "Y" | .GONE => "GONE" | .END => "END" | .NOOP => "NOOP"

def stStr : Status → String
  | .pending => "pending" | .ok => "ok" | .refused => "refused" | .error => "error" | .gone => "gone"

def natsStr (l : List Nat) : String := if l.isEmpty then "-" else ".".intercalate (l.map toString)

def thStr (t : Thread) : String :=
  s!"{stStr t.st}:{natsStr t.res}:{t.msgs}:{if t.holds then 1 else 0}:{if t.pc == .done then "done" else "open"}"

def b01 (s : String) : Option Bool := if s == "1" then some true else if s == "0" then some false else none

def parseSEv (s : String) : Option Sess.SEv :=
  if s == "E" then some .endS else if s == "B" then some .beginS else if s == "R" then some .restoreS
  else if s.startsWith "a" then (s.drop 1).toNat?.map .acq
  else if s.startsWith "f" then (s.drop 1).toNat?.map .fin
  else none

def parseCEv (s : String) : Option Sess.CEv :=
  if s.startsWith "r" then (s.drop 1).toNat?.map .rd
  else if s.startsWith "w" then (s.drop 1).toNat?.map .wr
  else (parseSEv s).map .sess

def parseTok (s : String) : Option Gen.Tok :=
  match s with
  | "y" => some .yld | "u" => some .unlock | "o" => some .other | "r" => some .ret
  | "T" => some .tryB | "X1" => some (.exceptB true) | "X0" => some (.exceptB false) | "F" => some .finallyB
  | "E" => some .endTry | "C1" => some (.condB true) | "C0" => some (.condB false)
  | "D1" => some (.endCond true) | "D0" => some (.endCond false)
  | _ => none

def stepLine (c : Cfg) (line : String) : Cfg × String :=
  match line.trimAscii.toString.splitOn " " with
  | ["cfg", a, b, d, e, f, g] =>
      match b01 a, b01 b, b01 d, b01 e, b01 f, b01 g with
      | some a, some b, some d, some e, some f, some g => (⟨a, b, d, e, f, g⟩, "ok")
      | _, _, _, _, _, _ => (c, "bad-op")
  | ["srun", a, b, d, x, s0, n, evs] =>
      match b01 a, b01 b, b01 d, b01 x, b01 s0, n.toNat?,
            (if evs == "-" then some [] else (evs.splitOn ",").mapM parseSEv) with
      | some a, some b, some d, some x, some s0, some n, some evs =>
          let r := Sess.strace ⟨a, b, d, x⟩ evs (Sess.SState.init s0 n)
          (c, ",".intercalate r.2 ++ s!"|flag={if r.1.flag then 1 else 0};holders={Sess.holders r.1}")
      | _, _, _, _, _, _, _ => (c, "bad-op")
  | ["crun", a, b, d, x, s0, n, evs] =>
      match b01 a, b01 b, b01 d, b01 x, b01 s0, n.toNat?,
            (if evs == "-" then some [] else (evs.splitOn ",").mapM parseCEv) with
      | some a, some b, some d, some x, some s0, some n, some evs =>
          let r := Sess.crun ⟨a, b, d, x⟩ (Sess.CState.init s0 n) evs
          (c, ";".intercalate (r.log.map (fun p => s!"{p.1}.{p.2}")) ++
              s!"|clock={r.clock};epoch={r.epoch};session={if r.base.session then 1 else 0}")
      | _, _, _, _, _, _, _ => (c, "bad-op")
  | ["gclose", toks] =>
      match (toks.splitOn ",").mapM parseTok with
      | some prog =>
          let b := fun (x : Bool) => if x then "1" else "0"
          (c, ";".intercalate ((Gen.yieldIdx prog).map (fun k =>
                s!"{k}:{b (Gen.closeAt prog k).unlocked}:{b (Gen.closeAt prog k).stuck}")) ++
              s!"|safe={b (Gen.closeSafe prog)}")
      | none => (c, "bad-op")
  | ["run", stop, kinds, sched] =>
      match stop.toNat?, (kinds.splitOn ",").mapM parseKind,
            (if sched == "-" then some [] else (sched.splitOn ",").mapM parseAct) with
      | some stop, some ks, some sc =>
          let r := exec c sc (State.init stop ks)
          let s := r.1
          (c, ",".intercalate (r.2.map lblStr) ++ "|" ++ ";".intercalate (s.ths.map thStr) ++
              s!"|clock={s.sh.clock};lock={if s.sh.lock then 1 else 0};produced={natsStr s.sh.produced}")
      | _, _, _ => (c, "bad-op")
  | _ => (c, "bad-op")

partial def loop (h : IO.FS.Stream) (c : Cfg) : IO Unit := do
  let line ← h.getLine
  if line.isEmpty then return ()
  let (c', out) := stepLine c line
  IO.println out
  loop h c'

def main : IO Unit := do loop (← IO.getStdin) ⟨true, true, true, true, true, true⟩
