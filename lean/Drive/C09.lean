import Bptk.Core.C09
/-! Line-protocol driver for the C09 channel model, instantiated with the linear SD family the harness
builds on the real DSL:  c (constant), f = max(0, c*a), s' = f (s(0) = s0), k = s*b + c.
Equation ids: 0 = c, 1 = f, 2 = s, 3 = k.  Settings = a new value for c.  Labels are tokens: `i<k>` for the
k-th batch label; the raw labels of an un-normalised clock are supplied by the harness.

  cfg <d> <k> <f>
  model <a> <b> <s0> <dt>                    (hex floats)
  spec <n> <stride> <rawtok,rawtok,…>        raw label token per grid index
  begin <c0> <lazy 0/1> <eqs>
  step <s|-> | steps <m> <s|-> | stream <s|->   -> replies `lbl:v,v` / `stopped`, separated by `|`
  results | byeq | flat
  batchdf <c0> <eqs> | batchdict <c0> <eqs>

Wave 2: `model … <fam>` with fam 1 = the look-back family (f = max(0, delay(g, 2·dt)), g = c*a an auxiliary that
is never requested); next to the abstract session the driver runs the MEMO-LEVEL session of Core/C09
(`mstep` over C08's `evalK`, definitions rebound by step settings, memo never reset, finalisation set from
the cfg) on the same single steps; `mresults` prints its log in the format of `results`.
-/
open Bptk.C09

def hexDigit (c : Char) : Option Nat :=
  if '0' ≤ c ∧ c ≤ '9' then some (c.toNat - '0'.toNat)
  else if 'a' ≤ c ∧ c ≤ 'f' then some (c.toNat - 'a'.toNat + 10)
  else none

def parseHex (s : String) : Option Float :=
  if s.length != 16 then none else
  (s.toList.foldlM (fun (acc : Nat) c => (hexDigit c).map (fun d => acc * 16 + d)) 0).map
    (fun n => Float.ofBits n.toUInt64)

def hexOf (x : Float) : String :=
  if x.isNaN then "nan" else
  let n := x.toBits.toNat
  let ds := (List.range 16).map (fun i => (n / 16 ^ (15 - i)) % 16)
  String.ofList (ds.map (fun d => if d < 10 then Char.ofNat (d + 48) else Char.ofNat (d + 87)))

structure Lin where
  a : Float
  b : Float
  s0 : Float
  dt : Float
  fam : Nat := 0
  d0 : Float := 0.0

/-- families: 0 linear (f = c*a), 1 look-back (f = delay(g, 2dt), g = c*a), 2 direct (f = c*a and the STOCK names the
constant: s' = f + c), 3 constant-delay (f = delay(c, 2dt)*a: the delay reads the very constant the settings change) -/
def flowAt (m : Lin) (f : Nat → Float) (k : Nat) : Float :=
  let x := (if m.fam == 1 || m.fam == 3 then f (k - 2) else f k) * m.a
  if x > 0.0 then x else 0.0

/-! memo level: the function strings of the two families in C08's expression language.
ids 0 = c, 1 = f, 2 = s, 3 = k, 4 = g, 5 = g1 (`delay(g, 2·dt)` = `delay(delay(g, dt), dt)`, clamped at the start) -/
open Bptk.C08 (Expr) in
def bodies (m : Lin) (c0 : Float) : Nat → Expr Float := fun n =>
  if m.fam == 4 then
    -- wave 8: two constants c (feeds the flow), d (feeds the converter) and two flat tables p, q rendered as constant elements 6, 7
    match n with
    | 0 => .lit c0
    | 1 => .max0 (.bin 0 (.bin 2 (.ref 0) (.lit m.a)) (.ref 6))
    | 2 => .atStart (.lit m.s0) (.bin 0 (.prev 2) (.bin 2 (.lit m.dt) (.prev 1)))
    | 3 => .bin 0 (.bin 0 (.bin 2 (.ref 2) (.lit m.b)) (.ref 4)) (.ref 7)
    | 4 => .lit m.d0
    | _ => .lit 0.0
  else
  match n with
  | 0 => .lit c0
  | 1 => if m.fam == 1 then .max0 (.atStart (.ref 5) (.prev 5))
         else if m.fam == 3 then .max0 (.bin 2 (.atStart (.ref 5) (.prev 5)) (.lit m.a))
         else .max0 (.bin 2 (.ref 0) (.lit m.a))
  | 2 => if m.fam == 2 then .atStart (.lit m.s0) (.bin 0 (.prev 2) (.bin 2 (.lit m.dt) (.bin 0 (.prev 1) (.prev 0))))
         else .atStart (.lit m.s0) (.bin 0 (.prev 2) (.bin 2 (.lit m.dt) (.prev 1)))
  | 3 => .bin 0 (.bin 2 (.ref 2) (.lit m.b)) (.ref 0)
  | 4 => .bin 2 (.ref 0) (.lit m.a)
  | _ => if m.fam == 3 then .atStart (.ref 0) (.prev 0) else .atStart (.ref 4) (.prev 4)

def fOps : Bptk.C08.Ops Float :=
  { bin := fun op x y => match op with | 0 => x + y | 1 => x - y | 2 => x * y | _ => x / y
    max0 := fun x => if x > 0.0 then x else 0.0 }

def mKind : Nat → Bptk.C08.Kind := fun n => if n == 1 then .flow else if n == 2 then .stock else .other
def mNEq (m : Lin) : Nat := if m.fam == 4 then 8 else if m.fam == 1 || m.fam == 3 then 6 else 4

def stockAt (m : Lin) (f : Nat → Float) : Nat → Float
  | 0 => m.s0
  | k + 1 => stockAt m f k + m.dt * (if m.fam == 2 then flowAt m f k + f k else flowAt m f k)

def linSim (m : Lin) : Sim Float Float :=
  { merge := fun _ b => b
    val := fun f e k => match e with
      | 0 => f k
      | 1 => flowAt m f k
      | 2 => stockAt m f k
      | _ => stockAt m f k * m.b + f k }

def parseNats (s : String) : Option (List Nat) :=
  if s == "-" then some [] else (s.splitOn ",").mapM (·.toNat?)

def parseSet (s : String) : Option (Option Float) :=
  if s == "-" then some none else (parseHex s).map some

def showRow (r : Row String Float) : String := r.1 ++ ":" ++ ",".intercalate (r.2.map hexOf)

def showReplies (rs : List (Reply String Float)) : String :=
  if rs.isEmpty then "-" else
  "|".intercalate (rs.map fun r => match r with | .row x => showRow x | .stopped => "stopped")

def showOptV : Option Float → String
  | some v => hexOf v
  | none => "missing"

/-! Wave 3: sequences of REST `/run` requests on one server (`rstep` of Core/C09), simulator = the FEEDBACK family
c (rate), f = max(0, s*c), s' = f, k = s*b + c, whose values depend on dt; settings = (c, (start, stop, dt)).
  rbegin <b> <s0> <c0> <start> <stop> <dt> <eqs>
  rrun none | rrun <c|-> <start|-> <stop|-> <dt|->      -> `e=t:v,t:v;…` (times and values as hex) -/
abbrev RS := Option Float × Option Float × Option Float

def fbStock (s0 dt c : Float) : Nat → Float
  | 0 => s0
  | k + 1 => let s := fbStock s0 dt c k
             s + dt * (let x := s * c; if x > 0.0 then x else 0.0)

def fbResult (b s0 : Float) (eqs : List Nat) (cur : Float × RS) : String :=
  let c := cur.1
  let start := cur.2.1.getD 0.0
  let stop := cur.2.2.1.getD 0.0
  let dt := cur.2.2.2.getD 1.0
  let n := ((stop - start) / dt).round.toUInt64.toNat
  ";".intercalate (eqs.map fun e =>
    s!"{e}=" ++ ",".intercalate ((List.range (n + 1)).map fun k =>
      let t := start + k.toFloat * dt
      let s := fbStock s0 dt c k
      let v := match e with
        | 0 => c
        | 1 => (let x := s * c; if x > 0.0 then x else 0.0)
        | 2 => s
        | _ => s * b + c
      hexOf t ++ ":" ++ hexOf v))

def fbSim (b s0 : Float) (eqs : List Nat) : RunSim Float RS String :=
  { mergeC := fun _ x => x
    mergeR := fun a x => (x.1 <|> a.1, x.2.1 <|> a.2.1, x.2.2 <|> a.2.2)
    result := fun _ cur => fbResult b s0 eqs cur }      -- fresh run: the memo is transparent for this simulator

structure DS where
  rb : Float := 1.0
  rs0 : Float := 0.0
  reqs : List Nat := []
  rst : RunSt Float RS := { cur := (0.0, (none, none, none)), gens := [] }
  c : Cfg
  m : Lin
  spec : Spec String
  eqs : List Nat
  lazy : Bool
  st : Sess Float String Float
  ms : Option (MSess Float) := none      -- the memo-level session (none: an evaluation did not return)
  vq : VState String Float := { log := [], seen := 0, kept := [] }     -- wave 9: view machine of the by-equation view
  vf : VState String Float := { log := [], seen := 0, kept := [] }     -- … and of the flat view (the code keeps one cache per shape)

def mkSpec (n stride : Nat) (raw : List String) : Spec String :=
  { n := n, stride := stride, label := fun k => s!"i{k}", rawLabel := fun k => raw.getD k "x" }

def mAdvanceSet (d : DS) (ms : MSess Float) (s : CSet Float) : Option (MSess Float) :=
  if ms.k > d.spec.n then some ms else      -- "Stoptime reached": nothing happens
  mstep (finSet d.c) d.c.changeEquationKeepsMemo d.c.settingsAppliedPerKey (mNEq d.m) mKind fOps (4 * d.spec.n + 32) d.eqs ms s

def mAdvance (d : DS) (ms : MSess Float) (s : Option Float) : Option (MSess Float) :=
  mAdvanceSet d ms (match s with | some v => [(0, v)] | none => [])

/-- family 4: a call whose settings are a DICTIONARY (list of id=value in dict order); the abstract session only keeps the clock -/
def doCall2 (d : DS) (cl : Call Float) (cs : CSet Float) : DS × String :=
  let r := call d.c (linSim d.m) d.spec d.eqs d.lazy d.st cl
  let singles := expand d.c d.spec [cl] d.st.k
  let ms := singles.foldl (fun acc _ => acc.bind (fun x => mAdvanceSet d x cs)) d.ms
  ({ d with st := r.1, ms := ms }, "ok")

def parseCSet (s : String) : Option (CSet Float) :=
  if s == "-" then some [] else
  (s.splitOn ",").mapM (fun p => match p.splitOn "=" with
    | [a, b] => do some ((← a.toNat?), (← parseHex b))
    | _ => none)

def feedRows (c : Cfg) (v : VState String Float) (rows : List (Row String Float)) : VState String Float :=
  rows.foldl (fun v r => (vstep c v (.step r)).1) v

def doCall (d : DS) (cl : Call Float) : DS × String :=
  let r := call d.c (linSim d.m) d.spec d.eqs d.lazy d.st cl
  let singles := expand d.c d.spec [cl] d.st.k
  let ms := singles.foldl (fun acc s => acc.bind (fun x => mAdvance d x s)) d.ms
  let newRows := r.1.log.drop d.st.log.length
  ({ d with st := r.1, ms := ms, vq := feedRows d.c d.vq newRows, vf := feedRows d.c d.vf newRows }, showReplies r.2)

def stepLine (d : DS) (line : String) : DS × String :=
  match line.trimAscii.toString.splitOn " " with
  | "cfg" :: flags =>
      let b := fun (i : Nat) => (flags.getD i "1") == "1"      -- missing flags = the repaired behaviour
      ({ d with c := ⟨b 0, b 1, b 2, b 3, b 4, b 5, b 6, b 7, b 8, b 9⟩ }, "ok")
  | ["rbegin", b, s0, c0, start, stop, dt, eqs] =>
      match parseHex b, parseHex s0, parseHex c0, parseHex start, parseHex stop, parseHex dt, parseNats eqs with
      | some b, some s0, some c0, some start, some stop, some dt, some eqs =>
          if eqs.all (· < 4) then
            ({ d with rb := b, rs0 := s0, reqs := eqs, rst := { cur := (c0, (some start, some stop, some dt)), gens := [] } }, "ok")
          else (d, "bad-op")
      | _, _, _, _, _, _, _ => (d, "bad-op")
  | ["rrun", "none"] =>
      let r := rstep d.c (fbSim d.rb d.rs0 d.reqs) d.rst none
      ({ d with rst := r.1 }, r.2)
  | ["rrun", c, start, stop, dt] =>
      match parseSet c, parseSet start, parseSet stop, parseSet dt with
      | some c, some start, some stop, some dt =>
          let rs : Option RS := if start.isNone && stop.isNone && dt.isNone then none else some (start, stop, dt)
          let r := rstep d.c (fbSim d.rb d.rs0 d.reqs) d.rst (some { consts := c, rs := rs })
          ({ d with rst := r.1 }, r.2)
      | _, _, _, _ => (d, "bad-op")
  | ["model", a, b, s0, dt] =>
      match parseHex a, parseHex b, parseHex s0, parseHex dt with
      | some a, some b, some s0, some dt => ({ d with m := ⟨a, b, s0, dt, 0, 0.0⟩ }, "ok")
      | _, _, _, _ => (d, "bad-op")
  | ["model", a, b, s0, dt, "4", d0] =>
      match parseHex a, parseHex b, parseHex s0, parseHex dt, parseHex d0 with
      | some a, some b, some s0, some dt, some d0 => ({ d with m := ⟨a, b, s0, dt, 4, d0⟩ }, "ok")
      | _, _, _, _, _ => (d, "bad-op")
  | ["step2", cs] => match parseCSet cs with
      | some cs => doCall2 d (.step none) cs
      | none => (d, "bad-op")
  | ["steps2", m, cs] => match m.toNat?, parseCSet cs with
      | some m, some cs => doCall2 d (.steps m none) cs
      | _, _ => (d, "bad-op")
  | ["stream2", cs] => match parseCSet cs with
      | some cs => doCall2 d (.stream none) cs
      | none => (d, "bad-op")
  | ["model", a, b, s0, dt, fam] =>
      match parseHex a, parseHex b, parseHex s0, parseHex dt, fam.toNat? with
      | some a, some b, some s0, some dt, some fam => if fam ≤ 3 then ({ d with m := ⟨a, b, s0, dt, fam, 0.0⟩ }, "ok") else (d, "bad-op")
      | _, _, _, _, _ => (d, "bad-op")
  | ["spec", n, stride, raw] =>
      match n.toNat?, stride.toNat? with
      | some n, some st => ({ d with spec := mkSpec n st (raw.splitOn ",") }, "ok")
      | _, _ => (d, "bad-op")
  | ["begin", c0, lz, eqs] =>
      match parseHex c0, parseNats eqs with
      | some c0, some eqs =>
          if eqs.all (· < (if d.m.fam == 4 then 5 else 4)) then
            ({ d with eqs := eqs, lazy := lz == "1", st := begin c0, ms := some (mbegin (bodies d.m c0)),
                      vq := (vstep d.c d.vq .begin).1, vf := (vstep d.c d.vf .begin).1 }, "ok")
          else (d, "bad-op")
      | _, _ => (d, "bad-op")
  | ["step", s] => match parseSet s with
      | some s => doCall d (.step s)
      | none => (d, "bad-op")
  | ["steps", m, s] => match m.toNat?, parseSet s with
      | some m, some s => doCall d (.steps m s)
      | _, _ => (d, "bad-op")
  | ["stream", s] => match parseSet s with
      | some s => doCall d (.stream s)
      | none => (d, "bad-op")
  | ["results"] => (d, if d.st.log.isEmpty then "-" else "|".intercalate ((resultsByTime d.st).map showRow))
  | ["mresults"] =>
      if !d.c.sessionDtFromScenario then (d, "n/a") else
      match d.ms with
      | none => (d, "no-return")
      | some ms =>
          (d, if ms.log.isEmpty then "-" else
            "|".intercalate (ms.log.zipIdx.map fun (row, j) => showRow (lbl d.c d.spec j, row)))
  | ["byeq"] =>
      let rd := vstep d.c d.vq .read
      ({ d with vq := rd.1 }, ";".intercalate ((resultsByEq d.eqs { d.st with log := rd.2.getD [] }).map fun p =>
        s!"{p.1}=" ++ ",".intercalate (p.2.map fun x => x.1 ++ ":" ++ showOptV x.2)))
  | ["flat"] =>
      let rd := vstep d.c d.vf .read
      ({ d with vf := rd.1 }, ";".intercalate ((resultsFlat d.eqs { d.st with log := rd.2.getD [] }).map fun p =>
        s!"{p.1}=" ++ ",".intercalate (p.2.map showOptV)))
  | ["endsession"] => ({ d with vq := (vstep d.c d.vq .endS).1, vf := (vstep d.c d.vf .endS).1 }, "ok")
  | ["batchdf", c0, eqs] => match parseHex c0, parseNats eqs with
      | some c0, some eqs => (d, "|".intercalate ((batchDf (linSim d.m) d.spec c0 eqs).map showRow))
      | _, _ => (d, "bad-op")
  | ["batchdict", c0, eqs] => match parseHex c0, parseNats eqs with
      | some c0, some eqs => (d, ";".intercalate ((batchDict (linSim d.m) d.spec c0 eqs).map fun p =>
          s!"{p.1}=" ++ ",".intercalate (p.2.map fun x => x.1 ++ ":" ++ hexOf x.2)))
      | _, _ => (d, "bad-op")
  | _ => (d, "bad-op")

partial def loop (h : IO.FS.Stream) (d : DS) : IO Unit := do
  let line ← h.getLine
  if line.isEmpty then return ()
  let (d', out) := stepLine d line
  IO.println out
  loop h d'

def main : IO Unit := do
  loop (← IO.getStdin) { c := ⟨true, true, true, true, true, true, true, true, true, true⟩, m := ⟨1.0, 1.0, 0.0, 1.0, 0, 0.0⟩, spec := mkSpec 0 1 [], eqs := [],
                         lazy := false, st := begin 0.0 }
