import Bptk.Core.C15
/-! Line-protocol driver for the C15 model:  `lake env lean --run Drive/C15.lean < lines`

Strings cross the boundary as decimal code points joined by `.` (`e` = empty string), so that every
header text (spaces, tabs, non-ASCII) fits on one space-separated line.

  clear                                   -> ok        (empty table, no token)
  tok <str> | tok none                    -> ok
  route <rule> <m1,m2,..> <prot> <auto> <static>   -> ok   (appends; flags 0/1)
  static <file>                           -> ok        (adds a file to the static folder)
  word2 <str>                             -> none | some <str>
  auth <str>|absent                       -> accept | reject | error     (needs a token)
  req <idx> <method> <str>|absent <file>  -> view | <status>   (view = the view function was reached)
  obs <presented> <expected> <0|1>        -> ok        (an observed verdict of the real comparison)
  cmp <presented> <expected>              -> 0 | 1     (comparison of the run: equality patched by obs)
  hval <tc|ws> <name> <value> ...         -> absent | some <str>   (header lines -> value the decorator sees)
  reqh <idx> <method> <tc|ws> <file> <name> <value> ...   -> view | <status>
  cfg sticky <0|1> / hnew / hreq <idx> <method> <str>|absent <file> <raised 0|1>   (wave 8: one request of a HISTORY; with
                                             `sticky` a raising authorised request leaves the skip marker for later `req`s)
  mobs <method> <0|1>                     -> ok        (wave 6: the wrapper let a refused credential through for this method)
The dispatch is `handleW (cmpOf obs)` (`handleM mobs` for a method the wrapper was observed to let through);
without `obs` / `mobs` lines that is `handle`.
-/
open Bptk.C15

def decStr (s : String) : Option (List Char) :=
  if s == "e" then some [] else
  (s.splitOn ".").mapM (fun p => p.toNat?.bind (fun n => if n < 0x110000 then some (Char.ofNat n) else none))

def encStr (cs : List Char) : String :=
  if cs.isEmpty then "e" else ".".intercalate (cs.map (fun c => toString c.toNat))

def decAuth (s : String) : Option (Option (List Char)) :=
  if s == "absent" then some none else (decStr s).map some

def flag (s : String) : Option Bool :=
  if s == "1" then some true else if s == "0" then some false else none

structure St where
  table : Table := { routes := [], staticFiles := [] }
  tok : Option (List Char) := none
  obs : Obs := []
  mobs : MethodObs := []
  sticky : Bool := false
  residue : Bool := false

def decTransport (s : String) : Option Transport :=
  if s == "tc" then some testClient else if s == "ws" then some wsgiServer else none

def decPairs : List String → Option (List (List Char × List Char))
  | [] => some []
  | n :: v :: rest => do
      let n ← decStr n
      let v ← decStr v
      let r ← decPairs rest
      pure ((n, v) :: r)
  | _ => none

/-- the marker view: bumps the counter state, answers 200 -/
def markView : View Nat Unit := fun _ _ s => (s + 1, 200)

def showOutcome : Outcome → String
  | .accept => "accept" | .reject => "reject" | .error => "error"

def stepLine (st : St) (line : String) : St × String :=
  match line.trimAscii.toString.splitOn " " with
  | ["clear"] => ({}, "ok")
  | ["tok", "none"] => ({ st with tok := none }, "ok")
  | ["tok", s] => match decStr s with
      | some t => ({ st with tok := some t }, "ok")
      | none => (st, "bad-op")
  | ["route", rule, ms, p, a, s] =>
      match decStr rule, flag p, flag a, flag s with
      | some rule, some p, some a, some s =>
        let r : Route := { rule := String.ofList rule, methods := ms.splitOn ",", prot := p, autoOptions := a, static := s }
        ({ st with table := { st.table with routes := st.table.routes ++ [r] } }, "ok")
      | _, _, _, _ => (st, "bad-op")
  | ["static", f] => match decStr f with
      | some f => ({ st with table := { st.table with staticFiles := st.table.staticFiles ++ [String.ofList f] } }, "ok")
      | none => (st, "bad-op")
  | ["word2", s] => match decStr s with
      | some h => (st, match word2 h with | none => "none" | some w => "some " ++ encStr w)
      | none => (st, "bad-op")
  | ["auth", s] => match decAuth s, st.tok with
      | some h, some τ => (st, showOutcome (authOK h τ))
      | _, _ => (st, "bad-op")
  | ["cfg", "sticky", v] => match flag v with
      | some v => ({ st with sticky := v }, "ok")
      | none => (st, "bad-op")
  | ["hnew"] => ({ st with residue := false }, "ok")
  | ["hreq", i, m, a, f, raised] => match i.toNat?, decAuth a, decStr f, flag raised, st.tok with
      | some i, some a, some f, some raised, some τ =>
        let r : Request Unit := { route := i, method := m, auth := a, file := String.ofList f, payload := () }
        let (s', status) := if st.sticky && st.residue then handleM [(m, true)] markView st.table st.tok 0 r
                            else if skipOf st.mobs m then handleM st.mobs markView st.table st.tok 0 r
                            else handleW (cmpOf st.obs) markView st.table st.tok 0 r
        ({ st with residue := st.residue || (st.sticky && raised && reachesWrapper st.table r && acceptsB a τ) },
         if s' != 0 then "view" else toString status)
      | _, _, _, _, _ => (st, "bad-op")
  | ["req", i, m, a, f] => match i.toNat?, decAuth a, decStr f with
      | some i, some a, some f =>
        let r : Request Unit := { route := i, method := m, auth := a, file := String.ofList f, payload := () }
        let (s', status) := if st.sticky && st.residue then handleM [(m, true)] markView st.table st.tok 0 r
                            else if skipOf st.mobs m then handleM st.mobs markView st.table st.tok 0 r
                            else handleW (cmpOf st.obs) markView st.table st.tok 0 r
        (st, if s' != 0 then "view" else toString status)
      | _, _, _ => (st, "bad-op")
  | ["mobs", m, v] => match flag v with
      | some v => ({ st with mobs := st.mobs ++ [(m, v)] }, "ok")
      | none => (st, "bad-op")
  | ["obs", p, e, v] => match decStr p, decStr e, flag v with
      | some p, some e, some v => ({ st with obs := st.obs ++ [(p, e, v)] }, "ok")
      | _, _, _ => (st, "bad-op")
  | ["cmp", p, e] => match decStr p, decStr e with
      | some p, some e => (st, if cmpOf st.obs p e then "1" else "0")
      | _, _ => (st, "bad-op")
  | "hval" :: tr :: rest => match decTransport tr, decPairs rest with
      | some tr, some raw => (st, match headerValue tr raw with | none => "absent" | some v => "some " ++ encStr v)
      | _, _ => (st, "bad-op")
  | "reqh" :: i :: m :: tr :: f :: rest => match i.toNat?, decTransport tr, decStr f, decPairs rest with
      | some i, some tr, some f, some raw =>
        let r : Request Unit := { route := i, method := m, auth := headerValue tr raw, file := String.ofList f, payload := () }
        let (s', status) := if skipOf st.mobs m then handleM st.mobs markView st.table st.tok 0 r
                            else handleW (cmpOf st.obs) markView st.table st.tok 0 r
        (st, if s' != 0 then "view" else toString status)
      | _, _, _, _ => (st, "bad-op")
  | _ => (st, "bad-op")

partial def loop (h : IO.FS.Stream) (st : St) : IO Unit := do
  let line ← h.getLine
  if line.isEmpty then return ()
  let (st', out) := stepLine st line
  IO.println out
  loop h st'

def main : IO Unit := do loop (← IO.getStdin) {}
