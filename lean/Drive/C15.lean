import Bptk.Core.C15
/-! Line-protocol driver for the C15 model:  `lake env lean --run Drive/C15.lean < lines`

Strings cross the boundary as decimal code points joined by `.` (`e` = empty string), so that every
header text (spaces, tabs, non-ASCII) fits on one space-separated line.

  clear                                   -> ok        (empty table, no token)
  tok <str> | tok none                    -> ok
  route <rule> <m1,m2,..> <prot> <auto> <static>   -> ok   (appends; flags 0/1)
  static <file>                           -> ok        (adds a file to the static folder)
  word2 <str>                             -> none | some <str>
  auth <str>|absent                       -> accept | reject | error     (needs a token)
  req <idx> <method> <str>|absent <file>  -> view | <status>   (view = the view function was reached)
-/
open Bptk.C15

def decStr (s : String) : Option (List Char) :=
  if s == "e" then some [] else
  (s.splitOn ".").mapM (fun p => p.toNat?.bind (fun n => if n < 0x110000 then some (Char.ofNat n) else none))

def encStr (cs : List Char) : String :=
  if cs.isEmpty then "e" else ".".intercalate (cs.map (fun c => toString c.toNat))

def decAuth (s : String) : Option (Option (List Char)) :=
  if s == "absent" then some none else (decStr s).map some

def flag (s : String) : Option Bool :=
  if s == "1" then some true else if s == "0" then some false else none

structure St where
  table : Table := { routes := [], staticFiles := [] }
  tok : Option (List Char) := none

/-- the marker view: bumps the counter state, answers 200 -/
def markView : View Nat Unit := fun _ _ s => (s + 1, 200)

def showOutcome : Outcome → String
  | .accept => "accept" | .reject => "reject" | .error => "error"

def stepLine (st : St) (line : String) : St × String :=
  match line.trimAscii.toString.splitOn " " with
  | ["clear"] => ({}, "ok")
  | ["tok", "none"] => ({ st with tok := none }, "ok")
  | ["tok", s] => match decStr s with
      | some t => ({ st with tok := some t }, "ok")
      | none => (st, "bad-op")
  | ["route", rule, ms, p, a, s] =>
      match decStr rule, flag p, flag a, flag s with
      | some rule, some p, some a, some s =>
        let r : Route := { rule := String.ofList rule, methods := ms.splitOn ",", prot := p, autoOptions := a, static := s }
        ({ st with table := { st.table with routes := st.table.routes ++ [r] } }, "ok")
      | _, _, _, _ => (st, "bad-op")
  | ["static", f] => match decStr f with
      | some f => ({ st with table := { st.table with staticFiles := st.table.staticFiles ++ [String.ofList f] } }, "ok")
      | none => (st, "bad-op")
  | ["word2", s] => match decStr s with
      | some h => (st, match word2 h with | none => "none" | some w => "some " ++ encStr w)
      | none => (st, "bad-op")
  | ["auth", s] => match decAuth s, st.tok with
      | some h, some τ => (st, showOutcome (authOK h τ))
      | _, _ => (st, "bad-op")
  | ["req", i, m, a, f] => match i.toNat?, decAuth a, decStr f with
      | some i, some a, some f =>
        let (s', status) := handle markView st.table st.tok 0
          { route := i, method := m, auth := a, file := String.ofList f, payload := () }
        (st, if s' != 0 then "view" else toString status)
      | _, _, _ => (st, "bad-op")
  | _ => (st, "bad-op")

partial def loop (h : IO.FS.Stream) (st : St) : IO Unit := do
  let line ← h.getLine
  if line.isEmpty then return ()
  let (st', out) := stepLine st line
  IO.println out
  loop h st'

def main : IO Unit := do loop (← IO.getStdin) {}
