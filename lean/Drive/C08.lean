import Bptk.Core.C08
/-! Line-protocol driver for the C08 memo model (carrier `Float`, values as IEEE bit patterns):
`lake env lean --run Drive/C08.lean < lines`

requests
  cfg <i> <a> <f> <o> <r>         mechanism facts (0/1)
  sreset | raweq <n> <expr>       scenario-level cache reset; raw write to model.equations (scenario.setup_constants)
  new <dt-hex> <kinds>            kinds: comma list over `s` (stock) `f` (flow) `o` (other), element i = i-th entry
  seteq <n> <expr> | setinit <n> <expr> | addeq <n> <expr> | reset
  setpoints <p> <xhex>:<yhex>,…   `model.points["p<p>"] = [[x,y],…]` (no cache reset — a plain dictionary write)
  eval <n> <k>                    -> value hex | none
  memo                            -> sorted `n.k=hex` list
  peek <n> <k>                    -> fresh value (no memo consulted, state untouched) hex | none
  conc <reqs> <sched>             reqs: threads separated by `|`, each `n.k,n.k,…`; sched: comma list of thread
                                  ids, each entry = "run that thread up to and including its next access to the memo"
                                  -> events `;` per-thread hand-out logs `;` final memo `;` finished flag
expr (prefix, comma separated): L<hex> | R<n> | P<n> | B<op>,e,e | M,e | S,e,e | X | K<p>,e  (K = model._lookup(e, "p<p>"))
-/
open Bptk.C08

def hexDigit (c : Char) : Option Nat :=
  if '0' ≤ c ∧ c ≤ '9' then some (c.toNat - '0'.toNat)
  else if 'a' ≤ c ∧ c ≤ 'f' then some (c.toNat - 'a'.toNat + 10)
  else none

def parseHex (s : String) : Option Float :=
  if s.length != 16 then none else
  (s.toList.foldlM (fun (acc : Nat) c => (hexDigit c).map (fun d => acc * 16 + d)) 0).map
    (fun n => Float.ofBits n.toUInt64)

def hexOf (x : Float) : String :=
  if x.isNaN then "nan" else
  let n := x.toBits.toNat
  let ds := (List.range 16).map (fun i => (n / 16 ^ (15 - i)) % 16)
  String.ofList (ds.map (fun d => if d < 10 then Char.ofNat (d + 48) else Char.ofNat (d + 87)))

def fOps : Ops Float :=
  { bin := fun op x y => match op with | 0 => x + y | 1 => x - y | 2 => x * y | _ => x / y
    -- Python `max(0, x)`: returns x only if x > 0, else the int 0 (shipped as 0.0)
    max0 := fun x => if x > 0.0 then x else 0.0 }

/-- `Model._lookup(x, points)`: clamp outside the table, else scipy's `interp1d` (linear):
`i = searchsorted(xs, x)` (first index with `xs[i] >= x`) clipped to `1 … n-1`, `slope = (y_hi-y_lo)/(x_hi-x_lo)`,
`y = slope*(x-x_lo) + y_lo`. -/
def interpF (tbl : List (Float × Float)) (x : Float) : Float :=
  match tbl, tbl.getLast? with
  | (x0, y0) :: _, some (xn, yn) =>
      if x ≤ x0 then y0 else if x ≥ xn then yn else
      let arr := tbl.toArray
      let i := (arr.findIdx? (fun p => p.1 ≥ x)).getD (arr.size - 1)
      let i := if i < 1 then 1 else if i > arr.size - 1 then arr.size - 1 else i
      let lo := arr[i - 1]!
      let hi := arr[i]!
      let slope := (hi.2 - lo.2) / (hi.1 - lo.1)
      slope * (x - lo.1) + lo.2
  | _, _ => x

def parsePoints (s : String) : Option (List (Float × Float)) :=
  (s.splitOn ",").mapM (fun t => match t.splitOn ":" with
    | [a, b] => do some ((← parseHex a), (← parseHex b))
    | _ => none)

/-- prefix parser; fuel = number of tokens. -/
def parseE : Nat → List String → Option (Expr Float × List String)
  | 0, _ => none
  | _ + 1, [] => none
  | f + 1, t :: ts =>
      let hd := (t.take 1).toString
      let tl := (t.drop 1).toString
      if hd == "L" then (parseHex tl).map (fun x => (.lit x, ts))
      else if hd == "R" then tl.toNat?.map (fun n => (.ref n, ts))
      else if hd == "P" then tl.toNat?.map (fun n => (.prev n, ts))
      else if hd == "X" && tl == "" then some (.rnd, ts)
      else if hd == "K" then
        match tl.toNat?, parseE f ts with
        | some p, some (a, r) => some (.lookup p a, r)
        | _, _ => none
      else if hd == "M" && tl == "" then
        match parseE f ts with
        | some (a, r) => some (.max0 a, r)
        | none => none
      else if hd == "S" && tl == "" then
        match parseE f ts with
        | some (a, r) => (match parseE f r with
                          | some (b, r') => some (.atStart a b, r')
                          | none => none)
        | none => none
      else if hd == "B" then
        match tl.toNat? with
        | some op =>
            if op > 3 then none else
            match parseE f ts with
            | some (a, r) => (match parseE f r with
                              | some (b, r') => some (.bin op a b, r')
                              | none => none)
            | none => none
        | none => none
      else none

def parseExpr (s : String) : Option (Expr Float) :=
  let ts := s.splitOn ","
  match parseE (ts.length + 1) ts with
  | some (e, []) => some e
  | _ => none

def parseKinds (s : String) : Option (List Kind) :=
  (s.splitOn ",").mapM (fun t => if t == "s" then some Kind.stock else if t == "f" then some Kind.flow
                                 else if t == "o" then some Kind.other else none)

def parseKey (s : String) : Option Key :=
  match s.splitOn "." with
  | [a, b] => do some ((← a.toNat?), (← b.toNat?))
  | _ => none

def parseReqs (s : String) : Option (List (List Key)) :=
  (s.splitOn "|").mapM (fun t => if t == "-" then some [] else (t.splitOn ",").mapM parseKey)

def parseNats (s : String) : Option (List Nat) :=
  if s == "-" then some [] else (s.splitOn ",").mapM (·.toNat?)

def keyLt (a b : Key) : Bool := a.1 < b.1 || (a.1 == b.1 && a.2 < b.2)

def insertSorted (x : Key × Float) : List (Key × Float) → List (Key × Float)
  | [] => [x]
  | y :: r => if keyLt x.1 y.1 then x :: y :: r else y :: insertSorted x r

/-- final dictionary content: for each key the entry stored last, sorted by key. -/
def memoCanon (m : Memo Float) : String :=
  let keys := m.foldl (fun acc e => if acc.contains e.1 then acc else acc ++ [e.1]) ([] : List Key)
  let es := keys.filterMap (fun k => (look m k).map (fun v => (k, v)))
  let sorted := es.foldl (fun acc e => insertSorted e acc) []
  ",".intercalate (sorted.map (fun e => s!"{e.1.1}.{e.1.2}={hexOf e.2}"))

def mkInit (dt : Float) (kinds : List Kind) : St Float :=
  let kf : Nat → Kind := fun n => kinds.getD n .other
  { kind := kf, eqn := fun _ => none, init := fun _ => .lit 0.0
    -- Element default `lambda model, t: 0.0`; Stock default `(0) if t <= start else memoize(s, t-dt)`
    body := fun n => if kf n == .stock then .atStart (.lit 0.0) (.prev n) else .lit 0.0
    memo := [], dt := dt }

def oracleF (tid i : Nat) : Float := Float.ofNat (1000 * (tid + 1) + i)

/-- does the next atomic action of the thread touch the shared memo?  `none` = thread finished. -/
def nextShared (th : Thread Float) : Option Bool :=
  match th.stack with
  | [] => if th.todo.isEmpty then none else some false
  | fr :: _ => match fr.phase with
      | .enter => some true
      | .hit => some true
      | .compute => some false
      | .store _ => some true

def describe (th : Thread Float) (memo : Memo Float) : String :=
  match th.stack with
  | fr :: _ =>
      let k := s!"{fr.key.1}.{fr.key.2}"
      match fr.phase with
      | .enter => s!"L{k}:" ++ (if (look memo fr.key).isSome then "hit" else "miss")
      | .hit => s!"R{k}:" ++ (match look memo fr.key with | some v => hexOf v | none => "err")
      | .store v => s!"S{k}:" ++ hexOf v
      | .compute => "?"
  | [] => "?"

/-- run thread `tid` up to and including its next shared action (bounded). -/
def coarse (c : Cfg) (sys : Sys Float) : Nat → CState Float → Nat → CState Float × String
  | 0, s, _ => (s, "fuel")
  | f + 1, s, tid =>
      match s.threads[tid]? with
      | none => (s, "nothread")
      | some th =>
          match nextShared th with
          | none => (s, "done")
          | some true => (cstep c sys s tid, describe th s.memo)
          | some false => coarse c sys f (cstep c sys s tid) tid

def runCoarse (c : Cfg) (sys : Sys Float) (s : CState Float) (sched : List Nat) : CState Float × List String :=
  sched.foldl (fun (acc : CState Float × List String) tid =>
    let (s', ev) := coarse c sys 100000 acc.1 tid
    (s', acc.2 ++ [s!"{tid}{ev}"])) (s, [])

/-- after the schedule is exhausted: finish thread 0, then 1, … (each to completion). -/
def finishAll (c : Cfg) (sys : Sys Float) (n : Nat) (s : CState Float) : CState Float × List String :=
  (List.range n).foldl (fun (acc : CState Float × List String) tid =>
    let rec go : Nat → CState Float × List String → CState Float × List String
      | 0, a => a
      | f + 1, a =>
          match coarse c sys 100000 a.1 tid with
          | (_, "done") => a
          | (s', ev) => go f (s', a.2 ++ [s!"{tid}{ev}"])
    go 100000 acc) (s, [])

def logCanon (log : Log Float) (nthreads : Nat) : String :=
  -- the log does not carry thread ids; hand-outs are listed in global order (oldest first)
  let _ := nthreads
  ",".intercalate (log.reverse.map (fun e =>
    (match e.1 with | some k => s!"{k.1}.{k.2}" | none => "-") ++ s!">{e.2.1.1}.{e.2.1.2}={hexOf e.2.2}"))

structure DS where
  c : Cfg
  s : St Float

def stepLine (d : DS) (line : String) : DS × String :=
  match line.trimAscii.toString.splitOn " " with
  | ["cfg", i, a, f, o, r, j] => ({ d with c := ⟨i == "1", a == "1", f == "1", o == "1", r == "1", j == "1"⟩ }, "ok")
  | ["rejected"] => ({ d with s := step d.c fOps d.s .rejected }, "ok")
  | ["new", dt, kinds] =>
      match parseHex dt, parseKinds kinds with
      | some dt, some ks => ({ d with s := mkInit dt ks }, "ok")
      | _, _ => (d, "bad-op")
  | ["seteq", n, e] => match n.toNat?, parseExpr e with
      | some n, some e => ({ d with s := step d.c fOps d.s (.setEq n e) }, "ok")
      | _, _ => (d, "bad-op")
  | ["setinit", n, e] => match n.toNat?, parseExpr e with
      | some n, some e => ({ d with s := step d.c fOps d.s (.setInit n e) }, "ok")
      | _, _ => (d, "bad-op")
  | ["addeq", n, e] => match n.toNat?, parseExpr e with
      | some n, some e => ({ d with s := step d.c fOps d.s (.addEq n e) }, "ok")
      | _, _ => (d, "bad-op")
  | ["reset"] => ({ d with s := step d.c fOps d.s .reset }, "ok")
  | ["sreset"] => ({ d with s := step d.c fOps d.s .sreset }, "ok")
  | ["raweq", n, e] => match n.toNat?, parseExpr e with
      | some n, some e => ({ d with s := step d.c fOps d.s (.rawEq n e) }, "ok")
      | _, _ => (d, "bad-op")
  | ["setpoints", p, tbl] => match p.toNat?, parsePoints tbl with
      | some p, some tbl =>
          if tbl.isEmpty then (d, "bad-op") else ({ d with s := step d.c fOps d.s (.setPoints p (interpF tbl)) }, "ok")
      | _, _ => (d, "bad-op")
  | ["eval", n, k] => match n.toNat?, k.toNat? with
      | some n, some k =>
          let r := query fOps d.s n k 100000
          ({ d with s := step d.c fOps d.s (.eval n k 100000) },
           match r with | some v => hexOf v | none => "none")
      | _, _ => (d, "bad-op")
  | ["memo"] => (d, memoCanon d.s.memo)
  | ["peek", n, k] => match n.toNat?, k.toNat? with
      -- the value of element n at grid index k under the current definitions, computed WITHOUT any memo (the fresh
      -- value); the state is not touched.  Used to check that every entry of the real memo is a fresh value.
      | some n, some k =>
          (d, match query fOps { d.s with memo := [] } n k 100000 with | some v => hexOf v | none => "none")
      | _, _ => (d, "bad-op")
  | ["conc", reqs, sched] => match parseReqs reqs, parseNats sched with
      | some reqs, some sched =>
          let sys := sysOf (fOps.withLk d.s.lk) 0.0 d.s.body oracleF
          let s0 := initC d.s.memo reqs
          let (s1, ev1) := runCoarse d.c sys s0 sched
          let (s2, ev2) := finishAll d.c sys reqs.length s1
          let fin := s2.threads.all (fun th => th.stack.isEmpty && th.todo.isEmpty)
          ({ d with s := { d.s with memo := s2.memo } },
           " ".intercalate (ev1 ++ ev2) ++ ";" ++ logCanon s2.log reqs.length ++ ";" ++ memoCanon s2.memo ++ ";" ++
             (if fin then "finished" else "unfinished"))
      | _, _ => (d, "bad-op")
  | _ => (d, "bad-op")

partial def loop (h : IO.FS.Stream) (d : DS) : IO Unit := do
  let line ← h.getLine
  if line.isEmpty then return ()
  let (d', out) := stepLine d line
  IO.println out
  loop h d'

def main : IO Unit := do
  loop (← IO.getStdin) { c := ⟨true, true, true, true, true, true⟩, s := mkInit 1.0 [] }
