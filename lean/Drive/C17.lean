import Bptk.Core.C17
/-! Line-protocol driver for the C17 model:  `lake env lean --run Drive/C17.lean < lines`

  cfg keepAliveRestores 0|1          -> ok
  new                                -> ok                      (fresh server, nothing stored)
  micros w d h m s ms us             -> <Nat>                   (timedelta(**timeout) in microseconds)
  ev <now> create <timeout-µs>       -> <reply>
  ev <now> access <id> begin|results|step|end   -> <reply>
  ev <now> keepalive <id>            -> <reply>
  ev <now> metrics | fullmetrics     -> <reply>
  <reply> = ok|err;live=id:last:timeout:sess,…;destroyed=id,…;stored=id:timeout,…   (stored: effective entry per id, by id)
-/
open Bptk.C17

def showLive (s : State) : String :=
  ",".intercalate (s.insts.map fun i => s!"{i.id}:{i.last}:{i.timeout}:{if i.sess then 1 else 0}")

def showStored (s : State) : String :=
  let ids := (List.range s.next).filter (fun k => (lookupStored s.stored k).isSome)
  ",".intercalate (ids.map fun k => s!"{k}:{(lookupStored s.stored k).getD 0}")

def reply (s : State) (ok : Bool) : String :=
  let d := ",".intercalate (s.destroyed.map toString)
  s!"{if ok then "ok" else "err"};live={showLive s};destroyed={d};stored={showStored s}"

def parseKind : String → Option Kind
  | "begin" => some .begin | "results" => some .results | "step" => some .step | "end" => some .endS
  | _ => none

def parseEv : List String → Option Ev
  | ["create", t] => t.toNat?.map .create
  | ["access", i, k] => do some (.access (← i.toNat?) (← parseKind k))
  | ["keepalive", i] => i.toNat?.map .keepAlive
  | ["metrics"] => some .metrics
  | ["fullmetrics"] => some .fullMetrics
  | _ => none

def stepLine (c : Cfg) (s : State) (line : String) : Cfg × State × String :=
  match line.trimAscii.toString.splitOn " " with
  | ["cfg", "keepAliveRestores", v] =>
      if v == "1" || v == "0" then ({ c with keepAliveRestores := v == "1" }, s, "ok") else (c, s, "bad-op")
  | ["new"] => (c, State.init, "ok")
  | ["micros", w, d, h, m, sec, ms, us] =>
      match w.toNat?, d.toNat?, h.toNat?, m.toNat?, sec.toNat?, ms.toNat?, us.toNat? with
      | some w, some d, some h, some m, some sec, some ms, some us =>
        (c, s, toString (Timeout.toMicros { weeks := w, days := d, hours := h, minutes := m, seconds := sec,
                                            milliseconds := ms, microseconds := us }))
      | _, _, _, _, _, _, _ => (c, s, "bad-op")
  | "ev" :: now :: rest =>
      match now.toNat?, parseEv rest with
      | some now, some e => let (s', ok) := step c s now e; (c, s', reply s' ok)
      | _, _ => (c, s, "bad-op")
  | _ => (c, s, "bad-op")

partial def loop (h : IO.FS.Stream) (c : Cfg) (s : State) : IO Unit := do
  let line ← h.getLine
  if line.isEmpty then return ()
  let (c', s', out) := stepLine c s line
  IO.println out
  loop h c' s'

def main : IO Unit := do loop (← IO.getStdin) { keepAliveRestores := false } State.init
