import Bptk.Core.C17
/-! Line-protocol driver for the C17 model:  `lake env lean --run Drive/C17.lean < lines`

  cfg keepAliveRestores 0|1          -> ok
  new                                -> ok                      (fresh server, nothing stored)
  micros w d h m s ms us             -> <Nat>                   (timedelta(**timeout) in microseconds)
  ev <now> create <timeout-µs>       -> <reply>
  ev <now> access <id> begin|results|step|end   -> <reply>
  ev <now> keepalive <id>            -> <reply>
  ev <now> metrics | fullmetrics     -> <reply>
  <reply> = ok|err;live=id:last:timeout:sess,…;destroyed=id,…;stored=id:timeout,…   (stored: effective entry per id, by id)
wave 2:
  ev <now> create <signed-µs>        (a negative timeout runs as 0: `clampTimeout`)
  ev <now> stop <id> | savestate | loadstate      (savestate: always ok; stores the instances that have a session)
  qmicros w d h m s ms us            -> <Int>   (unit values in QUARTERS; timedelta rounds half to even)
wave 5 (the clock advances inside a request):
  cfg stampExact 0|1                 -> ok
  evr <t> <i1,i2,…|-> <event…>       -> <reply>;reads=<n>     (read n of the request returns t+i1+…+in; `reads` =
                                        number of clock reads the model performs, compared with the real code's)
     (a request without increments is the `step2` request at clock `t`: theorem `stepR_const_eq_step2`)
  ev|evr … loadord <id,id,…|->        load-state with the directory listing order of the stored ids (wave 6)
  live is printed by ascending id and the ids destroyed by ONE request in ascending order (dict / directory
  listing order after a load-state is not part of the model)
-/
open Bptk.C17

def insertBy (f : α → Nat) (x : α) : List α → List α
  | [] => [x]
  | y :: ys => if f x ≤ f y then x :: y :: ys else y :: insertBy f x ys

def sortBy (f : α → Nat) (l : List α) : List α := l.foldr (insertBy f) []

def showLive (s : State) : String :=
  ",".intercalate ((sortBy (·.id) s.insts).map fun i => s!"{i.id}:{i.last}:{i.timeout}:{if i.sess then 1 else 0}")

def showStored (s : State) : String :=
  let ids := (List.range s.next).filter (fun k => (lookupStored s.stored k).isSome)
  ",".intercalate (ids.map fun k => s!"{k}:{(lookupStored s.stored k).getD 0}")

def reply (s : State) (ok : Bool) (shown : List Nat) : String × List Nat :=
  let shown' := shown ++ sortBy id (s.destroyed.drop shown.length)
  let d := ",".intercalate (shown'.map toString)
  (s!"{if ok then "ok" else "err"};live={showLive s};destroyed={d};stored={showStored s}", shown')

def parseKind : String → Option Kind
  | "begin" => some .begin | "results" => some .results | "step" => some .step | "end" => some .endS
  | _ => none

def parseEv : List String → Option Ev
  | ["create", t] => t.toInt?.map (fun z => .create (clampTimeout z))
  | ["access", i, k] => do some (.access (← i.toNat?) (← parseKind k))
  | ["keepalive", i] => i.toNat?.map .keepAlive
  | ["metrics"] => some .metrics
  | ["fullmetrics"] => some .fullMetrics
  | _ => none

def parseEv2 : List String → Option Ev2
  | ["stop", i] => i.toNat?.map .stop
  | ["savestate"] => some .saveState
  | ["loadstate"] => some .loadState
  | ["loadord", o] => if o == "-" then some (.loadOrd []) else ((o.splitOn ",").mapM (fun (x : String) => x.toNat?)).map .loadOrd
  | l => (parseEv l).map .old

structure DS where
  c : Cfg
  s : State
  shown : List Nat     -- the destroy log as printed so far
  stampExact : Bool := true

def parseIncs (x : String) : Option (List Nat) :=
  if x == "-" then some [] else (x.splitOn ",").mapM (·.toNat?)

def sameState (a b : State) : Bool :=
  a.insts == b.insts && a.stored == b.stored && a.destroyed == b.destroyed && a.restored == b.restored &&
  a.next == b.next && a.dropped == b.dropped

def stepLine (d : DS) (line : String) : DS × String :=
  let c := d.c
  let s := d.s
  match line.trimAscii.toString.splitOn " " with
  | ["cfg", "keepAliveRestores", v] =>
      if v == "1" || v == "0" then ({ d with c := { c with keepAliveRestores := v == "1" } }, "ok") else (d, "bad-op")
  | ["cfg", "stampExact", v] =>
      if v == "1" || v == "0" then ({ d with stampExact := v == "1" }, "ok") else (d, "bad-op")
  | ["new"] => ({ d with s := State.init, shown := [] }, "ok")
  | "evr" :: t :: incs :: rest =>
      match t.toNat?, parseIncs incs, parseEv2 rest with
      | some t, some incs, some e =>
        let cr : CfgR := { keepAliveRestores := c.keepAliveRestores, stampExact := d.stampExact }
        let (s', ok, n) := stepR cr (rdOf t incs) s e
        let (out, shown') := reply s' ok d.shown
        ({ d with s := s', shown := shown' }, out ++ s!";reads={n}")
      | _, _, _ => (d, "bad-op")
  | ["qmicros", w, dd, h, m, sec, ms, us] =>
      match w.toInt?, dd.toInt?, h.toInt?, m.toInt?, sec.toInt?, ms.toInt?, us.toInt? with
      | some w, some dd, some h, some m, some sec, some ms, some us => (d, toString (quarterMicros w dd h m sec ms us))
      | _, _, _, _, _, _, _ => (d, "bad-op")
  | ["micros", w, dd, h, m, sec, ms, us] =>
      match w.toNat?, dd.toNat?, h.toNat?, m.toNat?, sec.toNat?, ms.toNat?, us.toNat? with
      | some w, some dd, some h, some m, some sec, some ms, some us =>
        (d, toString (Timeout.toMicros { weeks := w, days := dd, hours := h, minutes := m, seconds := sec,
                                         milliseconds := ms, microseconds := us }))
      | _, _, _, _, _, _, _ => (d, "bad-op")
  | "ev" :: now :: rest =>
      match now.toNat?, parseEv2 rest with
      | some now, some e =>
        let (s', ok) := step2 c s now e
        let (out, shown') := reply s' ok d.shown
        ({ d with s := s', shown := shown' }, out)
      | _, _ => (d, "bad-op")
  | _ => (d, "bad-op")

partial def loop (h : IO.FS.Stream) (d : DS) : IO Unit := do
  let line ← h.getLine
  if line.isEmpty then return ()
  let (d', out) := stepLine d line
  IO.println out
  loop h d'

def main : IO Unit := do loop (← IO.getStdin) { c := { keepAliveRestores := false }, s := State.init, shown := [] }
