import Bptk.Core.C07
/-! Line-protocol driver for the C07 resolution / application model:
`lake env lean --run Drive/C07.lean < requests`.  stores `k:v,k:v` or `-`, optional numbers `-`. -/
open Bptk.C06 hiding Cfg
open Bptk.C07

def parseStore (s : String) : Option Store :=
  if s == "-" then some [] else
  (s.splitOn ",").mapM (fun p => match p.splitOn ":" with
    | [a, b] => do some ((← a.toNat?), (← b.toNat?))
    | _ => none)

def parseOpt (s : String) : Option (Option Nat) :=
  if s == "-" then some none else s.toNat?.map some

def parseRs (s : String) : Option RunSpec :=
  match s.splitOn "/" with
  | [a, b, c] => do some { start := (← a.toNat?), stop := (← b.toNat?), dt := (← c.toNat?) }
  | _ => none

def parseFiles (s : String) : Option (List FileEntry) :=
  if s == "-" then some [] else
  (s.splitOn "|").mapM (fun f => match f.splitOn ";" with
    | [a, b] => do some { bc := (← parseStore a), bp := (← parseStore b), scns := [] }
    | _ => none)

def showStore (s : Store) : String :=
  if s.isEmpty then "-" else ",".intercalate (s.map fun kv => s!"{kv.1}:{kv.2}")
def showRs (r : RunSpec) : String := s!"{r.start}/{r.stop}/{r.dt}"

def mkDict (cs ps a o d : String) : Option Dict := do
  some { consts := (← parseStore cs), pts := (← parseStore ps), start := (← parseOpt a), stop := (← parseOpt o), dt := (← parseOpt d) }

def report (c : Cfg) (m : ModelSt) (s : Settings) : String :=
  let a := applyTo c m s
  s!"consts={showStore s.consts} pts={showStore s.pts} rs={showRs s.rs} meqs={showStore a.eqs} mpts={showStore a.pts} mrs={showRs a.rs}"

structure DSt where
  c : Cfg
  mrs : RunSpec
  m : MState
  ev : EvSt := { m := { eqs := [], pts := [], rs := ⟨0, 0, 0⟩ }, tab := [] }

def stepLine (c : Cfg) (line : String) : Cfg × String :=
  match line.trimAscii.toString.splitOn " " with
  | ["dict", mrs, mpts, bc, bp, cs, ps, a, o, d] =>
      match parseRs mrs, parseStore mpts, parseStore bc, parseStore bp, mkDict cs ps a o d with
      | some mrs, some mpts, some bc, some bp, some dd =>
          (c, report c { eqs := [], pts := mpts, rs := mrs } (resolveDictC c mrs bc bp dd))
      | _, _, _, _, _ => (c, "bad-op")
  | ["file", mrs, mpts, files, cs, ps, a, o, d] =>
      match parseRs mrs, parseStore mpts, parseFiles files, mkDict cs ps a o d with
      | some mrs, some mpts, some fs, some dd =>
          (c, report c { eqs := [], pts := mpts, rs := mrs } (resolveFileC c mrs fs dd))
      | _, _, _, _ => (c, "bad-op")
  | ["fsettings", mrs, mpts, files, cs0, ps0, a0, o0, d0, cs, ps, a, o, d] =>
      match parseRs mrs, parseStore mpts, parseFiles files, mkDict cs0 ps0 a0 o0 d0, mkDict cs ps a o d with
      | some mrs, some mpts, some fs, some d0, some dd =>
          (c, report c { eqs := [], pts := mpts, rs := mrs } (resolveSettingsC c (resolveFileC c mrs fs d0) dd))
      | _, _, _, _, _ => (c, "bad-op")
  | ["settings", mrs, mpts, bc, bp, cs0, ps0, a0, o0, d0, cs, ps, a, o, d] =>
      match parseRs mrs, parseStore mpts, parseStore bc, parseStore bp, mkDict cs0 ps0 a0 o0 d0, mkDict cs ps a o d with
      | some mrs, some mpts, some bc, some bp, some d0, some dd =>
          (c, report c { eqs := [], pts := mpts, rs := mrs } (resolveSettingsC c (resolveDictC c mrs bc bp d0) dd))
      | _, _, _, _, _, _ => (c, "bad-op")
  | _ => (c, "bad-op")

/-- the manager machine: `mgr` starts a manager, `madd` / `mconf` are `MOp.add` / `MOp.configure`, `mview i`
reads scenario i through the aliases, `mbase` reads the manager's base dictionaries -/
def stepM (st : DSt) (line : String) : DSt × String :=
  match line.trimAscii.toString.splitOn " " with
  | ["cfg", a, b, o] =>
      ({ st with c := { runspecStartApplied := a == "1", fileRunspecsKept := b == "1", scenarioOwnsDicts := o == "1" } }, "ok")
  | ["cfg", a, b, o, q] =>
      ({ st with c := { runspecStartApplied := a == "1", fileRunspecsKept := b == "1", scenarioOwnsDicts := o == "1",
                        overrideByPresence := q == "1" } }, "ok")
  | ["cfg", a, b, o, q, e] =>
      ({ st with c := { runspecStartApplied := a == "1", fileRunspecsKept := b == "1", scenarioOwnsDicts := o == "1",
                        overrideByPresence := q == "1", evalReadsCurrent := e == "1" } }, "ok")
  -- evaluation machine: `enew` a model, `eapply` settings (constants, points, run specs as they stand in the scenario),
  -- `eeval` an evaluation, `ereset` Model.reset_cache(), `eread k` the table an evaluation uses for graphical function k
  | ["enew", mrs, mpts] =>
      match parseRs mrs, parseStore mpts with
      | some mrs, some mpts => ({ st with ev := { m := { eqs := [], pts := mpts, rs := mrs }, tab := [] } }, "ok")
      | _, _ => (st, "bad-op")
  | ["eapply", cs, ps, rs] =>
      match parseStore cs, parseStore ps, parseRs rs with
      | some cs, some ps, some rs => ({ st with ev := estep st.c st.ev (.apply { consts := cs, pts := ps, rs := rs }) }, "ok")
      | _, _, _ => (st, "bad-op")
  | ["eeval"] => ({ st with ev := estep st.c st.ev .eval }, "ok")
  | ["ereset"] => ({ st with ev := estep st.c st.ev .modelReset }, "ok")
  | ["eread", k] =>
      match k.toNat? with
      | some k => (st, match readPts st.c st.ev k with | some v => s!"{v}" | none => "none")
      | none => (st, "bad-op")
  | ["mgr", mrs, bc, bp] =>
      match parseRs mrs, parseStore bc, parseStore bp with
      | some mrs, some bc, some bp => ({ st with mrs := mrs, m := MState.init bc bp }, "ok")
      | _, _, _ => (st, "bad-op")
  | ["madd", i, cs, ps, a, o, d] =>
      match i.toNat?, mkDict cs ps a o d with
      | some i, some dd => ({ st with m := mstep st.c st.mrs st.m (.add i dd) }, "ok")
      | _, _ => (st, "bad-op")
  | ["mconf", i, cs, ps, a, o, d] =>
      match i.toNat?, mkDict cs ps a o d with
      | some i, some dd => ({ st with m := mstep st.c st.mrs st.m (.configure i dd) }, "ok")
      | _, _ => (st, "bad-op")
  | ["mview", i] =>
      match i.toNat? with
      | some i =>
          match mview st.m i with
          | some s => (st, s!"consts={showStore s.consts} pts={showStore s.pts} rs={showRs s.rs}")
          | none => (st, "none")
      | none => (st, "bad-op")
  | ["mbase"] => (st, s!"bc={showStore st.m.bc} bp={showStore st.m.bp}")
  | _ => let (_, out) := stepLine st.c line; (st, out)

partial def loop (h : IO.FS.Stream) (st : DSt) : IO Unit := do
  let line ← h.getLine
  if line.isEmpty then return ()
  let (st', out) := stepM st line
  IO.println out
  loop h st'

def main : IO Unit := do
  loop (← IO.getStdin) { c := { runspecStartApplied := true, fileRunspecsKept := true, scenarioOwnsDicts := true },
                         mrs := ⟨0, 0, 0⟩, m := MState.init [] [] }
