import Bptk.Core.C07
/-! Line-protocol driver for the C07 resolution / application model:
`lake env lean --run Drive/C07.lean < requests`.  stores `k:v,k:v` or `-`, optional numbers `-`. -/
open Bptk.C06 hiding Cfg
open Bptk.C07

def parseStore (s : String) : Option Store :=
  if s == "-" then some [] else
  (s.splitOn ",").mapM (fun p => match p.splitOn ":" with
    | [a, b] => do some ((← a.toNat?), (← b.toNat?))
    | _ => none)

def parseOpt (s : String) : Option (Option Nat) :=
  if s == "-" then some none else s.toNat?.map some

def parseRs (s : String) : Option RunSpec :=
  match s.splitOn "/" with
  | [a, b, c] => do some { start := (← a.toNat?), stop := (← b.toNat?), dt := (← c.toNat?) }
  | _ => none

def parseFiles (s : String) : Option (List FileEntry) :=
  if s == "-" then some [] else
  (s.splitOn "|").mapM (fun f => match f.splitOn ";" with
    | [a, b] => do some { bc := (← parseStore a), bp := (← parseStore b), scns := [] }
    | _ => none)

def showStore (s : Store) : String :=
  if s.isEmpty then "-" else ",".intercalate (s.map fun kv => s!"{kv.1}:{kv.2}")
def showRs (r : RunSpec) : String := s!"{r.start}/{r.stop}/{r.dt}"

def mkDict (cs ps a o d : String) : Option Dict := do
  some { consts := (← parseStore cs), pts := (← parseStore ps), start := (← parseOpt a), stop := (← parseOpt o), dt := (← parseOpt d) }

def report (c : Cfg) (m : ModelSt) (s : Settings) : String :=
  let a := applyTo c m s
  s!"consts={showStore s.consts} pts={showStore s.pts} rs={showRs s.rs} meqs={showStore a.eqs} mpts={showStore a.pts} mrs={showRs a.rs}"

def stepLine (c : Cfg) (line : String) : Cfg × String :=
  match line.trimAscii.toString.splitOn " " with
  | ["cfg", a, b] => ({ runspecStartApplied := a == "1", fileRunspecsKept := b == "1" }, "ok")
  | ["dict", mrs, mpts, bc, bp, cs, ps, a, o, d] =>
      match parseRs mrs, parseStore mpts, parseStore bc, parseStore bp, mkDict cs ps a o d with
      | some mrs, some mpts, some bc, some bp, some dd =>
          (c, report c { eqs := [], pts := mpts, rs := mrs } (resolveDict mrs bc bp dd))
      | _, _, _, _, _ => (c, "bad-op")
  | ["file", mrs, mpts, files, cs, ps, a, o, d] =>
      match parseRs mrs, parseStore mpts, parseFiles files, mkDict cs ps a o d with
      | some mrs, some mpts, some fs, some dd =>
          (c, report c { eqs := [], pts := mpts, rs := mrs } (resolveFile c mrs fs dd))
      | _, _, _, _ => (c, "bad-op")
  | ["settings", mrs, mpts, bc, bp, cs0, ps0, a0, o0, d0, cs, ps, a, o, d] =>
      match parseRs mrs, parseStore mpts, parseStore bc, parseStore bp, mkDict cs0 ps0 a0 o0 d0, mkDict cs ps a o d with
      | some mrs, some mpts, some bc, some bp, some d0, some dd =>
          (c, report c { eqs := [], pts := mpts, rs := mrs } (resolveSettings (resolveDict mrs bc bp d0) dd))
      | _, _, _, _, _, _ => (c, "bad-op")
  | _ => (c, "bad-op")

partial def loop (h : IO.FS.Stream) (c : Cfg) : IO Unit := do
  let line ← h.getLine
  if line.isEmpty then return ()
  let (c', out) := stepLine c line
  IO.println out
  loop h c'

def main : IO Unit := do loop (← IO.getStdin) { runspecStartApplied := true, fileRunspecsKept := true }
