import Bptk.Core.C11
/-! Line-protocol driver for the C11 event-delivery model:  `lake env lean --run Drive/C11.lean < ops`

requests                         reply
  new                            ok
  dt <num>/<den>                 ok            (time step used by `sendq`)
  create <ty>                    ok
  delete <id,id,…|->             ok
  configure <ty:n,…|->           ok
  reset                          ok
  send <rid> <steps>             seq=<n>
  sendq <rid> <num>/<den>        seq=<n>;steps=<k>     (delay as a decimal fraction, converted by `stepsOf`)
  broadcast <ty> <steps>         seqs=<n>rid,…|->
  broadcastq <ty> <num>/<den>    seqs=<n>rid,…|->
  step                           step=<now>;h=<agent>:<seq>,…;d=<seq>,…      (handled in handler order; dropped sorted)
  queue                          q=<seq>:<remaining>,…                      (model.events in list order)
  steps <dn>/<dd> <tn>/<td>      <k>
anything else                    bad-op
-/
open Bptk.C11

def parseNats (s : String) : Option (List Nat) :=
  if s == "-" then some [] else (s.splitOn ",").mapM (·.toNat?)

def parseSpec (s : String) : Option (List (Nat × Nat)) :=
  if s == "-" then some [] else
  (s.splitOn ",").mapM (fun p => match p.splitOn ":" with
    | [a, b] => do some ((← a.toNat?), (← b.toNat?))
    | _ => none)

/-- positive denominators only -/
def parseFrac (s : String) : Option (Nat × Nat) :=
  match s.splitOn "/" with
  | [a, b] => do
      let n ← a.toNat?
      let d ← b.toNat?
      if d = 0 then none else some (n, d)
  | _ => none

def commaOr (l : List String) : String := if l.isEmpty then "-" else ",".intercalate l

def insertSorted (x : Nat) : List Nat → List Nat
  | [] => [x]
  | y :: ys => if x ≤ y then x :: y :: ys else y :: insertSorted x ys

def sortNats (l : List Nat) : List Nat := l.foldr insertSorted []

structure D where
  s : State
  tn : Nat
  td : Nat

def bcast (d : D) (t k : Nat) : D × String :=
  let s' := step d.s (.broadcast t k)
  ({ d with s := s' }, "seqs=" ++ commaOr ((s'.sent.drop d.s.sent.length).map fun m => s!"{m.seq}>{m.rid}"))

def stepLine (d : D) (line : String) : D × String :=
  match line.trimAscii.toString.splitOn " " with
  | ["new"] => ({ d with s := State.init }, "ok")
  | ["dt", f] => match parseFrac f with
      | some (n, k) => if n = 0 then (d, "bad-op") else ({ d with tn := n, td := k }, "ok")
      | none => (d, "bad-op")
  | ["create", t] => match t.toNat? with
      | some t => ({ d with s := step d.s (.create t) }, "ok")
      | none => (d, "bad-op")
  | ["delete", l] => match parseNats l with
      | some ids => ({ d with s := step d.s (.delete ids) }, "ok")
      | none => (d, "bad-op")
  | ["configure", sp] => match parseSpec sp with
      | some sp => ({ d with s := step d.s (.configure sp) }, "ok")
      | none => (d, "bad-op")
  | ["reset"] => ({ d with s := step d.s .reset }, "ok")
  | ["send", r, k] => match r.toNat?, k.toNat? with
      | some r, some k => ({ d with s := step d.s (.send r k) }, s!"seq={d.s.nextSeq}")
      | _, _ => (d, "bad-op")
  | ["sendq", r, f] => match r.toNat?, parseFrac f with
      | some r, some (dn, dd) =>
          let k := stepsOf dn dd d.tn d.td
          ({ d with s := step d.s (.send r k) }, s!"seq={d.s.nextSeq};steps={k}")
      | _, _ => (d, "bad-op")
  | ["broadcast", t, k] => match t.toNat?, k.toNat? with
      | some t, some k => bcast d t k
      | _, _ => (d, "bad-op")
  | ["broadcastq", t, f] => match t.toNat?, parseFrac f with
      | some t, some (dn, dd) => bcast d t (stepsOf dn dd d.tn d.td)
      | _, _ => (d, "bad-op")
  | ["step"] =>
      let s' := step d.s .step
      let hs := (s'.log.drop d.s.log.length).map fun h => s!"{h.agent}:{h.msg.seq}"
      let ds := (sortNats ((s'.dropped.drop d.s.dropped.length).map (·.msg.seq))).map toString
      ({ d with s := s' }, s!"step={s'.now};h={commaOr hs};d={commaOr ds}")
  | ["queue"] => (d, "q=" ++ commaOr (d.s.events.map fun e => s!"{e.msg.seq}:{e.remaining}"))
  | ["steps", a, b] => match parseFrac a, parseFrac b with
      | some (dn, dd), some (tn, td) => if tn = 0 then (d, "bad-op") else (d, toString (stepsOf dn dd tn td))
      | _, _ => (d, "bad-op")
  | _ => (d, "bad-op")

partial def loop (h : IO.FS.Stream) (d : D) : IO Unit := do
  let line ← h.getLine
  if line.isEmpty then return ()
  let (d', out) := stepLine d line
  IO.println out
  loop h d'

def main : IO Unit := do loop (← IO.getStdin) { s := State.init, tn := 1, td := 1 }
