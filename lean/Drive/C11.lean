import Bptk.Core.C11
/-! Line-protocol driver for the C11 event-delivery model:  `lake env lean --run Drive/C11.lean < ops`

requests                         reply
  new                            ok
  dt <num>/<den>                 ok            (time step used by `sendq`)
  create <ty>                    ok
  delete <id,id,…|->             ok
  configure <ty:n,…|->           ok
  reset                          ok
  send <rid> <steps>             seq=<n>
  sendq <rid> <num>/<den>        seq=<n>;steps=<k>     (delay as a decimal fraction, converted by `stepsOf`)
  broadcast <ty> <steps>         seqs=<n>rid,…|->
  broadcastq <ty> <num>/<den>    seqs=<n>rid,…|->
  randomevents <ty> <num> <steps> <draw.draw…|->      seqs=<n>rid,…|->     (random_events with the given random indices)
  randomeventsq <ty> <num> <num>/<den> <draws>        seqs=<n>rid,…|->
  step                           step=<now>;h=<agent>:<seq>,…;d=<seq>,…      (handled in handler order; dropped sorted)
  queue                          q=<seq>:<remaining>,…                      (model.events in list order)
  steps <dn>/<dd> <tn>/<td>      <k>
wave 2a (a step with user code, `midStep`; fuel 1000):
  stepx <prog>                   step=<now>;h=…;d=…;e=<seq>rid,…|->;a=<live ids after the step>;stuck=<0|1>
      <prog> = `-` or entries joined by `;`:  A<id>=<effs> (act() of agent id)  E<seq>=<effs> (handler of event seq)
      <effs> = effects joined by `|`:  c<ty>  d<id.id|->  g<ty:n.ty:n|->  r  s<rid>/<steps>  q<rid>/<num>/<den>
               b<ty>/<steps>  p<ty>/<num>/<den>
wave 2b (extended machine `XState`, own state):
  xnew                           ok
  xcreate <ty>                   ok
  xcreatet <ty> <state> <tbl>    ok        <tbl> = `-` or rows `<state>:<name.name…>` joined by `,` (`<state>:` = no names)
  xdelete <ids> | xconfigure <spec> | xreset     ok
  xstate <id> <st>               ok
  xsend <rid> <steps> <name> <0|1>          seq=<n>
  xsendq <rid> <num>/<den> <name> <0|1>     seq=<n>;steps=<k>
  xbroadcast <ty> <steps> | xbroadcastq <ty> <num>/<den>     seqs=…
  xstep                          step=<now>;h=…;i=<agent>:<seq>,…;d=…;ab=<0|1>;in=<id>:<seq.seq…>,…   (non-empty inboxes)
anything else                    bad-op
-/
open Bptk.C11

def parseNats (s : String) : Option (List Nat) :=
  if s == "-" then some [] else (s.splitOn ",").mapM (·.toNat?)

def parseSpec (s : String) : Option (List (Nat × Nat)) :=
  if s == "-" then some [] else
  (s.splitOn ",").mapM (fun p => match p.splitOn ":" with
    | [a, b] => do some ((← a.toNat?), (← b.toNat?))
    | _ => none)

/-- positive denominators only -/
def parseFrac (s : String) : Option (Nat × Nat) :=
  match s.splitOn "/" with
  | [a, b] => do
      let n ← a.toNat?
      let d ← b.toNat?
      if d = 0 then none else some (n, d)
  | _ => none

def commaOr (l : List String) : String := if l.isEmpty then "-" else ",".intercalate l

def insertSorted (x : Nat) : List Nat → List Nat
  | [] => [x]
  | y :: ys => if x ≤ y then x :: y :: ys else y :: insertSorted x ys

def sortNats (l : List Nat) : List Nat := l.foldr insertSorted []

structure D where
  s : State
  tn : Nat
  td : Nat
  x : XState := XState.init

def dotNats (s : String) : Option (List Nat) :=
  if s == "-" || s == "" then some [] else (s.splitOn ".").mapM (·.toNat?)

def parseEff (tn td : Nat) (t : String) : Option Eff :=
  let body := (t.drop 1).toString
  match (t.take 1).toString with
  | "c" => body.toNat?.map Eff.create
  | "d" => (dotNats body).map Eff.delete
  | "g" => if body == "-" then some (.configure []) else
      ((body.splitOn ".").mapM (fun (p : String) => match p.splitOn ":" with
        | [a, b] => do some ((← a.toNat?), (← b.toNat?))
        | _ => (none : Option (Nat × Nat)))).map Eff.configure
  | "r" => if body == "" then some .reset else none
  | "s" => match body.splitOn "/" with
      | [r, k] => do some (.send (← r.toNat?) (← k.toNat?))
      | _ => none
  | "q" => match body.splitOn "/" with
      | [r, n, dd] => do
          let dd ← dd.toNat?
          if dd = 0 then none else some (.send (← r.toNat?) (stepsOf (← n.toNat?) dd tn td))
      | _ => none
  | "b" => match body.splitOn "/" with
      | [r, k] => do some (.broadcast (← r.toNat?) (← k.toNat?))
      | _ => none
  | "p" => match body.splitOn "/" with
      | [r, n, dd] => do
          let dd ← dd.toNat?
          if dd = 0 then none else some (.broadcast (← r.toNat?) (stepsOf (← n.toNat?) dd tn td))
      | _ => none
  | _ => none

/-- (act table by agent id, handler table by event seq) -/
def parseProg (tn td : Nat) (s : String) : Option (List (Nat × List Eff) × List (Nat × List Eff)) :=
  if s == "-" then some ([], []) else
  (s.splitOn ";").foldlM (fun (acc : List (Nat × List Eff) × List (Nat × List Eff)) ent =>
    match ent.splitOn "=" with
    | [k, v] => do
        let key ← ((k.drop 1).toString).toNat?
        let effs ← (v.splitOn "|").mapM (parseEff tn td)
        match (k.take 1).toString with
        | "A" => some (acc.1 ++ [(key, effs)], acc.2)
        | "E" => some (acc.1, acc.2 ++ [(key, effs)])
        | _ => none
    | _ => none) ([], [])

def parseTbl (s : String) : Option (List (Nat × List Nat)) :=
  if s == "-" then some [] else
  (s.splitOn ",").mapM (fun row => match row.splitOn ":" with
    | [a, b] => do some ((← a.toNat?), (← dotNats b))
    | _ => none)

def xseqs (d : D) (x' : XState) : String :=
  "seqs=" ++ commaOr ((x'.s.sent.drop d.x.s.sent.length).map fun m => s!"{m.seq}>{m.rid}")

def bcast (d : D) (t k : Nat) : D × String :=
  let s' := step d.s (.broadcast t k)
  ({ d with s := s' }, "seqs=" ++ commaOr ((s'.sent.drop d.s.sent.length).map fun m => s!"{m.seq}>{m.rid}"))

def stepLine (d : D) (line : String) : D × String :=
  match line.trimAscii.toString.splitOn " " with
  | ["new"] => ({ d with s := State.init }, "ok")
  | ["dt", f] => match parseFrac f with
      | some (n, k) => if n = 0 then (d, "bad-op") else ({ d with tn := n, td := k }, "ok")
      | none => (d, "bad-op")
  | ["create", t] => match t.toNat? with
      | some t => ({ d with s := step d.s (.create t) }, "ok")
      | none => (d, "bad-op")
  | ["delete", l] => match parseNats l with
      | some ids => ({ d with s := step d.s (.delete ids) }, "ok")
      | none => (d, "bad-op")
  | ["configure", sp] => match parseSpec sp with
      | some sp => ({ d with s := step d.s (.configure sp) }, "ok")
      | none => (d, "bad-op")
  | ["reset"] => ({ d with s := step d.s .reset }, "ok")
  | ["send", r, k] => match r.toNat?, k.toNat? with
      | some r, some k => ({ d with s := step d.s (.send r k) }, s!"seq={d.s.nextSeq}")
      | _, _ => (d, "bad-op")
  | ["sendq", r, f] => match r.toNat?, parseFrac f with
      | some r, some (dn, dd) =>
          let k := stepsOf dn dd d.tn d.td
          ({ d with s := step d.s (.send r k) }, s!"seq={d.s.nextSeq};steps={k}")
      | _, _ => (d, "bad-op")
  | ["broadcast", t, k] => match t.toNat?, k.toNat? with
      | some t, some k => bcast d t k
      | _, _ => (d, "bad-op")
  | ["broadcastq", t, f] => match t.toNat?, parseFrac f with
      | some t, some (dn, dd) => bcast d t (stepsOf dn dd d.tn d.td)
      | _, _ => (d, "bad-op")
  | ["randomevents", t, n, k, dr] => match t.toNat?, n.toNat?, k.toNat?, dotNats dr with
      | some t, some n, some k, some dr =>
          let s' := step d.s (.randomEvents t n k dr)
          ({ d with s := s' }, "seqs=" ++ commaOr ((s'.sent.drop d.s.sent.length).map fun m => s!"{m.seq}>{m.rid}"))
      | _, _, _, _ => (d, "bad-op")
  | ["randomeventsq", t, n, f, dr] => match t.toNat?, n.toNat?, parseFrac f, dotNats dr with
      | some t, some n, some (dn, dd), some dr =>
          let s' := step d.s (.randomEvents t n (stepsOf dn dd d.tn d.td) dr)
          ({ d with s := s' }, "seqs=" ++ commaOr ((s'.sent.drop d.s.sent.length).map fun m => s!"{m.seq}>{m.rid}"))
      | _, _, _, _ => (d, "bad-op")
  | ["step"] =>
      let s' := step d.s .step
      let hs := (s'.log.drop d.s.log.length).map fun h => s!"{h.agent}:{h.msg.seq}"
      let ds := (sortNats ((s'.dropped.drop d.s.dropped.length).map (·.msg.seq))).map toString
      ({ d with s := s' }, s!"step={s'.now};h={commaOr hs};d={commaOr ds}")
  | ["stepx", pr] => match parseProg d.tn d.td pr with
      | none => (d, "bad-op")
      | some (acts, evs) =>
          let P : Prog := { onEvent := fun m => (evs.lookup m.seq).getD [], onAct := fun _ i => (acts.lookup i).getD [] }
          let r := midStep P 1000 d.s
          let s' := r.st
          let hs := (s'.log.drop d.s.log.length).map fun h => s!"{h.agent}:{h.msg.seq}"
          let ds := (sortNats ((s'.dropped.drop d.s.dropped.length).map (·.msg.seq))).map toString
          let es := (s'.sent.drop d.s.sent.length).map fun m => s!"{m.seq}>{m.rid}"
          let ids := s'.agents.map fun a => toString a.id
          ({ d with s := s' },
           s!"step={s'.now};h={commaOr hs};d={commaOr ds};e={commaOr es};a={commaOr ids};stuck={if r.stuck then 1 else 0}")
  | ["xnew"] => ({ d with x := XState.init }, "ok")
  | ["xcreate", t] => match t.toNat? with
      | some t => ({ d with x := xstep d.x (.base (.create t)) }, "ok")
      | none => (d, "bad-op")
  | ["xcreatet", t, st, tb] => match t.toNat?, st.toNat?, parseTbl tb with
      | some t, some st, some tb => ({ d with x := xstep d.x (.createT t { state := st, tbl := tb }) }, "ok")
      | _, _, _ => (d, "bad-op")
  | ["xdelete", l] => match parseNats l with
      | some ids => ({ d with x := xstep d.x (.base (.delete ids)) }, "ok")
      | none => (d, "bad-op")
  | ["xconfigure", sp] => match parseSpec sp with
      | some sp => ({ d with x := xstep d.x (.base (.configure sp)) }, "ok")
      | none => (d, "bad-op")
  | ["xreset"] => ({ d with x := xstep d.x (.base .reset) }, "ok")
  | ["xstate", i, st] => match i.toNat?, st.toNat? with
      | some i, some st => ({ d with x := xstep d.x (.setState i st) }, "ok")
      | _, _ => (d, "bad-op")
  | ["xsend", r, k, nm, rs] => match r.toNat?, k.toNat?, nm.toNat?, rs.toNat? with
      | some r, some k, some nm, some rs =>
          ({ d with x := xstep d.x (.sendX r k nm (rs != 0)) }, s!"seq={d.x.s.nextSeq}")
      | _, _, _, _ => (d, "bad-op")
  | ["xsendq", r, f, nm, rs] => match r.toNat?, parseFrac f, nm.toNat?, rs.toNat? with
      | some r, some (dn, dd), some nm, some rs =>
          let k := stepsOf dn dd d.tn d.td
          ({ d with x := xstep d.x (.sendX r k nm (rs != 0)) }, s!"seq={d.x.s.nextSeq};steps={k}")
      | _, _, _, _ => (d, "bad-op")
  | ["xbroadcast", t, k] => match t.toNat?, k.toNat? with
      | some t, some k => let x' := xstep d.x (.base (.broadcast t k)); ({ d with x := x' }, xseqs d x')
      | _, _ => (d, "bad-op")
  | ["xbroadcastq", t, f] => match t.toNat?, parseFrac f with
      | some t, some (dn, dd) =>
          let x' := xstep d.x (.base (.broadcast t (stepsOf dn dd d.tn d.td))); ({ d with x := x' }, xseqs d x')
      | _, _ => (d, "bad-op")
  | ["xstep"] =>
      let x' := xstep d.x (.base .step)
      let hs := (x'.s.log.drop d.x.s.log.length).map fun h => s!"{h.agent}:{h.msg.seq}"
      let is := (x'.ignored.drop d.x.ignored.length).map fun h => s!"{h.agent}:{h.msg.seq}"
      let ds := (sortNats ((x'.s.dropped.drop d.x.s.dropped.length).map (·.msg.seq))).map toString
      let ab := if x'.aborted.length > d.x.aborted.length then 1 else 0
      let inb := (x'.s.agents.filter (fun a => !a.inbox.isEmpty)).map fun a =>
        s!"{a.id}:" ++ ".".intercalate ((sortNats (a.inbox.map (·.msg.seq))).map toString)
      ({ d with x := x' }, s!"step={x'.s.now};h={commaOr hs};i={commaOr is};d={commaOr ds};ab={ab};in={commaOr inb}")
  | ["queue"] => (d, "q=" ++ commaOr (d.s.events.map fun e => s!"{e.msg.seq}:{e.remaining}"))
  | ["steps", a, b] => match parseFrac a, parseFrac b with
      | some (dn, dd), some (tn, td) => if tn = 0 then (d, "bad-op") else (d, toString (stepsOf dn dd tn td))
      | _, _ => (d, "bad-op")
  | _ => (d, "bad-op")

partial def loop (h : IO.FS.Stream) (d : D) : IO Unit := do
  let line ← h.getLine
  if line.isEmpty then return ()
  let (d', out) := stepLine d line
  IO.println out
  loop h d'

def main : IO Unit := do loop (← IO.getStdin) { s := State.init, tn := 1, td := 1 }
