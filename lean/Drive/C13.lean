import Bptk.Core.C13
/-! Line-protocol driver for the C13 statistics model on `Float`:  `lake env lean --run Drive/C13.lean < lines`

requests
  collect -|ty:state:props;…      props = -|name=N<hex16>,name=S<hex16>,…   (N numeric, S not numeric)
  stats                           the statistics of the last `collect`
  count ty st                     count cell (0 when the group does not exist)
  cell ty st p total|min|max|mean value cell as hex16, `fill0` when there is no record (the frame shows 0)
  stepcollect <ipop> <ops>        ipop = id@ty:state:props;…  ops = D<id.id>|C<id@agent>|S<id>.<st>|V<id>.<p>.<hex>|X joined by `|`:
                                  the statistics run_step records = collect of the population after the operations
  hclear | hadd t <pop>           statistics history of a run: appends (t, collect pop)
  run df|dict|json agents states props aggs     comma lists or `-`; `raises` or `ok n` (n result keys)
  read ag st p|- agg|- t          a number of the last result (hex16; `fill0` = absent / filled 0)
  point ag st p|- agg|- t         the same number read straight from the history (`pointCell`)
replies of `stats`: groups `ty.st#count#name=total/min/max/mean&…` joined by `;` (model order; harness sorts)
-/
open Bptk.C13

def hexDigit (n : Nat) : Char := "0123456789abcdef".toList.getD n '?'

def hex16 (x : UInt64) : String :=
  String.ofList ((List.range 16).map fun i => hexDigit ((x.toNat >>> (4 * (15 - i))) % 16))

def parseHex (s : String) : Option UInt64 :=
  if s.length != 16 then none else
  s.toList.foldl (fun acc ch => match acc with
    | none => none
    | some v =>
      let d := if '0' ≤ ch ∧ ch ≤ '9' then some (ch.toNat - '0'.toNat)
               else if 'a' ≤ ch ∧ ch ≤ 'f' then some (ch.toNat - 'a'.toNat + 10) else none
      d.map fun d => v * 16 + d) (some 0) |>.map UInt64.ofNat

def floatOps : Ops Float := { zero := 0.0, add := fun a b => a + b, lt := fun a b => decide (a < b) }

def parseEntry (s : String) : Option (Entry Float) :=
  match s.splitOn "=" with
  | [n, v] => do
    let n ← n.toNat?
    match v.toList with
    | 'N' :: rest => (parseHex (String.ofList rest)).map fun b => ⟨n, true, Float.ofBits b⟩
    | 'S' :: rest => (parseHex (String.ofList rest)).map fun b => ⟨n, false, Float.ofBits b⟩
    | _ => none
  | _ => none

def parseAgent (s : String) : Option (Agent Float) :=
  match s.splitOn ":" with
  | [t, st, ps] => do
    let ps ← if ps == "-" then some [] else (ps.splitOn ",").mapM parseEntry
    some ⟨(← t.toNat?), (← st.toNat?), ps⟩
  | _ => none

def parsePop (s : String) : Option (List (Agent Float)) :=
  if s == "-" then some [] else (s.splitOn ";").mapM parseAgent

def fb (x : Float) : String := hex16 x.toBits

def showP (x : Nat × PStat Float) : String :=
  s!"{x.1}={fb x.2.total}/{fb x.2.min}/{fb x.2.max}/{fb (x.2.meanNum / Float.ofNat x.2.meanDen)}"

def showG (x : (Nat × Nat) × Group Float) : String :=
  s!"{x.1.1}.{x.1.2}#{x.2.count}#" ++ "&".intercalate (x.2.props.map showP)

structure St where
  stats : Stats Float := []
  hist : History Float := []
  out : Option (Out Float) := none

def parseNats (s : String) : Option (List Nat) :=
  if s == "-" then some [] else (s.splitOn ",").mapM (·.toNat?)

def parseAgg (s : String) : Option Agg4 :=
  if s == "total" then some .total else if s == "min" then some .min else if s == "max" then some .max
  else if s == "mean" then some .mean else none

def parseAggs (s : String) : Option (List Agg4) :=
  if s == "-" then some [] else (s.splitOn ",").mapM parseAgg

def parseFmt (s : String) : Option Fmt :=
  if s == "df" then some .df else if s == "dict" then some .dict else if s == "json" then some .json else none

def showNum : Num Float → String
  | .cnt n => fb (Float.ofNat n)
  | .val v => fb v
  | .ratio n d => fb (n / Float.ofNat d)
  | .zero => "fill0"
  | .keyError => "keyerror"

def parseCol (st p a : String) : Option Col := do
  let st ← st.toNat?
  if p == "-" && a == "-" then some ⟨st, none⟩
  else some ⟨st, some ((← p.toNat?), (← parseAgg a))⟩

def parseIAgent (s : String) : Option (IAgent Float) :=
  match s.splitOn "@" with
  | [i, a] => do some ⟨(← i.toNat?), (← parseAgent a)⟩
  | _ => none

def parseIPop (s : String) : Option (List (IAgent Float)) :=
  if s == "-" then some [] else (s.splitOn ";").mapM parseIAgent

def parseOp (s : String) : Option (PopOp Float) :=
  match s.toList with
  | ['X'] => some .clear
  | 'D' :: rest =>
    let r := String.ofList rest
    if r == "" then some (.delete []) else ((r.splitOn ".").mapM (fun (x : String) => x.toNat?)).map PopOp.delete
  | 'C' :: rest => (parseIAgent (String.ofList rest)).map PopOp.create
  | 'S' :: rest => match (String.ofList rest).splitOn "." with
    | [i, st] => do some (.setState (← i.toNat?) (← st.toNat?))
    | _ => none
  | 'V' :: rest => match (String.ofList rest).splitOn "." with
    | [i, p, v] => do some (.setValue (← i.toNat?) (← p.toNat?) (Float.ofBits (← parseHex v)))
    | _ => none
  | _ => none

def parseOps (s : String) : Option (List (PopOp Float)) :=
  if s == "-" then some [] else (s.splitOn "|").mapM parseOp

def stepLine (σ : St) (line : String) : St × String :=
  let s := σ.stats
  match line.trimAscii.toString.splitOn " " with
  | ["collect", p] => match parsePop p with
    | some pop => ({ σ with stats := collect floatOps pop }, "ok")
    | none => (σ, "bad-op")
  | ["stats"] => (σ, ";".intercalate (s.map showG))
  | ["count", t, st] => match t.toNat?, st.toNat? with
    | some t, some st => (σ, toString (countCell s t st))
    | _, _ => (σ, "bad-op")
  | ["cell", t, st, p, w] => match t.toNat?, st.toNat?, p.toNat? with
    | some t, some st, some p =>
      let agg (a : Agg) := match aggCell s t st p a with | some v => fb v | none => "fill0"
      if w == "total" then (σ, agg .total) else if w == "min" then (σ, agg .min)
      else if w == "max" then (σ, agg .max)
      else if w == "mean" then
        (σ, match meanCell s t st p with | some (n, d) => fb (n / Float.ofNat d) | none => "fill0")
      else (σ, "bad-op")
    | _, _, _ => (σ, "bad-op")
  -- wave 3: statistics of a step = collect of the population after the step's operations
  | ["stepcollect", p, ops] => match parseIPop p, parseOps ops with
    | some pop, some ops => ({ σ with stats := collectStep floatOps pop ops }, "ok")
    | _, _ => (σ, "bad-op")
  -- wave 2: the runner on a statistics history
  | ["hclear"] => ({ σ with hist := [], out := none }, "ok")
  | ["hadd", t, p] => match t.toNat?, parsePop p with
    | some t, some pop => ({ σ with hist := σ.hist ++ [(t, collect floatOps pop)], out := none }, "ok")
    | _, _ => (σ, "bad-op")
  | ["run", f, ags, sts, ps, aggs] => match parseFmt f, parseNats ags, parseNats sts, parseNats ps, parseAggs aggs with
    | some f, some ags, some sts, some ps, some aggs =>
      match runOut f ⟨ags, sts, ps, aggs⟩ σ.hist with
      | some out => ({ σ with out := some out }, s!"ok {out.length}")
      | none => ({ σ with out := none }, "raises")
    | _, _, _, _, _ => (σ, "bad-op")
  | ["read", ag, st, p, a, t] => match σ.out, ag.toNat?, parseCol st p a, t.toNat? with
    | some out, some ag, some c, some t => (σ, showNum (readOut out ag c t))
    | _, _, _, _ => (σ, "bad-op")
  | ["point", ag, st, p, a, t] => match ag.toNat?, parseCol st p a, t.toNat? with
    | some ag, some c, some t => (σ, showNum (pointCell σ.hist ag c t))
    | _, _, _ => (σ, "bad-op")
  | _ => (σ, "bad-op")

partial def loop (h : IO.FS.Stream) (s : St) : IO Unit := do
  let line ← h.getLine
  if line.isEmpty then return ()
  let (s', out) := stepLine s line
  IO.println out
  loop h s'

def main : IO Unit := do loop (← IO.getStdin) {}
