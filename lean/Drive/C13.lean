import Bptk.Core.C13
/-! Line-protocol driver for the C13 statistics model on `Float`:  `lake env lean --run Drive/C13.lean < lines`

requests
  collect -|ty:state:props;…      props = -|name=N<hex16>,name=S<hex16>,…   (N numeric, S not numeric)
  stats                           the statistics of the last `collect`
  count ty st                     count cell (0 when the group does not exist)
  cell ty st p total|min|max|mean value cell as hex16, `fill0` when there is no record (the frame shows 0)
replies of `stats`: groups `ty.st#count#name=total/min/max/mean&…` joined by `;` (model order; harness sorts)
-/
open Bptk.C13

def hexDigit (n : Nat) : Char := "0123456789abcdef".toList.getD n '?'

def hex16 (x : UInt64) : String :=
  String.ofList ((List.range 16).map fun i => hexDigit ((x.toNat >>> (4 * (15 - i))) % 16))

def parseHex (s : String) : Option UInt64 :=
  if s.length != 16 then none else
  s.toList.foldl (fun acc ch => match acc with
    | none => none
    | some v =>
      let d := if '0' ≤ ch ∧ ch ≤ '9' then some (ch.toNat - '0'.toNat)
               else if 'a' ≤ ch ∧ ch ≤ 'f' then some (ch.toNat - 'a'.toNat + 10) else none
      d.map fun d => v * 16 + d) (some 0) |>.map UInt64.ofNat

def floatOps : Ops Float := { zero := 0.0, add := fun a b => a + b, lt := fun a b => decide (a < b) }

def parseEntry (s : String) : Option (Entry Float) :=
  match s.splitOn "=" with
  | [n, v] => do
    let n ← n.toNat?
    match v.toList with
    | 'N' :: rest => (parseHex (String.ofList rest)).map fun b => ⟨n, true, Float.ofBits b⟩
    | 'S' :: rest => (parseHex (String.ofList rest)).map fun b => ⟨n, false, Float.ofBits b⟩
    | _ => none
  | _ => none

def parseAgent (s : String) : Option (Agent Float) :=
  match s.splitOn ":" with
  | [t, st, ps] => do
    let ps ← if ps == "-" then some [] else (ps.splitOn ",").mapM parseEntry
    some ⟨(← t.toNat?), (← st.toNat?), ps⟩
  | _ => none

def parsePop (s : String) : Option (List (Agent Float)) :=
  if s == "-" then some [] else (s.splitOn ";").mapM parseAgent

def fb (x : Float) : String := hex16 x.toBits

def showP (x : Nat × PStat Float) : String :=
  s!"{x.1}={fb x.2.total}/{fb x.2.min}/{fb x.2.max}/{fb (x.2.meanNum / Float.ofNat x.2.meanDen)}"

def showG (x : (Nat × Nat) × Group Float) : String :=
  s!"{x.1.1}.{x.1.2}#{x.2.count}#" ++ "&".intercalate (x.2.props.map showP)

def stepLine (s : Stats Float) (line : String) : Stats Float × String :=
  match line.trimAscii.toString.splitOn " " with
  | ["collect", p] => match parsePop p with
    | some pop => (collect floatOps pop, "ok")
    | none => (s, "bad-op")
  | ["stats"] => (s, ";".intercalate (s.map showG))
  | ["count", t, st] => match t.toNat?, st.toNat? with
    | some t, some st => (s, toString (countCell s t st))
    | _, _ => (s, "bad-op")
  | ["cell", t, st, p, w] => match t.toNat?, st.toNat?, p.toNat? with
    | some t, some st, some p =>
      let agg (a : Agg) := match aggCell s t st p a with | some v => fb v | none => "fill0"
      if w == "total" then (s, agg .total) else if w == "min" then (s, agg .min)
      else if w == "max" then (s, agg .max)
      else if w == "mean" then
        (s, match meanCell s t st p with | some (n, d) => fb (n / Float.ofNat d) | none => "fill0")
      else (s, "bad-op")
    | _, _, _ => (s, "bad-op")
  | _ => (s, "bad-op")

partial def loop (h : IO.FS.Stream) (s : Stats Float) : IO Unit := do
  let line ← h.getLine
  if line.isEmpty then return ()
  let (s', out) := stepLine s line
  IO.println out
  loop h s'

def main : IO Unit := do loop (← IO.getStdin) []
