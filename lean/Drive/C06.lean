import Bptk.Core.C06
/-! Line-protocol driver for the C06 heap machine:  `lake env lean --run Drive/C06.lean < ops`

stores: `k:v,k:v` or `-`; optional numbers: `-` for none.
-/
open Bptk.C06

def parseStore (s : String) : Option Store :=
  if s == "-" then some [] else
  (s.splitOn ",").mapM (fun p => match p.splitOn ":" with
    | [a, b] => do some ((← a.toNat?), (← b.toNat?))
    | _ => none)

def parseOpt (s : String) : Option (Option Nat) :=
  if s == "-" then some none else s.toNat?.map some

def showStore (s : Store) : String :=
  if s.isEmpty then "-" else ",".intercalate (s.map fun kv => s!"{kv.1}:{kv.2}")

def showRs (r : RunSpec) : String := s!"{r.start}/{r.stop}/{r.dt}"

def showEff (e : Eff) : String := s!"{showStore e.eqs};{showStore e.pts};{showRs e.rs};{e.elems}"

def showMemo (m : List MemoEntry) : String :=
  if m.isEmpty then "-" else "|".intercalate (m.map fun e => showEff e.1 ++ ";" ++ (match e.2 with | some t => toString t | none => "-"))

def showSolo : Option Solo → String
  | none => "none"
  | some s => s!"mgr={s.mgr} consts={showStore s.consts} pts={showStore s.pts} rs={showRs s.rs} meqs={showStore s.meqs} mpts={showStore s.mpts} mrs={showRs s.mrs} live={if s.live then 1 else 0} elems={s.elems} memo={showMemo s.memo}"

structure D where
  c : Cfg
  b : Base
  st : State

def mkDict (cs ps a o d : String) : Option Dict := do
  some { consts := (← parseStore cs), pts := (← parseStore ps), start := (← parseOpt a), stop := (← parseOpt o), dt := (← parseOpt d) }

def parseSets : List String → Option (List (Nat × Dict))
  | [] => some []
  | i :: cs :: ps :: a :: o :: d :: rest => do
      let i ← i.toNat?
      let dd ← mkDict cs ps a o d
      let tl ← parseSets rest
      some ((i, dd) :: tl)
  | _ => none

def stepLine (x : D) (line : String) : D × String :=
  let ap (op : Op) : D × String := ({ x with st := step x.c x.b x.st op }, "ok")
  match line.trimAscii.toString.splitOn " " with
  | ["cfg", p, e, m, r, sa] =>
      let c : Cfg := ⟨p == "1", e == "1", m == "1", r == "1", sa == "1"⟩
      ({ x with c := c }, "ok")
  | ["new", bp, a, o, d, el] =>
      match parseStore bp, a.toNat?, o.toNat?, d.toNat?, el.toNat? with
      | some bp, some a, some o, some d, some el =>
          let b : Base := { pts := bp, rs := { start := a, stop := o, dt := d }, elems := el }
          ({ x with b := b, st := State.init b }, "ok")
      | _, _, _, _, _ => (x, "bad-op")
  | ["regmgr", m, bc, bp] =>
      match m.toNat?, parseStore bc, parseStore bp with
      | some m, some bc, some bp => ap (.regMgr m bc bp)
      | _, _, _ => (x, "bad-op")
  | ["add", i, m, cs, ps, a, o, d] =>
      match i.toNat?, m.toNat?, mkDict cs ps a o d with
      | some i, some m, some dd => ap (.add i m dd)
      | _, _, _ => (x, "bad-op")
  | ["run", i] => match i.toNat? with
      | some i => ap (.run i)
      | none => (x, "bad-op")
  | ["configure", i, cs, ps, a, o, d] =>
      match i.toNat?, mkDict cs ps a o d with
      | some i, some dd => ap (.configure i dd)
      | _, _ => (x, "bad-op")
  | ["reset", i] => match i.toNat? with
      | some i => ap (.reset i)
      | none => (x, "bad-op")
  | ["step", i, cs, ps, t] =>
      match i.toNat?, mkDict cs ps "-" "-" "-", t.toNat? with
      | some i, some dd, some t => ap (.step i dd t)
      | _, _, _ => (x, "bad-op")
  | "session" :: ns :: slots :: rest =>
      -- `session <names per manager> <slot,slot,…|-> {<slot> <consts> <pts> <start> <stop> <dt>}*`: one begin_session call, lowered as the Cfg says
      match ns.toNat?, (if slots == "-" then some [] else (slots.splitOn ",").mapM (·.toNat?)), parseSets rest with
      | some ns, some sl, some sets =>
          ({ x with st := (lower x.c (.session ns sl sets)).foldl (step x.c x.b) x.st }, "ok")
      | _, _, _ => (x, "bad-op")
  | ["evalbase"] => ap .evalBase
  | ["setup", i] => match i.toNat? with
      | some i => ap (.setup i)
      | none => (x, "bad-op")
  | ["view", i] => match i.toNat? with
      | some i => (x, showSolo (view x.st i))
      | none => (x, "bad-op")
  | ["mgr", m] => match m.toNat? with
      | some m => (x, match x.st.mgrs m with
          | none => "none"
          | some p => s!"bc={showStore p.1} bp={showStore p.2}")
      | none => (x, "bad-op")
  | ["base"] =>
      let v := baseView x.b x.st
      (x, s!"eff={showEff v.eff} memo={showMemo v.memo}")
  | _ => (x, "bad-op")

partial def loop (h : IO.FS.Stream) (x : D) : IO Unit := do
  let line ← h.getLine
  if line.isEmpty then return ()
  let (x', out) := stepLine x line
  IO.println out
  loop h x'

def main : IO Unit := do
  let b : Base := { pts := [], rs := { start := 0, stop := 0, dt := 0 }, elems := 0 }
  loop (← IO.getStdin) { c := { cloneOwnsPoints := true, cloneOwnsElements := false, mergeOwnsDict := true, reregFreshClone := true, sessionAddressesPair := true }, b := b, st := State.init b }
