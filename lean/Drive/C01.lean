import Bptk.Core.C01
import Bptk.Core.PyWire
/-!
Driver: an interpreter of BPTK function strings built on `Bptk.C01.evalM` with the carrier instantiated
by IEEE doubles (Lean `Float` = hardware double: + − × ÷ and comparisons are CPython's).
Protocol (one reply per line):
  reset | lit <text> <bits> | spec <start> <dt> <stop> <precision> | times <bits,…> | points <name> <x:y,…>
  el <name> <body words…> | runall → `name=bits,…;…` (value of every element at every grid index, computed
  level by level with the instrumented evaluator `evalO`: a body that consults anything but earlier indices
  or a same-index element in an acyclic order yields `bad:`) | solve <K> → the same for indices 0..K computed by
  the cache-free recursive evaluator `solveF` (what Model.memoize does, without the memo) | acyclic → `true` / `false <names>`:
  the decidable acyclicity criterion `modelOKb` on the stored function strings
-/
open Bptk.Py Bptk.C01

inductive V
  | f (x : Float)
  | fn (n : String)
  | s (x : String)
  | l (xs : List V)
  | bad (why : String)
deriving Inhabited

def V.num : V → Float
  | .f x => x
  | _ => 0.0 / 0.0

def bitsOfHex (s : String) : Option UInt64 :=
  s.toList.foldl (fun acc c => match acc, hexVal c with
    | some a, some d => some (a * 16 + d.toUInt64)
    | _, _ => none) (some 0)

def floatOfHex (s : String) : Option Float := (bitsOfHex s).map Float.ofBits

def hexOfFloat (x : Float) : String :=
  let b := x.toBits
  String.ofList ((List.range 16).map fun i => hexDigit ((b >>> (UInt64.ofNat (60 - 4 * i))) &&& 15).toNat)

structure St where
  lits : List (String × Float) := []
  start : Float := 0
  dt : Float := 1
  stop : Float := 0
  prec : Nat := 0
  times : Array Float := #[]
  points : List (String × List (Float × Float)) := []
  els : List (String × Py) := []

def truthyF (x : Float) : Bool := x != 0.0 && !(x.isNaN && false)
def vbool (b : Bool) : V := .f (if b then 1.0 else 0.0)

/-- scipy interp1d(kind="linear") between the bracketing points (searchsorted, side=left) -/
def lerp (pts : Array (Float × Float)) (x : Float) : Float :=
  if pts.size = 0 then 0.0 / 0.0 else
  let x0 := pts[0]!.1
  let xn := pts[pts.size - 1]!.1
  if x <= x0 then pts[0]!.2
  else if x >= xn then pts[pts.size - 1]!.2
  else
    let hi := (List.range pts.size).find? (fun i => pts[i]!.1 >= x) |>.getD (pts.size - 1)
    let hi := if hi = 0 then 1 else hi
    let lo := hi - 1
    let (xl, yl) := pts[lo]!
    let (xh, yh) := pts[hi]!
    let slope := (yh - yl) / (xh - xl)
    slope * (x - xl) + yl

/-- Python `round(x)`: nearest integer, ties to even -/
def roundHE (x : Float) : Float :=
  let f := x.floor
  let d := x - f
  if d < 0.5 then f else if d > 0.5 then f + 1 else (if (f / 2).floor * 2 == f then f else f + 1)

def carrier (st : St) : TC V where
  num := fun t => match st.lits.lookup t with
    | some x => .f x
    | none => .bad ("literal " ++ t)
  name := fun n => if n == "True" then .f 1.0 else if n == "False" then .f 0.0 else .fn n
  str := fun x => .s x
  neg := fun x => .f (-x.num)
  not := fun x => vbool (!truthyF x.num)
  bin := fun op a b =>
    let x := a.num
    let y := b.num
    match op with
    | .add => .f (x + y) | .sub => .f (x - y) | .mul => .f (x * y) | .div => .f (x / y)
    | .lt => vbool (decide (x < y)) | .le => vbool (decide (x <= y)) | .gt => vbool (decide (x > y)) | .ge => vbool (decide (x >= y))
    | .eq => vbool (x == y) | .ne => vbool (x != y)
    | .and => if truthyF x then b else a
    | .or => if truthyF x then a else b
    | .mod => .bad "mod" | .pow => .f (Float.pow x y)
  attr := fun v a => match v with
    | .fn "np" => if a == "pi" then .f 3.141592653589793 else .fn ("np." ++ a)
    | .fn n => .fn (n ++ "." ++ a)
    | _ => .bad ("attr " ++ a)
  call := fun f vs => match f, vs with
    | .fn "max", [a, b] => if b.num > a.num then b else a           -- Python max(a, b)
    | .fn "min", [a, b] => if b.num < a.num then b else a           -- Python min(a, b)
    | .fn "abs", [a] => .f a.num.abs
    | .fn "round", [a] => .f (roundHE a.num)
    | .fn "math.ceil", [a] => .f a.num.ceil
    | .fn "np.sin", [a] => .f a.num.sin
    | .fn "np.cos", [a] => .f a.num.cos
    | .fn "np.exp", [a] => .f a.num.exp
    | .fn "model._lookup", [x, .s tbl] => match st.points.lookup tbl with
      | some pts => .f (lerp pts.toArray x.num)
      | none => .bad ("points " ++ tbl)
    | .fn n, _ => .bad ("call " ++ n)
    | _, _ => .bad "call"
  index := fun _ _ => .bad "index"
  list := fun xs => .l xs
  kw := fun _ x => x
  time := fun k => .f (st.times[k]?.getD (0.0 / 0.0))
  dt := .f st.dt
  start := .f st.start
  stop := .f st.stop
  truthy := fun v => truthyF v.num
  idx := fun v =>
    -- the index `Model.memoize`'s normalisation assigns (Props/C01 `idxOf` on doubles): the grid label equal to
    -- normalize(x, dt, start, precision) = round(dt * round((x - start)/dt) + start, precision)
    let q := roundHE ((v.num - st.start) / st.dt)    -- Python round(): ties to even
    let p10 := Float.ofNat (10 ^ st.prec)
    let key := roundHE ((st.dt * q + st.start) * p10) / p10
    if q.isNaN then none else (List.range st.times.size).find? fun k => st.times[k]! == key

/-- value of element `n` at index `k`, elements at earlier indices from `hist`; same-index references
by bounded recursion (acyclic models). Evaluation is `evalO`: asking for anything else is a failure. -/
def levelVal (st : St) (C : TC V) (hist : Array (List (String × V))) (k : Nat) : Nat → String → Option V
  | 0, _ => none
  | fuel + 1, n =>
    match bodyOf st.els n with
    | none => none
    | some body =>
      evalO C (fun m j =>
        if j < k then hist[j]?.bind (·.lookup m)
        else if j = k then levelVal st C hist k fuel m
        else none) (fun _ => .bad "hole") k body

def simulate (st : St) : Array (List (String × V)) := Id.run do
  let C := carrier st
  let mut hist : Array (List (String × V)) := #[]
  for k in [0:st.times.size] do
    let row := st.els.map fun (n, _) =>
      (n, (levelVal st C hist k (st.els.length + 2) n).getD (.bad "consults-outside-acyclic-order"))
    hist := hist.push row
  return hist

/-- the cache-free recursive evaluator of Core/C01 on the same carrier -/
def solveAll (st : St) (K : Nat) : List (String × List V) :=
  let C := carrier st
  let fuel := (K + 1) * (st.els.length + 2)
  st.els.map fun (n, _) =>
    (n, (List.range (min (K + 1) st.times.size)).map fun k =>
      (solveF C st.els (fun _ => .bad "hole") fuel n k).getD (.bad "solveF-none"))

def showV : V → String
  | .f x => hexOfFloat x
  | .bad w => "bad:" ++ w.replace " " "_"
  | _ => "bad:nonnumeric"

def parsePts (s : String) : Option (List (Float × Float)) :=
  (s.splitOn ",").mapM fun p => match p.splitOn ":" with
    | [a, b] => do some ((← floatOfHex a), (← floatOfHex b))
    | _ => none

def handle (st : St) (line : String) : St × String :=
  match line.trimAscii.toString.splitOn " " with
  | ["reset"] => ({}, "ok")
  | ["lit", t, b] => match floatOfHex b with
    | some x => ({ st with lits := (t, x) :: st.lits }, "ok")
    | none => (st, "bad-op")
  | ["spec", a, b, c, p] => match floatOfHex a, floatOfHex b, floatOfHex c, p.toNat? with
    | some a, some b, some c, some p => ({ st with start := a, dt := b, stop := c, prec := p }, "ok")
    | _, _, _, _ => (st, "bad-op")
  | ["times", ts] => match (ts.splitOn ",").mapM floatOfHex with
    | some xs => ({ st with times := xs.toArray }, "ok")
    | none => (st, "bad-op")
  | ["points", n, ps] => match parsePts ps with
    | some xs => ({ st with points := (n, xs) :: st.points }, "ok")
    | none => (st, "bad-op")
  -- element names travel hex-encoded (they may contain spaces and punctuation), as in the string tokens
  | "el" :: hn :: ws => match unhex hn.toList, toksOfWords ws with
    | some cs, some ts => match parse ts with
      | some p => ({ st with els := st.els ++ [(String.ofList cs, erase p)] }, "ok")
      | none => (st, "parse-error")
    | _, _ => (st, "bad-op")
  | ["runall"] =>
    let h := simulate st
    (st, ";".intercalate (st.els.map fun (n, _) =>
      hexStr n ++ "=" ++ ",".intercalate (h.toList.map fun row => showV ((row.lookup n).getD (.bad "missing")))))
  -- the decidable acyclicity criterion of Core/C01 (`modelOKb`, sound by Props `acyclic_of_modelOKb`) on the real
  -- function strings, with the rank function computed from the same-time reference graph
  | ["acyclic"] =>
    let rk := computeRank st.els
    (st, if modelOKb st.els (rankFn rk) then "true" else
      "false " ++ " ".intercalate ((st.els.filter fun p => !elemOKb st.els (rankFn rk) p.1 p.2).map (hexStr ·.1)))
  | ["solve", ks] => match ks.toNat? with
    | some K =>
      (st, ";".intercalate ((solveAll st K).map fun (n, vs) => hexStr n ++ "=" ++ ",".intercalate (vs.map showV)))
    | none => (st, "bad-op")
  | _ => (st, "bad-op")

partial def loop (h : IO.FS.Stream) (st : St) : IO Unit := do
  let line ← h.getLine
  if line.isEmpty then return ()
  let (st', out) := handle st line
  IO.println out
  loop h st'

def main : IO Unit := do loop (← IO.getStdin) {}
