import Bptk.Core.PyWire
import Bptk.Gen.C02Table
/-! Driver for the A1 fragment over the table generated from /repo:  render / parse / parsemin / denote / tableok -/
open Bptk.Py

def T : Table := Bptk.C02.Gen.table
def Lv : Nat := 6

def handle (line : String) : String :=
  match line.trimAscii.toString.splitOn " " with
  | "render" :: ws => match treeOfWords ws with
      | some e => "toks " ++ wordsOfToks (render T e)
      | none => "bad-op"
  | "denote" :: ws => match treeOfWords ws with
      | some e => "sexp " ++ sexp (denote T e)
      | none => "bad-op"
  | "eok" :: ws => match treeOfWords ws with
      | some e => if E.ok T Lv e then "true" else "false"
      | none => "bad-op"
  | "parse" :: ws => match toksOfWords ws with
      | some ts => match parse ts with
        | some p => "sexp " ++ sexp p
        | none => "error"
      | none => "bad-op"
  -- the fuel bound of Proofs/PyComplete (`parseExpr_complete`: 2·length + 2 suffices), executed
  | "parsemin" :: ws => match toksOfWords ws with
      | some ts => match parseExpr (2 * ts.length + 2) 0 ts with
        | some (p, []) => "sexp " ++ sexp p
        | _ => "error"
      | none => "bad-op"
  | ["tableok"] => ";".intercalate (T.map fun t => t.cls ++ "=" ++ tmplDiag Lv t)
  | ["shapes"] => ";".intercalate (T.map fun t => t.cls ++ "=" ++ sexp (shapeOf t))
  | _ => "bad-op"

partial def loop (h : IO.FS.Stream) : IO Unit := do
  let line ← h.getLine
  if line.isEmpty then return ()
  IO.println (handle line)
  loop h

def main : IO Unit := do loop (← IO.getStdin)
