import Bptk.Core.C20
/-! Line-protocol driver for the C20 model:  `lake env lean --run Drive/C20.lean < lines`
Runs the crashing server and the uninterrupted server side by side on the symbolic simulation
(`histDyn`: a step result is the list of (time, settings) applied to the simulation so far).

  new                                  both servers empty
  cfg <0|1> <0|1>                      mechanism facts for what follows: replayIsComplete, atomicWrite (default 1 0)
  start <id> <start> <dt> <stop> <tag>
  step <id> <settings>                 -> C=<resp>;U=<resp>
  crash
  torn <id> <settings>                 run-step whose state write is cut short, then restart
  damage <id>                          the state file of <id> is damaged (disk fault); restart
  startup <compress> <perEntry> b|r... the constructor over a directory listing: raises | ok:<positions reconstructed>
  file <id>                            -> none | torn | ok:step=<t>;n=<logged steps>
-/
open Bptk.C20

abbrev H := List (Time × Settings)

def fmtHist (h : H) : String :=
  "|".intercalate (h.map fun (t, st) => s!"{t}:" ++ ",".intercalate (st.map (·.2)))

def fmtResp : Resp H → String
  | .ok h => "ok:" ++ fmtHist h
  | .stopped => "stopped"
  | .invalid => "invalid"
  | .none => "none"

def mkSettings (s : String) : Settings := if s == "-" then [] else [(0, s)]

abbrev St := Cfg × Server H × UServer H

def stepLine (st : St) (line : String) : St × String :=
  let (cf, c, u) := st
  let both (op : Op) : St × String :=
    let rc := stepCC cf histDyn c op
    let ru := stepU histDyn u (atomize cf.atomicWrite op)
    ((cf, rc.1, ru.1), s!"C={fmtResp rc.2};U={fmtResp ru.2}")
  match line.trimAscii.toString.splitOn " " with
  | ["new"] => ((cf, Server.empty, UServer.empty), "ok")
  | ["cfg", r, a] => (({ replayIsComplete := r == "1", atomicWrite := a == "1", loadIsPerEntry := true, replayOrderPreserved := true, loadReadsCommitted := true, saveOnEveryEnding := true, savedEqualsLive := true, loadSkipsUnusable := true }, c, u), "ok")
  | ["damage", id] =>
    match id.toNat? with
    | some id => ((both (.damage id)).1, "ok")
    | none => (st, "bad-op")
  | "startup" :: cmp :: per :: entries =>
    -- startup <compress 0|1> <loadIsPerEntry 0|1> <b|j|r>...   start-up over a directory listing (b = unreadable file,
    -- j = parses but holds no session state, r = session state); loadSkipsUnusable as set by `cfgj`
    let p0 : Persist := { spec := { start := 0, dt := 1, stop := 1, tag := 0 }, step := 0, log := [] }
    let l : List Stored := entries.zipIdx.map fun (e, i) =>
      if e == "b" then .unreadable else if e == "j" then .notASession else .session { p0 with step := i }
    let cf' : Cfg := { cf with loadIsPerEntry := per == "1" }
    (st, match startup (cmp == "1") (loadEntriesS cf' (listingS l)) with
      | none => "raises"
      | some ps => "ok:" ++ ",".intercalate (ps.map fun p => toString p.step))
  | ["cfgj", b] => (({ cf with loadSkipsUnusable := b == "1" }, c, u), "ok")
  | ["start", id, a, d, z, tag] =>
    match id.toNat?, a.toInt?, d.toInt?, z.toInt?, tag.toNat? with
    | some id, some a, some d, some z, some tag =>
      ((both (.start id { start := a, dt := d, stop := z, tag := tag })).1, "ok")
    | _, _, _, _, _ => (st, "bad-op")
  | ["step", id, s] =>
    match id.toNat? with
    | some id => both (.step id (mkSettings s))
    | none => (st, "bad-op")
  | ["crash"] => ((both .crash).1, "ok")
  | ["torn", id, s] =>
    match id.toNat? with
    | some id => ((both (.crashInWrite id (mkSettings s))).1, "ok")
    | none => (st, "bad-op")
  | ["file", id] =>
    match id.toNat? with
    | some id => (st, match c.files id with
        | none => "none"
        | some .torn => "torn"
        | some (.ok p) => s!"ok:step={p.step};n={p.log.length}")
    | none => (st, "bad-op")
  | _ => (st, "bad-op")

partial def loop (h : IO.FS.Stream) (st : St) : IO Unit := do
  let line ← h.getLine
  if line.isEmpty then return ()
  let (st', out) := stepLine st line
  IO.println out
  loop h st'

def main : IO Unit := do loop (← IO.getStdin) ({ replayIsComplete := true, atomicWrite := false, loadIsPerEntry := true, replayOrderPreserved := true, loadReadsCommitted := true, saveOnEveryEnding := true, savedEqualsLive := true, loadSkipsUnusable := true }, Server.empty, UServer.empty)
