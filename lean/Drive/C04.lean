import Bptk.Core.C04
import Bptk.Core.PyWire
/-! Line-protocol driver for C04:  `lake env lean --run Drive/C04.lean < requests`

`sim|<dt hex>|<grid hex,hex,…>|<elem>|<elem>|…`  →  rows `v,v,…;v,v,…;…` (IEEE hex, `ERR` = undefined)
   the memoised run of the compiled code on the idealised grid, carrier `Float` (= `euler` by
   `Bptk.C04.run_natTS_eq_euler`).
`chk|<elem>|…|#|<wire tokens of equation 0>|<wire tokens of equation 1>|…`  →  `ok` or `diff <i>`
   does the Python text the real compiler emitted for equation i denote `compile M i`?
`skel|<nin>|<nout>|<wire tokens>`  →  `ok` or `diff`
   are the tokens the real StockExpressions+parseExpression emitted for a stock with nin inflows and nout
   outflows exactly the intended text (`skeletonTextOK`; by `skeletonTextOK_sound` they then parse to the
   skeleton and denote the model's stock code — any nin, nout)?
`skelnn|<nin>|<nout>|<wire tokens>`  →  the same for a NON-NEGATIVE stock (`skeletonTextNNOK`, initial value `max([0 , 7.5])`)
elem:  `stock <ex> ; <ins> ; <outs>` | `nnstock <ex> ; <ins> ; <outs>` (non-negative stock) | `gflow <0|1> <ex> ; x:y,…` (flow defined by a gf) | `flow <0|1> <ex>` | `aux <ex>` | `gf <ex> ; x:y,x:y,…`
ex (prefix words): `L<hex>~<pytext>` `R<n>` `T` `D` `+ a b` `- a b` `* a b` `/ a b` `M a b` `m a b` `?<cmp> a b x y`
-/
open Bptk.C04

def hexNat (s : String) : Option Nat :=
  if s.length ≠ 16 then none else
  s.toList.foldlM (fun acc c => (Bptk.Py.hexVal c).map (fun d => acc * 16 + d)) 0

def floatOfHex (s : String) : Option Float := (hexNat s).map (fun n => Float.ofBits n.toUInt64)

def hexOfFloat (x : Float) : String :=
  let n := x.toBits.toNat
  String.ofList ((List.range 16).map fun i => Bptk.Py.hexDigit (n / 16 ^ (15 - i) % 16))

/-- literal = (value, python text) -/
abbrev Lit := Float × String

def cmpOfStr : String → Option Cmp
  | "lt" => some .lt | "le" => some .le | "gt" => some .gt | "ge" => some .ge | "eq" => some .eq
  | _ => none

def readEx : Nat → List String → Option (Ex Lit × List String)
  | 0, _ => none
  | fuel + 1, ws =>
    match ws with
    | [] => none
    | w :: rest =>
      let bin2 (k : Ex Lit → Ex Lit → Ex Lit) : Option (Ex Lit × List String) :=
        match readEx fuel rest with
        | some (a, r1) => match readEx fuel r1 with
          | some (b, r2) => some (k a b, r2)
          | none => none
        | none => none
      match w with
      | "T" => some (.time, rest)
      | "D" => some (.dt, rest)
      | "+" => bin2 (.bin .add)
      | "-" => bin2 (.bin .sub)
      | "*" => bin2 (.bin .mul)
      | "/" => bin2 (.bin .div)
      | "M" => bin2 .mx
      | "m" => bin2 .mn
      | _ =>
        match w.toList with
        | 'L' :: r =>
          match (String.ofList r).splitOn "~" with
          | [h, txt] => (floatOfHex h).map (fun v => (.lit (v, txt), rest))
          | _ => none
        | 'R' :: r => (String.ofList r).toNat?.map (fun n => (.ref n, rest))
        | '?' :: r =>
          match cmpOfStr (String.ofList r) with
          | none => none
          | some c =>
            match readEx fuel rest with
            | some (a, r1) => match readEx fuel r1 with
              | some (b, r2) => match readEx fuel r2 with
                | some (x, r3) => match readEx fuel r3 with
                  | some (y, r4) => some (.ite c a b x y, r4)
                  | none => none
                | none => none
              | none => none
            | none => none
        | _ => none

def exOfWords (ws : List String) : Option (Ex Lit) :=
  match readEx (ws.length + 2) ws with
  | some (e, []) => some e
  | _ => none

def words (s : String) : List String := (s.splitOn " ").filter (· ≠ "")

def natList (s : String) : Option (List Nat) :=
  let s := s.trimAscii.toString
  if s == "-" then some [] else (s.splitOn ",").mapM (·.trimAscii.toString.toNat?)

def ptsOf (s : String) : Option (List (Lit × Lit)) :=
  (s.trimAscii.toString.splitOn ",").mapM fun p =>
    match p.splitOn ":" with
    | [a, b] => match floatOfHex a, floatOfHex b with
      | some x, some y => some ((x, ""), (y, ""))
      | _, _ => none
    | _ => none

def elemOf (s : String) : Option (Elem Lit) :=
  match words s with
  | "stock" :: rest =>
    match (" ".intercalate rest).splitOn ";" with
    | [e, i, o] => match exOfWords (words e), natList i, natList o with
      | some e, some i, some o => some (.stock e i o)
      | _, _, _ => none
    | _ => none
  | "flow" :: nn :: rest => (exOfWords rest).map (fun e => .flow (nn == "1") e)
  | "aux" :: rest => (exOfWords rest).map .aux
  | "nnstock" :: rest =>
    match (" ".intercalate rest).splitOn ";" with
    | [e, i, o] => match exOfWords (words e), natList i, natList o with
      | some e, some i, some o => some (xStock true e i o)
      | _, _, _ => none
    | _ => none
  | "gflow" :: nn :: rest =>
    match (" ".intercalate rest).splitOn ";" with
    | [e, p] => match exOfWords (words e), ptsOf p with
      | some e, some p => some (.gflow (nn == "1") e p)
      | _, _ => none
    | _ => none
  | "gf" :: rest =>
    match (" ".intercalate rest).splitOn ";" with
    | [e, p] => match exOfWords (words e), ptsOf p with
      | some e, some p => some (.gf e p)
      | _, _ => none
    | _ => none
  | _ => none

def Bptk.C04.Ex.mapLit {α β : Type} (f : α → β) : Ex α → Ex β
  | .lit a => .lit (f a)
  | .int i => .int i
  | .ref n => .ref n
  | .time => .time
  | .dt => .dt
  | .bin o l r => .bin o (l.mapLit f) (r.mapLit f)
  | .mx l r => .mx (l.mapLit f) (r.mapLit f)
  | .mn l r => .mn (l.mapLit f) (r.mapLit f)
  | .ite c a b x y => .ite c (a.mapLit f) (b.mapLit f) (x.mapLit f) (y.mapLit f)

def Bptk.C04.Elem.mapLit {α β : Type} (f : α → β) : Elem α → Elem β
  | .stock i a b => .stock (i.mapLit f) a b
  | .flow nn e => .flow nn (e.mapLit f)
  | .aux e => .aux (e.mapLit f)
  | .gf e p => .gf (e.mapLit f) (p.map fun q => (f q.1, f q.2))
  | .gflow nn e p => .gflow nn (e.mapLit f) (p.map fun q => (f q.1, f q.2))

def showRows (rows : List (List (Option Float))) : String :=
  ";".intercalate (rows.map fun r => ",".intercalate (r.map fun v => match v with
    | some x => hexOfFloat x
    | none => "ERR"))

def handle (line : String) : String :=
  match line.splitOn "|" with
  | "sim" :: dt :: grid :: elems =>
    match floatOfHex dt.trimAscii.toString, (grid.trimAscii.toString.splitOn ",").mapM floatOfHex, elems.mapM elemOf with
    | some dt, some g, some es =>
      if g.isEmpty then "bad-op" else
      let M : Model Float := { elems := es.map (Elem.mapLit (·.1)), dtv := dt }
      let tv := fun k => g.getD k 0.0
      showRows (simulate floatCarrier M tv (g.length - 1))
    | _, _, _ => "bad-op"
  | ["skel", ni, no, toks] =>
    match ni.trimAscii.toString.toNat?, no.trimAscii.toString.toNat?, Bptk.Py.toksOfWords (words toks) with
    | some ni, some no, some ts => if skeletonTextOK ni no ts then "ok" else "diff"
    | _, _, _ => "bad-op"
  | ["skelnn", ni, no, toks] =>
    match ni.trimAscii.toString.toNat?, no.trimAscii.toString.toNat?, Bptk.Py.toksOfWords (words toks) with
    | some ni, some no, some ts => if skeletonTextNNOK ni no ts then "ok" else "diff"
    | _, _, _ => "bad-op"
  | "chk" :: rest =>
    let elems := rest.takeWhile (· ≠ "#")
    let toks := (rest.dropWhile (· ≠ "#")).drop 1
    match elems.mapM elemOf with
    | some es =>
      if toks.length ≠ es.length then "bad-op" else
      let M : Model String := { elems := es.map (Elem.mapLit (·.2)), dtv := "" }
      let bad := (List.range es.length).filter fun i =>
        match Bptk.Py.toksOfWords (words (toks.getD i "")) with
        | none => true
        | some ts =>
          match Bptk.Py.parse ts with
          | none => true
          | some p => !(decide (tmOfPy nameIx (Bptk.Py.erase p) = (compile M i).map (Tm.shape id)))
      match bad with
      | [] => "ok"
      | i :: _ => s!"diff {i}"
    | none => "bad-op"
  | _ => "bad-op"

partial def loop (h : IO.FS.Stream) : IO Unit := do
  let line ← h.getLine
  if line.isEmpty then return ()
  IO.println (handle line.trimAscii.toString)
  loop h

def main : IO Unit := do loop (← IO.getStdin)
