import Bptk.Core.C19
/-! Line-protocol driver for the C19 model:  `lake env lean --run Drive/C19.lean < lines`

  begin <paths|-> <start> <dt> <stop>      paths: comma separated numbers; times: integers (unit 1/1024)
  step <none|-|p=v,p=v> <-|p=v,p=v>        settings (none = request without body), simulation values
  state                                    session: step, settings log, results log
  rt <0|1>                                 session after store/unstore (1 = compressed)
  cs / cr                                  compressed settings / results as written by the adapter
  res <0|1>                                session results served from the restored session
  new / cfgs <0|1> / flush / endsession / saveall / saved
                                           instance-level machine: `begin` starts a (further) session on the instance, `flush`
                                           ends one step-advancing request (the steps since the last flush), `saved` prints what
                                           the state file holds (cfgs: saveAfterEveryStepRequest)
  pk <0|1> <i0,i1,...|->                   the settings part as written by the pickler when step n logged the settings
                                           object with identity i_n: which entries are `py/id` back-references and to
                                           what; rt = unpickler restores it; plain = what a plain JSON reader would do
Rows and columns are printed sorted by path (dictionary order is not part of the property). -/
open Bptk.C19

def parsePairs (s : String) : Option (List (Nat × String)) :=
  if s == "-" then some [] else
  (s.splitOn ",").mapM fun kv => match kv.splitOn "=" with
    | [k, v] => do some ((← k.toNat?), v)
    | _ => none

def parseNats (s : String) : Option (List Nat) :=
  if s == "-" then some [] else (s.splitOn ",").mapM (·.toNat?)

def sortBy {α : Type} (key : α → Nat) (l : List α) : List α := l.mergeSort fun a b => key a ≤ key b

def fmtRow (r : Row) : String :=
  ",".intercalate ((sortBy (·.1) r).map fun (p, v) => s!"{p}={v}")

def fmtLog (l : Log) : String :=
  String.join (l.map fun (k, r) => s!"{k}\{{fmtRow r}}")

def fmtSession (s : Session) : String :=
  let ps := ",".intercalate (s.spec.paths.map toString)
  s!"paths={ps};start={s.spec.start};dt={s.spec.dt};stop={s.spec.stop};step={s.step};S={fmtLog s.settingsLog};R={fmtLog s.resultsLog}"

def fmtCS (c : CSettings) : String :=
  let st := ",".intercalate (c.steps.map toString)
  let cols := String.join ((sortBy (·.1) c.cols).map fun (p, col) =>
    s!"{p}[" ++ ",".intercalate (col.map fun (i, v) => s!"{i}={v}") ++ "]")
  s!"steps={st};cols={cols}"

def fmtCR (c : CResults) : String :=
  let st := ",".intercalate (c.steps.map toString)
  let cols := String.join ((sortBy (·.1) c.cols).map fun (p, col) => s!"{p}[" ++ ",".intercalate col ++ "]")
  s!"steps={st};cols={cols}"

def fmtRes (r : List (Path × List (Time × Val))) : String :=
  String.join ((sortBy (·.1) r).map fun (p, ser) =>
    s!"{p}[" ++ ",".intercalate (ser.map fun (k, v) => s!"{k}={v}") ++ "]")

/-- object number ↦ path, numbering as the pickler does (depth first, dict/list objects only) -/
partial def walkJ (j : J) (path : String) (n : Nat) (acc : List (Nat × String)) : Nat × List (Nat × String) :=
  match j with
  | .atom _ => (n, acc)
  | .ref _ => (n, acc)
  | .obj l kids =>
    let rec go (k : JKids) (pos : Nat) (n : Nat) (acc : List (Nat × String)) : Nat × List (Nat × String) :=
      match k with
      | .nil => (n, acc)
      | .cons key v rest =>
        let name := if l then toString pos else match key with | .num t => toString t | .str s => s
        let (n1, acc1) := walkJ v (path ++ "/" ++ name) n acc
        go rest (pos + 1) n1 acc1
    go kids 0 (n + 1) ((n, path) :: acc)

def kidsList : JKids → List (Sc × J)
  | .nil => []
  | .cons k v r => (k, v) :: kidsList r

def scStr : Sc → String
  | .num t => toString t
  | .str s => s

def fmtPickle (compress : Bool) (j : J) : String :=
  let tab := (walkJ j "" 0 []).2
  let target (n : Nat) : String := "^" ++ ((tab.lookup n).getD "?")
  match j with
  | .obj false kids =>
    if compress then
      let cols := (kidsList kids).filterMap fun (k, v) => match k, v with
        | .num p, .obj true es =>
          some (p.toNat, s!"{p}[" ++ ",".intercalate ((kidsList es).map fun (_, e) => match e with
            | .obj true (.cons _ (.atom (.num i)) (.cons _ v .nil)) =>
              s!"{i}=" ++ (match v with
                | .atom (.str x) => x
                | .obj true (.cons _ (.atom (.str x)) .nil) => x
                | .ref n => target n
                | _ => "?")
            | _ => "?") ++ "]")
        | _, _ => none
      String.join ((sortBy (·.1) cols).map (·.2))
    else
      ",".intercalate ((kidsList kids).map fun (k, v) => scStr k ++ ":" ++ (match v with
        | .ref n => target n
        | .obj _ _ => "obj"
        | .atom _ => "?"))
  | _ => "?"

def pickleLine (compress : Bool) (ident : Nat → Nat) (s : Session) : String :=
  let st := store compress s
  let j := settingsJ ident st
  let e : Envelope := { id := 0, timeout := 0, step := s.step, stored := st }
  let rt := if (pickleCodec ⟨true, true, true, true, true⟩ ident).dec ((pickleCodec ⟨true, true, true, true, true⟩ ident).enc e) == some e then "ok" else "FAIL"
  let pl := match (pickleCodec ⟨false, true, true, true, true⟩ ident).dec ((pickleCodec ⟨false, true, true, true, true⟩ ident).enc e) with
    | some e' => if e' == e then "same" else "differs"
    | none => "differs"
  s!"{fmtPickle compress j};rt={rt};plain={pl}"

def stepLine (s : Option Session) (line : String) : Option Session × String :=
  match line.trimAscii.toString.splitOn " ", s with
  | ["begin", ps, a, d, z], _ =>
    match parseNats ps, a.toInt?, d.toInt?, z.toInt? with
    | some ps, some a, some d, some z => (some (begin { paths := ps, start := a, dt := d, stop := z }), "ok")
    | _, _, _, _ => (s, "bad-op")
  | ["step", st, vs], some s =>
    let settings : Option (Option Row) := if st == "none" then some none else (parsePairs st).map some
    match settings, parsePairs vs with
    | some settings, some vals =>
      (some (runStep s { settings := settings, val := fun p => (lookup p vals).getD "MISSING" }), "ok")
    | _, _ => (some s, "bad-op")
  | ["state"], some s => (some s, fmtSession s)
  | ["rt", b], some s => (some s, fmtSession (unstore (store (b == "1") s)))
  | ["cs"], some s => (some s, fmtCS (compressSettings s.settingsLog))
  | ["cr"], some s => (some s, fmtCR (compressResults s.resultsLog))
  | ["pk", b, ids], some s =>
    match parseNats ids with
    | some ids => (some s, pickleLine (b == "1") (fun i => ids.getD i (1000000 + i)) s)
    | none => (some s, "bad-op")
  | ["res", b], some s => (some s, fmtRes (sessionResults (unstore (store (b == "1") s))))
  | _, _ => (s, "bad-op")

/-- the instance-level machine (several sessions, when the file is written) runs alongside -/
structure Inst where
  cfg : Cfg
  ist : IState
  pending : List StepOp

def fmtFile (st : IState) : String :=
  match st.file with
  | none => "file=none"
  | some f => s!"file:paths={",".intercalate (f.spec.paths.map toString)};step={f.step};n={f.settingsLog.length}"

def instLine (i : Inst) (line : String) : Inst × Option String :=
  match line.trimAscii.toString.splitOn " " with
  | ["new"] => ({ i with ist := IState.init, pending := [] }, some "ok")
  | ["cfgs", b] => ({ i with cfg := { i.cfg with saveAfterEveryStepRequest := b == "1" } }, some "ok")
  | ["begin", ps, a, d, z] =>
    match parseNats ps, a.toInt?, d.toInt?, z.toInt? with
    | some ps, some a, some d, some z =>
      ({ i with ist := stepReq i.cfg i.ist (.beginSession { paths := ps, start := a, dt := d, stop := z }), pending := [] }, none)
    | _, _, _, _ => (i, none)
  | ["step", st, vs] =>
    let settings : Option (Option Row) := if st == "none" then some none else (parsePairs st).map some
    match settings, parsePairs vs with
    | some settings, some vals =>
      ({ i with pending := i.pending ++ [{ settings := settings, val := fun p => (lookup p vals).getD "MISSING" }] }, none)
    | _, _ => (i, none)
  | ["flush"] => ({ i with ist := stepReq i.cfg i.ist (.steps i.pending), pending := [] }, some "ok")     -- end of one step-advancing request
  | ["endsession"] => ({ i with ist := stepReq i.cfg i.ist .endSession, pending := [] }, some "ok")
  | ["saveall"] => ({ i with ist := { i.ist with file := i.ist.session } }, some "ok")                    -- GET /save-state
  | ["saved"] => (i, some (fmtFile i.ist))
  | ["cfgl", b] => ({ i with cfg := { i.cfg with loadInstallsStored := b == "1" } }, some "ok")
  | ["ibegin", ps, a, d, z] =>                            -- begin-session on the instance-level machine only (no write)
    match parseNats ps, a.toInt?, d.toInt?, z.toInt? with
    | some ps, some a, some d, some z =>
      ({ i with ist := stepReq i.cfg i.ist (.beginSession { paths := ps, start := a, dt := d, stop := z }), pending := [] }, some "ok")
    | _, _, _, _ => (i, some "bad-op")
  | ["loadstate"] => ({ i with ist := loadStateI i.cfg i.ist }, some "ok")                                  -- POST /load-state
  | ["live"] => (i, some (match i.ist.session with
      | none => "live=none"
      | some f => s!"live:paths={",".intercalate (f.spec.paths.map toString)};step={f.step};n={f.settingsLog.length}"))
  | _ => (i, none)

partial def loop (h : IO.FS.Stream) (s : Option Session) (i : Inst) : IO Unit := do
  let line ← h.getLine
  if line.isEmpty then return ()
  let (i', own) := instLine i line
  match own with
  | some out =>
    IO.println out
    loop h s i'
  | none =>
    let (s', out) := stepLine s line
    IO.println out
    loop h s' i'

def main : IO Unit := do
  loop (← IO.getStdin) none { cfg := { decoderResolvesRefs := true, saveAfterEveryStepRequest := true, restoreKeepsClock := true, compressIsPure := true, loadInstallsStored := true }, ist := IState.init, pending := [] }
