import Bptk.Core.C19
/-! Line-protocol driver for the C19 model:  `lake env lean --run Drive/C19.lean < lines`

  begin <paths|-> <start> <dt> <stop>      paths: comma separated numbers; times: integers (unit 1/1024)
  step <none|-|p=v,p=v> <-|p=v,p=v>        settings (none = request without body), simulation values
  state                                    session: step, settings log, results log
  rt <0|1>                                 session after store/unstore (1 = compressed)
  cs / cr                                  compressed settings / results as written by the adapter
  res <0|1>                                session results served from the restored session
Rows and columns are printed sorted by path (dictionary order is not part of the property). -/
open Bptk.C19

def parsePairs (s : String) : Option (List (Nat × String)) :=
  if s == "-" then some [] else
  (s.splitOn ",").mapM fun kv => match kv.splitOn "=" with
    | [k, v] => do some ((← k.toNat?), v)
    | _ => none

def parseNats (s : String) : Option (List Nat) :=
  if s == "-" then some [] else (s.splitOn ",").mapM (·.toNat?)

def sortBy {α : Type} (key : α → Nat) (l : List α) : List α := l.mergeSort fun a b => key a ≤ key b

def fmtRow (r : Row) : String :=
  ",".intercalate ((sortBy (·.1) r).map fun (p, v) => s!"{p}={v}")

def fmtLog (l : Log) : String :=
  String.join (l.map fun (k, r) => s!"{k}\{{fmtRow r}}")

def fmtSession (s : Session) : String :=
  let ps := ",".intercalate (s.spec.paths.map toString)
  s!"paths={ps};start={s.spec.start};dt={s.spec.dt};stop={s.spec.stop};step={s.step};S={fmtLog s.settingsLog};R={fmtLog s.resultsLog}"

def fmtCS (c : CSettings) : String :=
  let st := ",".intercalate (c.steps.map toString)
  let cols := String.join ((sortBy (·.1) c.cols).map fun (p, col) =>
    s!"{p}[" ++ ",".intercalate (col.map fun (i, v) => s!"{i}={v}") ++ "]")
  s!"steps={st};cols={cols}"

def fmtCR (c : CResults) : String :=
  let st := ",".intercalate (c.steps.map toString)
  let cols := String.join ((sortBy (·.1) c.cols).map fun (p, col) => s!"{p}[" ++ ",".intercalate col ++ "]")
  s!"steps={st};cols={cols}"

def fmtRes (r : List (Path × List (Time × Val))) : String :=
  String.join ((sortBy (·.1) r).map fun (p, ser) =>
    s!"{p}[" ++ ",".intercalate (ser.map fun (k, v) => s!"{k}={v}") ++ "]")

def stepLine (s : Option Session) (line : String) : Option Session × String :=
  match line.trimAscii.toString.splitOn " ", s with
  | ["begin", ps, a, d, z], _ =>
    match parseNats ps, a.toInt?, d.toInt?, z.toInt? with
    | some ps, some a, some d, some z => (some (begin { paths := ps, start := a, dt := d, stop := z }), "ok")
    | _, _, _, _ => (s, "bad-op")
  | ["step", st, vs], some s =>
    let settings : Option (Option Row) := if st == "none" then some none else (parsePairs st).map some
    match settings, parsePairs vs with
    | some settings, some vals =>
      (some (runStep s { settings := settings, val := fun p => (lookup p vals).getD "MISSING" }), "ok")
    | _, _ => (some s, "bad-op")
  | ["state"], some s => (some s, fmtSession s)
  | ["rt", b], some s => (some s, fmtSession (unstore (store (b == "1") s)))
  | ["cs"], some s => (some s, fmtCS (compressSettings s.settingsLog))
  | ["cr"], some s => (some s, fmtCR (compressResults s.resultsLog))
  | ["res", b], some s => (some s, fmtRes (sessionResults (unstore (store (b == "1") s))))
  | _, _ => (s, "bad-op")

partial def loop (h : IO.FS.Stream) (s : Option Session) : IO Unit := do
  let line ← h.getLine
  if line.isEmpty then return ()
  let (s', out) := stepLine s line
  IO.println out
  loop h s'

def main : IO Unit := do loop (← IO.getStdin) none
