import Bptk.Core.C12
/-! Line-protocol driver for the C12 scheduler model:  `lake env lean --run Drive/C12.lean < lines`

requests
  cfg progressBySpan 0|1
  prog -|K:r:s:a:acts;…        K ∈ B H A E, acts = c | d<id.id…> separated by `,`
  new start stop n collect k0 fuel dtbits     (population = ids 0..k0-1)
  run                          whole run from the initial population
  step r s                     one externally driven step on the current state
  runc -|r:s;r:s…              whole run in which a callback of the listed steps clears scheduler.running
  hcfg stepsFromSpecs 0|1      mechanism fact of the scheduler history model
  respec start stop n collect fuel dtbits   model.run_specs(…) on the SAME model and scheduler: population kept
  hrun                         whole run under the run specs in force (callOn … (.run sp))
  hstep r s                    externally driven step under the run specs in force
  rerun -|r:s;…                `run` again on the current population with the current value of the flag
replies: events `K/r/s/timebits[/a|ids]` joined by `;`, then `|progress=..|skipped=..|crashed=..|stuck=..|keys=..|pop=..|next=..`
-/
open Bptk.C12

def hexDigit (n : Nat) : Char := "0123456789abcdef".toList.getD n '?'

def hex16 (x : UInt64) : String :=
  String.ofList ((List.range 16).map fun i => hexDigit ((x.toNat >>> (4 * (15 - i))) % 16))

def parseHex (s : String) : Option UInt64 :=
  if s.length != 16 then none else
  s.toList.foldl (fun acc ch => match acc with
    | none => none
    | some v =>
      let d := if '0' ≤ ch ∧ ch ≤ '9' then some (ch.toNat - '0'.toNat)
               else if 'a' ≤ ch ∧ ch ≤ 'f' then some (ch.toNat - 'a'.toNat + 10) else none
      d.map fun d => v * 16 + d) (some 0) |>.map UInt64.ofNat

def parseInt (s : String) : Option Int := s.toInt?

def parseAct (s : String) : Option Act :=
  if s == "c" then some .create
  else match s.toList with
    | 'd' :: rest =>
      let r := String.ofList rest
      if r == "" then some (.delete []) else ((r.splitOn ".").mapM (fun (x : String) => x.toNat?)).map Act.delete
    | _ => none

structure Entry where
  kind : String
  r : Int
  s : Nat
  a : Nat
  acts : List Act

def parseEntry (s : String) : Option Entry :=
  match s.splitOn ":" with
  | [k, r, st, a, acts] => do
    if !(["B", "H", "A", "E"].contains k) then none
    let acts ← if acts == "" then some [] else (acts.splitOn ",").mapM parseAct
    some { kind := k, r := (← parseInt r), s := (← st.toNat?), a := (← a.toNat?), acts := acts }
  | _ => none

def parseProg (s : String) : Option (List Entry) :=
  if s == "-" then some [] else (s.splitOn ";").mapM parseEntry

def lookupE (es : List Entry) (k : String) (r : Int) (s : Nat) (a : Nat) : List Act :=
  (es.filter fun e => e.kind == k && e.r == r && e.s == s && e.a == a).flatMap (·.acts)

def mkProg (es : List Entry) : Prog :=
  { beginRound := fun r s => lookupE es "B" r s 0
    handle := fun r s a => lookupE es "H" r s a
    act := fun r s a => lookupE es "A" r s a
    endRound := fun r s => lookupE es "E" r s 0 }

structure D where
  c : Cfg
  es : List Entry
  sp : Spec
  dt : Float
  k0 : Nat
  st : St
  running : Bool := true
  h : SchedCfg := { stepsFromSpecs := true }
  cache : Option Nat := none

def ids (l : List Nat) : String := ".".intercalate (l.map toString)

def timeBits (d : D) (r : Int) (s : Nat) : String :=
  hex16 (Float.ofInt r + Float.ofNat s * d.dt).toBits

def showEv (d : D) (e : Ev) : String :=
  let h := s!"/{e.round}/{e.step}/{timeBits d e.round e.step}"
  match e.call with
  | .beginRound => "B" ++ h
  | .handle a => "H" ++ h ++ s!"/{a}"
  | .act a => "A" ++ h ++ s!"/{a}"
  | .endRound => "E" ++ h
  | .collect p => "C" ++ h ++ "/" ++ ids p

def dedup (l : List String) : List String := l.foldl (fun acc x => if acc.contains x then acc else acc ++ [x]) []

def status (d : D) (st : St) (evs : List Ev) : String :=
  let keys := dedup ((st.log.filter fun e => isCollect e.call).map fun e => timeBits d e.round e.step)
  ";".intercalate (evs.map (showEv d)) ++
  s!"|progress={st.progress.num}/{st.progress.den}|skipped={if skipped st then 1 else 0}" ++
  s!"|crashed={if st.crashed then 1 else 0}|stuck={if st.stuck then 1 else 0}" ++
  s!"|keys={",".intercalate keys}|pop={ids st.pop.agents}|next={st.pop.next}|running={if d.running then 1 else 0}"

def parsePositions (s : String) : Option (List (Int × Nat)) :=
  if s == "-" then some [] else (s.splitOn ";").mapM fun x => match x.splitOn ":" with
    | [r, st] => do some ((← parseInt r), (← st.toNat?))
    | _ => none

def pop0 (k : Nat) : Pop := { agents := List.range k, next := k }

def stepLine (d : D) (line : String) : D × String :=
  match line.trimAscii.toString.splitOn " " with
  | ["cfg", "progressBySpan", v] =>
    if v == "0" || v == "1" then ({ d with c := { progressBySpan := v == "1" } }, "ok") else (d, "bad-op")
  | ["prog", p] => match parseProg p with
    | some es => ({ d with es := es }, "ok")
    | none => (d, "bad-op")
  | ["new", a, b, n, col, k0, fuel, dtb] =>
    match parseInt a, parseInt b, n.toNat?, col.toNat?, k0.toNat?, fuel.toNat?, parseHex dtb with
    | some a, some b, some n, some col, some k0, some fuel, some dtb =>
      if col > 1 then (d, "bad-op") else
      ({ d with sp := { start := a, stop := b, n := n, collectOn := col == 1, fuel := fuel }
                dt := Float.ofBits dtb, k0 := k0, st := St.init (pop0 k0), running := true, cache := none }, "ok")
    | _, _, _, _, _, _, _ => (d, "bad-op")
  | ["run"] =>
    let st := run d.c (mkProg d.es) d.sp (pop0 d.k0)
    ({ d with st := st }, status d st st.log)
  | ["hcfg", "stepsFromSpecs", v] =>
    if v == "0" || v == "1" then ({ d with h := { stepsFromSpecs := v == "1" } }, "ok") else (d, "bad-op")
  | ["respec", a, b, n, col, fuel, dtb] =>
    match parseInt a, parseInt b, n.toNat?, col.toNat?, fuel.toNat?, parseHex dtb with
    | some a, some b, some n, some col, some fuel, some dtb =>
      if col > 1 then (d, "bad-op") else
      ({ d with sp := { start := a, stop := b, n := n, collectOn := col == 1, fuel := fuel }
                dt := Float.ofBits dtb, st := St.init d.st.pop }, "ok")
    | _, _, _, _, _, _ => (d, "bad-op")
  | ["hrun"] =>
    let x := callOn d.c d.h (mkProg d.es) { pop := d.st.pop, cache := d.cache } (.run d.sp)
    let d' := { d with st := x.2, cache := x.1.cache }
    (d', status d' x.2 x.2.log)
  | ["hstep", r, s] => match parseInt r, s.toNat? with
    | some r, some s =>
      let sc : Sched := { pop := d.st.pop, cache := d.cache }
      let st := runStep d.c (mkProg d.es) (effSpec d.h sc d.sp) d.st r s
      let d' := { d with st := st, cache := cacheAfter d.h sc d.sp }
      (d', status d' st (st.log.drop d.st.log.length))
    | _, _ => (d, "bad-op")
  | ["runc", ps] => match parsePositions ps with
    | some ps =>
      let x := runC d.c (mkProg d.es) d.sp (fun r s => ps.contains (r, s)) (pop0 d.k0) true
      let d' := { d with st := x.1, running := x.2 }
      (d', status d' x.1 x.1.log)
    | none => (d, "bad-op")
  | ["rerun", ps] => match parsePositions ps with
    | some ps =>
      let x := runC d.c (mkProg d.es) d.sp (fun r s => ps.contains (r, s)) d.st.pop d.running
      let d' := { d with st := x.1, running := x.2 }
      (d', status d' x.1 x.1.log)
    | none => (d, "bad-op")
  | ["step", r, s] => match parseInt r, s.toNat? with
    | some r, some s =>
      let st := runStep d.c (mkProg d.es) d.sp d.st r s
      ({ d with st := st }, status d st (st.log.drop d.st.log.length))
    | _, _ => (d, "bad-op")
  | _ => (d, "bad-op")

partial def loop (h : IO.FS.Stream) (d : D) : IO Unit := do
  let line ← h.getLine
  if line.isEmpty then return ()
  let (d', out) := stepLine d line
  IO.println out
  loop h d'

def main : IO Unit := do
  loop (← IO.getStdin)
    { c := { progressBySpan := true }, es := [], sp := { start := 0, stop := 0, n := 1, collectOn := true, fuel := 1000 }
      dt := 1.0, k0 := 0, st := St.init (pop0 0) }
