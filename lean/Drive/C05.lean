import Bptk.Core.C05
/-! Line-protocol driver for the C05 time-grid model (`fl := id`, exact decimal arithmetic):
`lake env lean --run Drive/C05.lean < lines`.  Times are decimal strings (`0.1`, `1e-05`), labels are
printed as Python `repr` would print the double nearest to the decimal. -/
open Bptk.C05

def FUEL : Nat := 100000

def showLabels (l : Option (List Rat)) : String :=
  match l with
  | none => "no-termination"
  | some xs =>
    match xs.mapM reprDec with
    | some ss => if ss.isEmpty then "-" else ",".intercalate ss
    | none => "not-decimal"

def parseCfg (s : String) : Option Cfg :=
  match s.toList with
  | [a, b, c, d, e] =>
    if [a, b, c, d, e].all (fun ch => ch == '0' || ch == '1') then
      some { simBoundInclusive := a == '1', plotBoundInclusive := b == '1', stepClockNormalised := c == '1',
             sessionOriginEffective := d == '1', runGridUsesModelDt := e == '1' }
    else none
  | _ => none

def hexStep (acc : Nat) (ch : Char) : Option Nat :=
  if ch.isDigit then some (acc * 16 + (ch.toNat - '0'.toNat))
  else if 'a' ≤ ch ∧ ch ≤ 'f' then some (acc * 16 + (ch.toNat - 'a'.toNat + 10))
  else none

def parseHex (s : String) : Option UInt64 :=
  if s.length != 16 then none else
  (s.toList.foldlM hexStep 0).map Nat.toUInt64

def stepLine (line : String) : String :=
  match line.trimAscii.toString.splitOn " " with
  | ["scale", x] =>
    match parseDec x with
    | some x => let (p, s) := precisionAndScale x; s!"{p} {s}"
    | none => "bad-op"
  | ["repr", x] =>
    match parseDec x with
    | some x => (reprDec x).getD "not-decimal"
    | none => "bad-op"
  | ["bits", h] =>
    match (parseHex h).bind ratOfBits with
    | some x => (reprDec x).getD "not-decimal"
    | none => "bad-op"
  | ["timerange", s, e, d, ex] =>
    match parseDec s, parseDec e, parseDec d with
    | some s, some e, some d =>
      if d ≤ 0 ∨ (ex != "0" ∧ ex != "1") then "bad-op"
      else showLabels (timerange id FUEL s e d (ex == "1"))
    | _, _, _ => "bad-op"
  | ["sim", c, s, e, d] =>
    match parseCfg c, parseDec s, parseDec e, parseDec d with
    | some c, some s, some e, some d =>
      if d ≤ 0 then "bad-op" else showLabels (simTimesC c id FUEL s e d)
    | _, _, _, _ => "bad-op"
  | ["simrs", c, s, e, dOld, d] =>
    -- first run of a scenario with run specs (s, e, d) on a model built with step dOld
    match parseCfg c, parseDec s, parseDec e, parseDec dOld, parseDec d with
    | some c, some s, some e, some dOld, some d =>
      if d ≤ 0 ∨ dOld ≤ 0 then "bad-op" else showLabels (runTimesRS c id FUEL s e dOld d)
    | _, _, _, _, _ => "bad-op"
  | ["plot", c, s, e, d] =>
    match parseCfg c, parseDec s, parseDec e, parseDec d with
    | some c, some s, some e, some d =>
      if d ≤ 0 then "bad-op" else showLabels (plotTimesC c id FUEL s e d)
    | _, _, _, _ => "bad-op"
  | ["session", c, s, e, d, n] =>
    -- n calls of run_step: per call the keys of the returned dictionary, calls separated by ';'
    match parseCfg c, parseDec s, parseDec e, parseDec d, n.toNat? with
    | some c, some s, some e, some d, some n =>
      if d ≤ 0 then "bad-op" else
      let clocks := sessionClocksC c id s e d n
      let per := clocks.map fun ck => showLabels (sessionStepKeysC c id FUEL d ck)
      let stopped := List.replicate (n - clocks.length) "stop"
      ";".intercalate (per ++ stopped)
    | _, _, _, _, _ => "bad-op"
  | ["sessiona", c, a, s, e, d, n] =>
    -- as `session`, begun with the starttime ARGUMENT a (the scenario starts at s)
    match parseCfg c, parseDec a, parseDec s, parseDec e, parseDec d, n.toNat? with
    | some c, some a, some s, some e, some d, some n =>
      if d ≤ 0 then "bad-op" else
      let clocks := sessionClocksA c id a s e d n
      let per := clocks.map fun ck => showLabels (sessionStepKeysC c id FUEL d ck)
      let stopped := List.replicate (n - clocks.length) "stop"
      ";".intercalate (per ++ stopped)
    | _, _, _, _, _, _ => "bad-op"
  | ["key", s, d, h] =>
    -- memo key of the double with bit pattern h on the grid (s, d)
    match parseDec s, parseDec d, (parseHex h).bind ratOfBits with
    | some s, some d, some x =>
      if d ≤ 0 then "bad-op" else (reprDec (memoKeyC id s d x)).getD "not-decimal"
    | _, _, _ => "bad-op"
  | "elem" :: s :: d :: kind :: h :: rest =>
    -- `Model.memoize(element, x)` on a fresh memo for an element that consumes `t` (x = bit pattern of the float
    -- the caller passed): time → the value of TIME, thr θ → IF(TIME>=θ,1,0), stock → number of Euler steps taken
    match parseDec s, parseDec d, (parseHex h).bind ratOfBits with
    | some s, some d, some x =>
      if d ≤ 0 then "bad-op" else
      let p := precOf s d
      match kind, rest with
      | "time", [] => ((evalElem id FUEL s d p Elem.time x).bind reprDec).getD "not-decimal"
      | "thr", [th] =>
        match parseDec th with
        | some th => ((evalElem id FUEL s d p (Elem.thr th) x).bind reprDec).getD "not-decimal"
        | none => "bad-op"
      | "stock", [] =>
        match evalElem id FUEL s d p Elem.stock x with
        | some k => if k.den == 1 then toString k.num else "not-integer"
        | none => "no-termination"
      | _, _ => "bad-op"
    | _, _, _ => "bad-op"
  | _ => "bad-op"

partial def loop (h : IO.FS.Stream) : IO Unit := do
  let line ← h.getLine
  if line.isEmpty then return ()
  IO.println (stepLine line)
  loop h

def main : IO Unit := do loop (← IO.getStdin)
