import Bptk.Core.C05
/-! Line-protocol driver for the C05 time-grid model (`fl := id`, exact decimal arithmetic):
`lake env lean --run Drive/C05.lean < lines`.  Times are decimal strings (`0.1`, `1e-05`), labels are
printed as Python `repr` would print the double nearest to the decimal. -/
open Bptk.C05

def FUEL : Nat := 100000

def showLabels (l : Option (List Rat)) : String :=
  match l with
  | none => "no-termination"
  | some xs =>
    match xs.mapM reprDec with
    | some ss => if ss.isEmpty then "-" else ",".intercalate ss
    | none => "not-decimal"

def parseCfg (s : String) : Option Cfg :=
  match s.toList with
  | [a, b, c] =>
    if [a, b, c].all (fun ch => ch == '0' || ch == '1') then
      some { simBoundInclusive := a == '1', plotBoundInclusive := b == '1', stepClockNormalised := c == '1' }
    else none
  | _ => none

def hexStep (acc : Nat) (ch : Char) : Option Nat :=
  if ch.isDigit then some (acc * 16 + (ch.toNat - '0'.toNat))
  else if 'a' ≤ ch ∧ ch ≤ 'f' then some (acc * 16 + (ch.toNat - 'a'.toNat + 10))
  else none

def parseHex (s : String) : Option UInt64 :=
  if s.length != 16 then none else
  (s.toList.foldlM hexStep 0).map Nat.toUInt64

def stepLine (line : String) : String :=
  match line.trimAscii.toString.splitOn " " with
  | ["scale", x] =>
    match parseDec x with
    | some x => let (p, s) := precisionAndScale x; s!"{p} {s}"
    | none => "bad-op"
  | ["repr", x] =>
    match parseDec x with
    | some x => (reprDec x).getD "not-decimal"
    | none => "bad-op"
  | ["bits", h] =>
    match (parseHex h).bind ratOfBits with
    | some x => (reprDec x).getD "not-decimal"
    | none => "bad-op"
  | ["timerange", s, e, d, ex] =>
    match parseDec s, parseDec e, parseDec d with
    | some s, some e, some d =>
      if d ≤ 0 ∨ (ex != "0" ∧ ex != "1") then "bad-op"
      else showLabels (timerange id FUEL s e d (ex == "1"))
    | _, _, _ => "bad-op"
  | ["sim", c, s, e, d] =>
    match parseCfg c, parseDec s, parseDec e, parseDec d with
    | some c, some s, some e, some d =>
      if d ≤ 0 then "bad-op" else showLabels (simTimes c id FUEL s e d (precOf s d))
    | _, _, _, _ => "bad-op"
  | ["plot", c, s, e, d] =>
    match parseCfg c, parseDec s, parseDec e, parseDec d with
    | some c, some s, some e, some d =>
      if d ≤ 0 then "bad-op" else showLabels (plotTimes c id FUEL s e d (precOf s d))
    | _, _, _, _ => "bad-op"
  | ["session", c, s, e, d, n] =>
    -- n calls of run_step: per call the keys of the returned dictionary, calls separated by ';'
    match parseCfg c, parseDec s, parseDec e, parseDec d, n.toNat? with
    | some c, some s, some e, some d, some n =>
      if d ≤ 0 then "bad-op" else
      let clocks := sessionClocks c id s e d (precOf s d) n s
      let per := clocks.map fun ck => showLabels (sessionStepKeys c id FUEL d (precOf ck d) ck)
      let stopped := List.replicate (n - clocks.length) "stop"
      ";".intercalate (per ++ stopped)
    | _, _, _, _, _ => "bad-op"
  | ["key", s, d, h] =>
    -- memo key of the double with bit pattern h on the grid (s, d)
    match parseDec s, parseDec d, (parseHex h).bind ratOfBits with
    | some s, some d, some x =>
      if d ≤ 0 then "bad-op" else (reprDec (memoKey id s d (precOf s d) x)).getD "not-decimal"
    | _, _, _ => "bad-op"
  | _ => "bad-op"

partial def loop (h : IO.FS.Stream) : IO Unit := do
  let line ← h.getLine
  if line.isEmpty then return ()
  IO.println (stepLine line)
  loop h

def main : IO Unit := do loop (← IO.getStdin)
