import Bptk.Core.C10
import Bptk.Core.PyWire
/-! Line-protocol driver for the C10 model:  `lake env lean --run Drive/C10.lean < requests`

  expand <add|sub|mul|div|nmul|dot> <operand> <operand>
  agg <sum|prod|mean|median|std|size|rank:<int>> <operand>
operand:  N:<literal>   (a leading `-` = negative number)
          E:<name>:<0|1 named>:<keys>:<inner>      keys: comma list of i<nat> | s<name>, `-` = empty
  expandx <ex>                       nested operator tree assigned to a fresh converter (model `expandE tNow`)
  expandxc <0|1> <ex>                the same under the probed mechanism `Cfg.reindexAll` (model `expandEC`)
  stockfresh <name> <ex>             … to a fresh (non-arrayed) stock: full stock function strings, time `t-model.dt`
  stockx <init literal> <S operand> <ex>     … to the ARRAYED stock S (Stock branch of `_handle_arrayed`)
  stockel <init literal> <S operand> <E operand>     arrayed stock := arrayed element
  aggdim <sum|prod> <dim> <operand>  arr_sum / arr_prod with an explicit dimension
  hist <op> ; <op> ; …               re-shape history on ONE model (model `runHist []`); ops:
                                     V <name> <n> | M <name> <m> <n> | NV <name> <a,b,…>   set-ups
                                     U <rex>   (rex: N:<lit> | @<name> | O <form> <rex> <rex>)   use in a fresh converter
                                     A <agg> <name>
                                     reply: the replies of the U / A operations joined by ` || `
ex:       <operand>  |  O <form> <ex> <ex>  |  AG|<agg>|<element operand>      (prefix notation)
reply:    none | scalar | <toks>  |  vector <0|1> | <key> | <toks> | <key> | <toks> …
          | matrix <m> <n> | <toks> | <toks> …  (row-major)      tokens as wire words (PyWire) -/
open Bptk.Py Bptk.C10

def parseKey (w : String) : Option Key :=
  match w.toList with
  | 'i' :: r => (String.ofList r).toNat?.map Key.i
  | 's' :: r => some (Key.s (String.ofList r))
  | _ => none

def parseKeys (w : String) : Option (List Key) :=
  if w == "-" then some [] else (w.splitOn ",").mapM parseKey

def parseOperand (w : String) : Option Operand :=
  match w.splitOn ":" with
  | ["N", lit] =>
    (match lit.toList with
     | '-' :: r => if r.isEmpty then none else some (.num true (String.ofList r))
     | [] => none
     | _ => some (.num false lit))
  | ["E", nm, named, ks, inner] =>
    (match parseKeys ks, parseKeys inner with
     | some ks, some inn =>
       if named == "0" || named == "1" then
         some (.el { name := nm, keys := ks, inner := inn, named := named == "1" })
       else none
     | _, _ => none)
  | _ => none

def parseForm : String → Option Form
  | "add" => some (.ew .add) | "sub" => some (.ew .sub) | "mul" => some (.ew .mul) | "div" => some (.ew .div)
  | "nmul" => some .nmul | "dot" => some .dot
  | _ => none

def parseAgg (w : String) : Option Agg :=
  match w.splitOn ":" with
  | ["sum"] => some .sum | ["prod"] => some .prod | ["mean"] => some .mean | ["median"] => some .median
  | ["std"] => some .std | ["size"] => some .size
  | ["rank", k] =>
    (match k.toList with
     | '-' :: r => (String.ofList r).toNat?.map (Agg.rank true)
     | _ => k.toNat?.map (Agg.rank false))
  | _ => none

def showPy (p : Py) : String := wordsOfToks (pr p)

def showResult : Option Result → String
  | none => "none"
  | some (.scalar p) => "scalar | " ++ showPy p
  | some (.vector nm es) =>
    s!"vector {if nm then 1 else 0}" ++ String.join (es.map fun (k, p) => " | " ++ k.str ++ " | " ++ showPy p)
  | some (.matrix rows) =>
    s!"matrix {rows.length} {(rows.headD []).length}" ++ String.join (rows.flatten.map fun p => " | " ++ showPy p)

def parseEx : Nat → List String → Option (Ex × List String)
  | 0, _ => none
  | fuel + 1, ws =>
    match ws with
    | "O" :: f :: rest =>
      (match parseForm f with
       | some f =>
         (match parseEx fuel rest with
          | some (a, r1) =>
            (match parseEx fuel r1 with
             | some (b, r2) => some (.op f a b, r2)
             | none => none)
          | none => none)
       | none => none)
    | w :: rest =>
      (match w.splitOn "|" with
       | ["AG", g, ow] =>                      -- an aggregate operator as operand: AG|<agg>|<element operand>
         (match parseAgg g, parseOperand ow with
          | some g, some (.el e) => some (.agg g e, rest)
          | _, _ => none)
       | _ => (parseOperand w).map fun o => (Ex.ofOperand o, rest))
    | [] => none

def parseExAll (ws : List String) : Option Ex :=
  match parseEx (ws.length + 1) ws with
  | some (x, []) => some x
  | _ => none

def parseRefEx : Nat → List String → Option (RefEx × List String)
  | 0, _ => none
  | fuel + 1, ws =>
    match ws with
    | "O" :: f :: rest =>
      (match parseForm f with
       | some f =>
         (match parseRefEx fuel rest with
          | some (a, r1) =>
            (match parseRefEx fuel r1 with
             | some (b, r2) => some (.op f a b, r2)
             | none => none)
          | none => none)
       | none => none)
    | w :: rest =>
      (match w.toList with
       | '@' :: r => some (.ref (String.ofList r), rest)
       | _ =>
         (match parseOperand w with
          | some (.num n l) => some (.num n l, rest)
          | _ => none))
    | [] => none

def parseHOp (ws : List String) : Option HOp :=
  match ws with
  | ["V", nm, n] => n.toNat?.map (HOp.setupVec nm)
  | ["M", nm, m, n] => (match m.toNat?, n.toNat? with | some m, some n => some (.setupMat nm m n) | _, _ => none)
  | ["NV", nm, names] => some (.setupNamed nm (names.splitOn ","))
  | ["A", g, nm] => (parseAgg g).map fun g => .agg g nm
  | "U" :: rest =>
    (match parseRefEx (rest.length + 1) rest with
     | some (x, []) => some (.use x)
     | _ => none)
  | _ => none

def showReply : Reply → String
  | .res r => showResult r
  | .term (some p) => "scalar | " ++ showPy p
  | .term none => "none"

def parseLit (lit : String) : Option Py :=
  match lit.toList with
  | '-' :: r => if r.isEmpty then none else some (.neg (.num (String.ofList r)))
  | [] => none
  | _ => some (.num lit)

/-- a result on a stock target `nm`: every entry wrapped in the stock function string -/
def showStockResult (nm : String) (init : Py) : Option Result → String
  | none => "none"
  | some (.scalar p) => "scalar | " ++ showPy (stockFs nm init (some p))
  | some (.vector named es) =>
    s!"vector {if named then 1 else 0}" ++
      String.join (es.map fun (k, p) => " | " ++ k.str ++ " | " ++ showPy (stockFs (nm ++ pathStr [k]) init (some p)))
  | some (.matrix rows) =>
    s!"matrix {rows.length} {(rows.headD []).length}" ++
      String.join ((List.range rows.length).flatMap fun i =>
        let row := rows.getD i []
        (List.range row.length).map fun j =>
          " | " ++ showPy (stockFs (nm ++ pathStr [.i i, .i j]) init (some (row.getD j (.num "?")))))

/-- leaf sub-stocks were set up with the initial value `init`; the stock itself and the row stocks of a
matrix stock keep the default `0.0` -/
def showAssign (s : Elem) (init : Py) : Option (List (List Key × Py)) → String
  | none => "none"
  | some l => "assign" ++ String.join (l.map fun (pth, p) =>
      let ini := if pth.length = s.depth then init else .num "0.0"
      " | " ++ s.name ++ pathStr pth ++ " | " ++ showPy (stockFs (s.name ++ pathStr pth) ini (some p)))

def handle (line : String) : String :=
  match line.trimAscii.toString.splitOn " " with
  | ["expand", f, a, b] =>
    (match parseForm f, parseOperand a, parseOperand b with
     | some f, some a, some b => showResult (expand f a b)
     | _, _, _ => "bad-op")
  | "hist" :: ws =>
    (match ((" ".intercalate ws).splitOn " ; ").mapM (fun o => parseHOp (o.splitOn " ")) with
     | some ops => " || ".intercalate ((runHist [] ops).2.map showReply)
     | none => "bad-op")
  | "expandx" :: ws =>
    (match parseExAll ws with
     | some x => showResult (expandE tNow x)
     | none => "bad-op")
  | "expandxc" :: flag :: ws =>
    (match parseExAll ws with
     | some x =>
       if flag == "1" then showResult (expandEC ⟨true⟩ tNow x)
       else if flag == "0" then showResult (expandEC ⟨false⟩ tNow x)
       else "bad-op"
     | none => "bad-op")
  | "stockfresh" :: nm :: ws =>
    (match parseExAll ws with
     | some x => showStockResult nm (.num "0.0") (expandE tPrev x)
     | none => "bad-op")
  | "stockx" :: lit :: sw :: ws =>
    (match parseLit lit, parseOperand sw, parseExAll ws with
     | some init, some (.el s), some x => showAssign s init (stockAssign s x)
     | _, _, _ => "bad-op")
  | ["stockel", lit, sw, ew] =>
    (match parseLit lit, parseOperand sw, parseOperand ew with
     | some init, some (.el s), some (.el e) => showAssign s init (stockAssignEl s e)
     | _, _, _ => "bad-op")
  | ["aggdim", g, d, a] =>
    (match parseAgg g, d.toNat?, parseOperand a with
     | some g, some d, some (.el e) => (match aggDim g d e with | some p => "scalar | " ++ showPy p | none => "none")
     | _, _, _ => "bad-op")
  | ["agg", g, a] =>
    (match parseAgg g, parseOperand a with
     | some g, some (.el e) => (match aggTerm g e with | some p => "scalar | " ++ showPy p | none => "none")
     | _, _ => "bad-op")
  | _ => "bad-op"

partial def loop (h : IO.FS.Stream) : IO Unit := do
  let line ← h.getLine
  if line.isEmpty then return ()
  IO.println (handle line)
  loop h

def main : IO Unit := do loop (← IO.getStdin)
