import Bptk.Core.C10
import Bptk.Core.PyWire
/-! Line-protocol driver for the C10 model:  `lake env lean --run Drive/C10.lean < requests`

  expand <add|sub|mul|div|nmul|dot> <operand> <operand>
  agg <sum|prod|mean|median|std|size|rank:<int>> <operand>
operand:  N:<literal>   (a leading `-` = negative number)
          E:<name>:<0|1 named>:<keys>:<inner>      keys: comma list of i<nat> | s<name>, `-` = empty
reply:    none | scalar | <toks>  |  vector <0|1> | <key> | <toks> | <key> | <toks> …
          | matrix <m> <n> | <toks> | <toks> …  (row-major)      tokens as wire words (PyWire) -/
open Bptk.Py Bptk.C10

def parseKey (w : String) : Option Key :=
  match w.toList with
  | 'i' :: r => (String.ofList r).toNat?.map Key.i
  | 's' :: r => some (Key.s (String.ofList r))
  | _ => none

def parseKeys (w : String) : Option (List Key) :=
  if w == "-" then some [] else (w.splitOn ",").mapM parseKey

def parseOperand (w : String) : Option Operand :=
  match w.splitOn ":" with
  | ["N", lit] =>
    (match lit.toList with
     | '-' :: r => if r.isEmpty then none else some (.num true (String.ofList r))
     | [] => none
     | _ => some (.num false lit))
  | ["E", nm, named, ks, inner] =>
    (match parseKeys ks, parseKeys inner with
     | some ks, some inn =>
       if named == "0" || named == "1" then
         some (.el { name := nm, keys := ks, inner := inn, named := named == "1" })
       else none
     | _, _ => none)
  | _ => none

def parseForm : String → Option Form
  | "add" => some (.ew .add) | "sub" => some (.ew .sub) | "mul" => some (.ew .mul) | "div" => some (.ew .div)
  | "nmul" => some .nmul | "dot" => some .dot
  | _ => none

def parseAgg (w : String) : Option Agg :=
  match w.splitOn ":" with
  | ["sum"] => some .sum | ["prod"] => some .prod | ["mean"] => some .mean | ["median"] => some .median
  | ["std"] => some .std | ["size"] => some .size
  | ["rank", k] =>
    (match k.toList with
     | '-' :: r => (String.ofList r).toNat?.map (Agg.rank true)
     | _ => k.toNat?.map (Agg.rank false))
  | _ => none

def showPy (p : Py) : String := wordsOfToks (pr p)

def showResult : Option Result → String
  | none => "none"
  | some (.scalar p) => "scalar | " ++ showPy p
  | some (.vector nm es) =>
    s!"vector {if nm then 1 else 0}" ++ String.join (es.map fun (k, p) => " | " ++ k.str ++ " | " ++ showPy p)
  | some (.matrix rows) =>
    s!"matrix {rows.length} {(rows.headD []).length}" ++ String.join (rows.flatten.map fun p => " | " ++ showPy p)

def handle (line : String) : String :=
  match line.trimAscii.toString.splitOn " " with
  | ["expand", f, a, b] =>
    (match parseForm f, parseOperand a, parseOperand b with
     | some f, some a, some b => showResult (expand f a b)
     | _, _, _ => "bad-op")
  | ["agg", g, a] =>
    (match parseAgg g, parseOperand a with
     | some g, some (.el e) => (match aggTerm g e with | some p => "scalar | " ++ showPy p | none => "none")
     | _, _ => "bad-op")
  | _ => "bad-op"

partial def loop (h : IO.FS.Stream) : IO Unit := do
  let line ← h.getLine
  if line.isEmpty then return ()
  IO.println (handle line)
  loop h

def main : IO Unit := do loop (← IO.getStdin)
