/-
A1 — the Python expression fragment that BPTK's renderers emit (SD-DSL `term()`, XMILE generator):
tokens, AST (keeping parenthesis nodes), printer, executable precedence-climbing parser with CPython's
binding powers, templates with holes, substitution.  Import-free and executable.

Levels (loosest → tightest), see DESIGN.md Appendix A:
  0 conditional  1 or  2 and  3 not  4 comparison  5 + -  6 * / %  7 unary -  8 **  100 primary
-/
namespace Bptk.Py

inductive BinOp
  | or | and | lt | le | gt | ge | eq | ne | add | sub | mul | div | mod | pow
deriving DecidableEq, Repr, Inhabited

inductive Tok
  | num (s : String) | name (s : String) | str (s : String) | hole (i : Nat)
  | op (k : BinOp)            -- `-` is `op .sub` in both prefix and infix position
  | knot | kif | kelse
  | lp | rp | lb | rb | comma | dot | assign
deriving DecidableEq, Repr, Inhabited

inductive Py
  | num (s : String) | name (s : String) | str (s : String) | hole (i : Nat)
  | paren (e : Py)
  | neg (e : Py) | not (e : Py)
  | bin (k : BinOp) (l r : Py)
  | ite (x c y : Py)                 -- x if c else y
  | attr (e : Py) (a : String)
  | call (f : Py) (args : List Py)
  | index (e i : Py)
  | list (es : List Py)
  | kw (n : String) (e : Py)         -- keyword argument, only inside call arguments
deriving Repr, Inhabited

open Tok

def bp : BinOp → Nat
  | .or => 1 | .and => 2
  | .lt | .le | .gt | .ge | .eq | .ne => 4
  | .add | .sub => 5
  | .mul | .div | .mod => 6
  | .pow => 8

/-- binding power the right operand is parsed with -/
def rbp : BinOp → Nat
  | .pow => 7
  | k => bp k + 1

/-- level the left operand must have (stricter than the parser for comparisons: no chains) -/
def ldem : BinOp → Nat
  | .pow => 100
  | .lt | .le | .gt | .ge | .eq | .ne => 5
  | k => bp k

mutual
def pr : Py → List Tok
  | .num s => [num s]
  | .name s => [name s]
  | .str s => [str s]
  | .hole i => [hole i]
  | .paren e => lp :: (pr e ++ [rp])
  | .neg e => op .sub :: pr e
  | .not e => knot :: pr e
  | .bin k l r => pr l ++ op k :: pr r
  | .ite x c y => pr x ++ kif :: (pr c ++ kelse :: pr y)
  | .attr e a => pr e ++ [dot, name a]
  | .call f args => pr f ++ lp :: (prArgs args ++ [rp])
  | .index e i => pr e ++ lb :: (pr i ++ [rb])
  | .list es => lb :: (prArgs es ++ [rb])
  | .kw n e => name n :: assign :: pr e
def prArgs : List Py → List Tok
  | [] => []
  | [e] => pr e
  | e :: e2 :: es => pr e ++ comma :: prArgs (e2 :: es)
end

def lvl : Py → Nat
  | .bin k _ _ => bp k
  | .neg _ => 7
  | .not _ => 3
  | .ite _ _ _ => 0
  | .kw _ _ => 0
  | _ => 100

/-! ### Executable parser (fuelled precedence climbing) -/

def isPostfixStart : List Tok → Bool
  | lp :: _ => true
  | lb :: _ => true
  | dot :: _ => true
  | _ => false

mutual
/-- parse an expression whose operators all bind at least as tightly as `m` -/
def parseExpr : Nat → Nat → List Tok → Option (Py × List Tok)
  | 0, _, _ => none
  | fuel + 1, m, ts =>
    match parsePre fuel m ts with
    | none => none
    | some (l, ts') => parseLoop fuel m l ts'
def parsePre : Nat → Nat → List Tok → Option (Py × List Tok)
  | 0, _, _ => none
  | fuel + 1, m, ts =>
    match ts with
    | op .sub :: ts' =>
      if m ≤ 7 then
        match parseExpr fuel 7 ts' with
        | some (e, r) => some (.neg e, r)
        | none => none
      else none
    | knot :: ts' =>
      if m ≤ 3 then
        match parseExpr fuel 3 ts' with
        | some (e, r) => some (.not e, r)
        | none => none
      else none
    | num s :: ts' => parsePost fuel (.num s) ts'
    | name s :: ts' => parsePost fuel (.name s) ts'
    | str s :: ts' => parsePost fuel (.str s) ts'
    | hole i :: ts' => parsePost fuel (.hole i) ts'
    | lp :: ts' =>
      match parseExpr fuel 0 ts' with
      | some (e, rp :: r) => parsePost fuel (.paren e) r
      | _ => none
    | lb :: rb :: r => parsePost fuel (.list []) r
    | lb :: ts' =>
      match parseArgs fuel rb ts' with
      | some (es, r) => parsePost fuel (.list es) r
      | none => none
    | _ => none
/-- postfix chain on a primary: `.a`, `(args)`, `[e]` -/
def parsePost : Nat → Py → List Tok → Option (Py × List Tok)
  | 0, _, _ => none
  | fuel + 1, acc, ts =>
    match ts with
    | dot :: name a :: r => parsePost fuel (.attr acc a) r
    | lp :: rp :: r => parsePost fuel (.call acc []) r
    | lp :: ts' =>
      match parseArgs fuel rp ts' with
      | some (es, r) => parsePost fuel (.call acc es) r
      | none => none
    | lb :: ts' =>
      match parseExpr fuel 0 ts' with
      | some (i, rb :: r) => parsePost fuel (.index acc i) r
      | _ => none
    | dot :: _ => none
    | _ => some (acc, ts)
/-- non-empty comma-separated list up to the closing token `close` (consumed) -/
def parseArgs : Nat → Tok → List Tok → Option (List Py × List Tok)
  | 0, _, _ => none
  | fuel + 1, close, ts =>
    let one : Option (Py × List Tok) :=
      match ts with
      | name n :: assign :: ts' =>
        if close = rp then
          match parseExpr fuel 0 ts' with
          | some (e, r) => some (.kw n e, r)
          | none => none
        else none
      | _ => parseExpr fuel 0 ts
    match one with
    | some (e, t :: r) =>
      if t = close then some ([e], r)
      else if t = comma then
        match parseArgs fuel close r with
        | some (es, r') => some (e :: es, r')
        | none => none
      else none
    | _ => none
def parseLoop : Nat → Nat → Py → List Tok → Option (Py × List Tok)
  | 0, _, _, _ => none
  | fuel + 1, m, acc, ts =>
    match ts with
    | op k :: ts' =>
      if bp k ≥ m then
        match parseExpr fuel (rbp k) ts' with
        | some (r, ts'') => parseLoop fuel m (.bin k acc r) ts''
        | none => none
      else some (acc, ts)
    | kif :: ts' =>
      if m = 0 then
        match parseExpr fuel 1 ts' with
        | some (c, kelse :: ts'') =>
          match parseExpr fuel 0 ts'' with
          | some (y, ts''') => parseLoop fuel 0 (.ite acc c y) ts'''
          | none => none
        | _ => none
      else some (acc, ts)
    | _ => some (acc, ts)
end

/-- whole-string parse -/
def parse (ts : List Tok) : Option Py :=
  match parseExpr (4 * ts.length + 8) 0 ts with
  | some (e, []) => some e
  | _ => none

/-! ### Parenthesis erasure and S-expressions (for comparison with `ast.parse`) -/

mutual
def erase : Py → Py
  | .paren e => erase e
  | .neg e => .neg (erase e)
  | .not e => .not (erase e)
  | .bin k l r => .bin k (erase l) (erase r)
  | .ite x c y => .ite (erase x) (erase c) (erase y)
  | .attr e a => .attr (erase e) a
  | .call f args => .call (erase f) (eraseL args)
  | .index e i => .index (erase e) (erase i)
  | .list es => .list (eraseL es)
  | .kw n e => .kw n (erase e)
  | e => e
def eraseL : List Py → List Py
  | [] => []
  | e :: es => erase e :: eraseL es
end

def opName : BinOp → String
  | .or => "or" | .and => "and" | .lt => "<" | .le => "<=" | .gt => ">" | .ge => ">=" | .eq => "==" | .ne => "!="
  | .add => "+" | .sub => "-" | .mul => "*" | .div => "/" | .mod => "%" | .pow => "**"

def isCmp : BinOp → Bool
  | .lt | .le | .gt | .ge | .eq | .ne => true
  | _ => false

mutual
/-- S-expression of a parenthesis-free tree; a comparison whose left operand is a comparison is what
CPython treats as a chain — printed as `chain` so that the difference is visible. -/
def sexp : Py → String
  | .num s => s!"(num {s})"
  | .name s => s!"(name {s})"
  | .str s => s!"(str {s})"
  | .hole i => s!"(hole {i})"
  | .paren e => sexp e
  | .neg e => s!"(neg {sexp e})"
  | .not e => s!"(not {sexp e})"
  | .bin k l r =>
      let chain := isCmp k && (match l with | .bin k' _ _ => isCmp k' | _ => false)
      if chain then s!"(chain {sexp l} {opName k} {sexp r})" else s!"({opName k} {sexp l} {sexp r})"
  | .ite x c y => s!"(ite {sexp c} {sexp x} {sexp y})"
  | .attr e a => s!"(attr {sexp e} {a})"
  | .call f args => s!"(call {sexp f}{sexpL args})"
  | .index e i => s!"(index {sexp e} {sexp i})"
  | .list es => s!"(list{sexpL es})"
  | .kw n e => s!"(kw {n} {sexp e})"
def sexpL : List Py → String
  | [] => ""
  | e :: es => " " ++ sexp e ++ sexpL es
end

/-! ### Templates: substitution of operand trees into holes -/

mutual
def subst (σ : Nat → Py) : Py → Py
  | .hole i => σ i
  | .paren e => .paren (subst σ e)
  | .neg e => .neg (subst σ e)
  | .not e => .not (subst σ e)
  | .bin k l r => .bin k (subst σ l) (subst σ r)
  | .ite x c y => .ite (subst σ x) (subst σ c) (subst σ y)
  | .attr e a => .attr (subst σ e) a
  | .call f args => .call (subst σ f) (substL σ args)
  | .index e i => .index (subst σ e) (subst σ i)
  | .list es => .list (substL σ es)
  | .kw n e => .kw n (subst σ e)
  | e => e
def substL (σ : Nat → Py) : List Py → List Py
  | [] => []
  | e :: es => subst σ e :: substL σ es
end

/-- token-level substitution: what string formatting does (`"({}) * ({})".format(a, b)`) -/
def substToks (τ : Nat → List Tok) : List Tok → List Tok
  | [] => []
  | hole i :: ts => τ i ++ substToks τ ts
  | t :: ts => t :: substToks τ ts

/-- level with holes counted as level `L` -/
def lvlH (L : Nat) : Py → Nat
  | .hole _ => L
  | e => lvl e

mutual
/-- "well-levelled, holes having level L": every child binds at least as tightly as its position
demands. With no holes this is plain well-levelledness (`WLb 0`). Decidable (Bool). -/
def WLb (L : Nat) : Py → Bool
  | .paren e => WLb L e
  | .neg e => WLb L e && decide (lvlH L e ≥ 7)
  | .not e => WLb L e && decide (lvlH L e ≥ 3)
  | .bin k l r => WLb L l && WLb L r && decide (lvlH L l ≥ ldem k) && decide (lvlH L r ≥ rbp k)
  | .ite x c y => WLb L x && WLb L c && WLb L y && decide (lvlH L x ≥ 1) && decide (lvlH L c ≥ 1)
  | .attr e _ => WLb L e && decide (lvlH L e ≥ 100)
  | .call f args => WLb L f && decide (lvlH L f ≥ 100) && WLbArgs L args
  | .index e i => WLb L e && decide (lvlH L e ≥ 100) && WLb L i
  | .list es => WLbL L es
  | .kw _ _ => false            -- keyword arguments only directly inside call arguments
  | _ => true
def WLbL (L : Nat) : List Py → Bool
  | [] => true
  | e :: es => WLb L e && WLbL L es
/-- call arguments: positional expressions or `name=expr` -/
def WLbArgs (L : Nat) : List Py → Bool
  | [] => true
  | e :: es => WLbArg L e && WLbArgs L es
def WLbArg (L : Nat) : Py → Bool
  | .kw _ e => WLb L e
  | .paren e => WLb L e
  | .neg e => WLb L e && decide (lvlH L e ≥ 7)
  | .not e => WLb L e && decide (lvlH L e ≥ 3)
  | .bin k l r => WLb L l && WLb L r && decide (lvlH L l ≥ ldem k) && decide (lvlH L r ≥ rbp k)
  | .ite x c y => WLb L x && WLb L c && WLb L y && decide (lvlH L x ≥ 1) && decide (lvlH L c ≥ 1)
  | .attr e _ => WLb L e && decide (lvlH L e ≥ 100)
  | .call f args => WLb L f && decide (lvlH L f ≥ 100) && WLbArgs L args
  | .index e i => WLb L e && decide (lvlH L e ≥ 100) && WLb L i
  | .list es => WLbL L es
  | _ => true
end

/-! ### Operator tables and expression trees over them -/

structure Tmpl where
  cls : String            -- class name in the source (informational)
  arity : Nat
  toks : List Tok         -- the rendered template with `hole i` for operand i
deriving Repr

abbrev Table := List Tmpl

/-- expression tree built with the DSL: leaves carry their own (hole-free) Python text, e.g.
`model.memoize('x',t)`, `3.0`, `-1.0`. -/
inductive E
  | leaf (p : Py)
  | node (k : Nat) (cs : List E)
deriving Repr, Inhabited

def shapeOf (t : Tmpl) : Py := (parse t.toks).getD (.name "PARSE-ERROR")

def Table.shape (T : Table) (k : Nat) : Py := match T[k]? with
  | some t => shapeOf t
  | none => .name "NO-SUCH-OPERATOR"

def Table.toks (T : Table) (k : Nat) : List Tok := match T[k]? with
  | some t => t.toks
  | none => [name "NO-SUCH-OPERATOR"]

def nthD {α} (d : α) : List α → Nat → α
  | [], _ => d
  | x :: _, 0 => x
  | _ :: xs, n + 1 => nthD d xs n

mutual
/-- what the code produces: template text with operand texts substituted -/
def render (T : Table) : E → List Tok
  | .leaf p => pr p
  | .node k cs => substToks (nthD [name "MISSING"] (renderL T cs)) (T.toks k)
def renderL (T : Table) : List E → List (List Tok)
  | [] => []
  | c :: cs => render T c :: renderL T cs
end

mutual
/-- the tree the rendering is meant to denote: operand trees plugged whole into the operator's shape -/
def denote (T : Table) : E → Py
  | .leaf p => p
  | .node k cs => subst (nthD (.name "MISSING") (denoteL T cs)) (T.shape k)
def denoteL (T : Table) : List E → List Py
  | [] => []
  | c :: cs => denote T c :: denoteL T cs
end

/-- holes occurring in a token list are all below `n` -/
def holesBelow (n : Nat) : List Tok → Bool
  | [] => true
  | hole i :: ts => decide (i < n) && holesBelow n ts
  | _ :: ts => holesBelow n ts

/-- The decidable side condition on a table, for operand level `L`:
(1) every template parses and printing its shape reproduces the template text,
(2) its shape is well-levelled when holes have level `L` (the pairwise compatibility table:
    every operand position tolerates every operand of level ≥ L),
(3) the template itself exposes level ≥ L (so it may be an operand in turn),
(4) it mentions only holes below its arity. -/
def tmplOK (L : Nat) (t : Tmpl) : Bool :=
  (match parse t.toks with
   | some s => decide (pr s = t.toks) && WLb L s && decide (lvlH L s ≥ L)
   | none => false) && holesBelow t.arity t.toks

def tableOK (L : Nat) (T : Table) : Bool := T.all (tmplOK L)

mutual
/-- the tree uses only operators of the table with the right number of operands, and leaves are
well-levelled Python of level ≥ L -/
def E.ok (T : Table) (L : Nat) : E → Bool
  | .leaf p => WLb 0 p && decide (lvl p ≥ L) && noHole p
  | .node k cs => (match T[k]? with
      | some t => decide (cs.length = t.arity)
      | none => false) && E.okL T L cs
def E.okL (T : Table) (L : Nat) : List E → Bool
  | [] => true
  | c :: cs => E.ok T L c && E.okL T L cs
def noHole : Py → Bool
  | .hole _ => false
  | .paren e => noHole e
  | .neg e => noHole e
  | .not e => noHole e
  | .bin _ l r => noHole l && noHole r
  | .ite x c y => noHole x && noHole c && noHole y
  | .attr e _ => noHole e
  | .call f args => noHole f && noHoleL args
  | .index e i => noHole e && noHole i
  | .list es => noHoleL es
  | .kw _ e => noHole e
  | _ => true
def noHoleL : List Py → Bool
  | [] => true
  | e :: es => noHole e && noHoleL es
end

end Bptk.Py
