/-
C14 — agent registry of `BPTK_Py.modeling.model.Model` (agents list, agent_type_map, next_agent_id).

Executable model, import-free.  Agent types and states are natural numbers (the harness maps the
strings it uses to numbers).  `Cfg.countById` is the mechanism fact probed on every run:
`agent_count_per_state` looks an agent up by *id* (true) or by *list position* `agents[id]` (false,
the behaviour of the pinned tree before the fix).
-/
namespace Bptk.C14

structure Agent where
  id : Nat
  ty : Nat
  state : Nat
deriving DecidableEq, Repr

structure Cfg where
  countById : Bool
deriving DecidableEq, Repr

/-- `agents`: Python list in list order.  `tmap`: `agent_type_map` (a total function: the harness
registers every type it uses before the first operation).  `next`: `next_agent_id`.
`ever`: ghost — every id ever handed out (not in the Python object; used for "never reused"). -/
structure Reg where
  agents : List Agent
  tmap : Nat → List Nat
  next : Nat
  ever : List Nat

def Reg.init : Reg := { agents := [], tmap := fun _ => [], next := 0, ever := [] }

inductive Op where
  | create (ty : Nat)                      -- create_agent(type, props); state of a new agent is 0 ("active")
  | delete (ids : List Nat)                -- delete_agents(ids)   (delete_agent(i) = delete [i])
  | configure (spec : List (Nat × Nat))    -- configure_agents([{name, count}, …])
  | reset                                  -- reset()
  | setState (id : Nat) (st : Nat)         -- model.agent(id).state = st   (no-op when absent)
deriving Repr

def idsOfType (as : List Agent) (ty : Nat) : List Nat :=
  (as.filter (fun a => a.ty == ty)).map (·.id)

def create (r : Reg) (ty : Nat) : Reg :=
  { agents := r.agents ++ [{ id := r.next, ty := ty, state := 0 }]
    tmap := fun t => if t = ty then r.tmap t ++ [r.next] else r.tmap t
    next := r.next + 1
    ever := r.ever ++ [r.next] }

def createN (r : Reg) (ty : Nat) : Nat → Reg
  | 0 => r
  | n + 1 => createN (create r ty) ty n

def createSpec (r : Reg) : List (Nat × Nat) → Reg
  | [] => r
  | (ty, n) :: rest => createSpec (createN r ty n) rest

/-- `delete_agents`: keep the agents whose id is not listed; then, for every type of a removed agent,
rebuild that type's id list from the surviving agents. -/
def delete (r : Reg) (ids : List Nat) : Reg :=
  let keep := r.agents.filter (fun a => !ids.contains a.id)
  let gone := (r.agents.filter (fun a => ids.contains a.id)).map (·.ty)
  { r with agents := keep
           tmap := fun t => if gone.contains t then idsOfType keep t else r.tmap t }

def clear (r : Reg) : Reg := { r with agents := [], tmap := fun _ => [] }

def setState (as : List Agent) (id st : Nat) : List Agent :=
  match as with
  | [] => []
  | a :: rest => if a.id = id then { a with state := st } :: rest else a :: setState rest id st

def step (r : Reg) : Op → Reg
  | .create ty => create r ty
  | .delete ids => delete r ids
  | .configure spec => createSpec (clear r) spec
  | .reset => clear r
  | .setState id st => { r with agents := setState r.agents id st }

def run (r : Reg) (ops : List Op) : Reg := ops.foldl step r

/-! ### Queries (as the Python methods compute them) -/

/-- `Model.agent(id)`: first agent in list order with that id. -/
def lookup (r : Reg) (id : Nat) : Option Agent := r.agents.find? (fun a => a.id == id)

def agentIds (r : Reg) (ty : Nat) : List Nat := r.tmap ty

def count (r : Reg) (ty : Nat) : Nat := (r.tmap ty).length

/-- state of the agent that `agent_count_per_state` inspects for a listed id; `none` = the Python
expression raises (IndexError / AttributeError). -/
def inspected (c : Cfg) (r : Reg) (id : Nat) : Option Nat :=
  if c.countById then (lookup r id).map (·.state) else (r.agents[id]?).map (·.state)

/-- `agent_count_per_state`; `none` = raises. -/
def cpsStep (c : Cfg) (r : Reg) (st : Nat) (acc : Option Nat) (id : Nat) : Option Nat :=
  match acc, inspected c r id with
  | some n, some s => some (if s = st then n + 1 else n)
  | _, _ => none

def countPerState (c : Cfg) (r : Reg) (ty st : Nat) : Option Nat :=
  (r.tmap ty).foldl (cpsStep c r st) (some 0)

/-- `next_agent(type, state)`. -/
def nextAgent (r : Reg) (ty st : Nat) : Option Nat :=
  (r.agents.find? (fun a => a.ty == ty && a.state == st)).map (·.id)

/-! ### Specification on the live population -/

def liveOfType (r : Reg) (ty : Nat) : List Agent := r.agents.filter (fun a => a.ty == ty)
def liveOfTypeState (r : Reg) (ty st : Nat) : List Agent :=
  r.agents.filter (fun a => a.ty == ty && a.state == st)

end Bptk.C14
