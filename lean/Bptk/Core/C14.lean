/-
C14 — agent registry of `BPTK_Py.modeling.model.Model` (agents list, agent_type_map, next_agent_id).

Executable model, import-free.  Agent types and states are natural numbers (the harness maps the
strings it uses to numbers).  Mechanism facts probed on every run:
* `Cfg.countById` — `agent_count_per_state` looks an agent up by *id* (true) or by *list position*
  `agents[id]` (false, the behaviour of the pinned tree before the fix);
* `Cfg.idsAliased` — `agent_ids(t)` returns the internal list object `agent_type_map[t]` (true on the
  pinned tree) or a copy (false).  Only the caller-mutation layer (`OpX`) depends on it.
* `Cfg.deleteArgSnapshot` (wave 4) — `delete_agents` is a function of the value of its argument (true) or
  mutates the per-type lists while iterating the argument (false).  Only the aliased-argument layer (`OpD`:
  the argument is the model's own returned list) depends on it.

Wave 2: an agent carries both the factory key it was created under (`key`, ghost — Python does not
store it) and its `agent_type` ATTRIBUTE (`ty`).  `create_agent` files the id under the KEY,
`delete_agents` rebuilds the lists of the removed agents' ATTRIBUTES from the attributes of the
survivors, `next_agent` reads the attribute.  A factory is `Fac`: the attribute of the agent returned
for (key, id); it is *faithful* when the attribute is always the key.  Registered factory keys
(`reg`) and the key set of `agent_type_map` (`mapped`) are part of the state: unregistered keys make
`create_agent`, `agent_ids`, `agent_count`, `agent_count_per_state`, `random_agents` raise KeyError,
and `delete_agents` of an agent with an unregistered attribute *adds* that attribute as a key.
-/
namespace Bptk.C14

structure Agent where
  id : Nat
  ty : Nat      -- the `agent_type` attribute of the object the factory returned
  state : Nat
  key : Nat     -- ghost: the factory key passed to `create_agent`
deriving DecidableEq, Repr

structure Cfg where
  countById : Bool
  idsAliased : Bool := true
  /-- wave 4: `delete_agents(arg)` computes its result from the VALUE `arg` has when the call starts (true), or
  removes ids from the per-type lists in place while iterating `arg` (false) — which differs exactly when `arg` IS
  one of those lists (`model.delete_agents(model.agent_ids(t))`) -/
  deleteArgSnapshot : Bool := true
deriving DecidableEq, Repr

/-- `f key id` = `agent_type` attribute of the agent that the factory registered under `key` returns
when handed `id` (ids are never reused, so this covers factories whose answer varies per call). -/
abbrev Fac := Nat → Nat → Nat

/-- the contract of `register_agent_factory`'s docstring: "Output: Agent of agent_type". -/
def Faithful (f : Fac) : Prop := ∀ k i, f k i = k

def Fac.id : Fac := fun k _ => k

/-- `agents`: Python list in list order.  `tmap`: `agent_type_map` values (`[]` for keys not in the
dict — see `mapped`).  `next`: `next_agent_id`.  `reg`: keys of `agent_factories` (fixed: the
harness registers before the first operation).  `mapped`: keys of `agent_type_map`.
`ever`: ghost — every id ever handed out (not in the Python object; used for "never reused"). -/
structure Reg where
  agents : List Agent
  tmap : Nat → List Nat
  next : Nat
  ever : List Nat
  reg : Nat → Bool
  mapped : Nat → Bool

def Reg.init (reg : Nat → Bool) : Reg :=
  { agents := [], tmap := fun _ => [], next := 0, ever := [], reg := reg, mapped := reg }

inductive Op where
  | create (ty : Nat)                      -- create_agent(type, props); state of a new agent is 0 ("active")
  | delete (ids : List Nat)                -- delete_agents(ids)   (delete_agent(i) = delete [i])
  | configure (spec : List (Nat × Nat))    -- configure_agents([{name, count}, …])
  | reset                                  -- reset()
  | setState (id : Nat) (st : Nat)         -- model.agent(id).state = st   (no-op when absent)
  | configureAll (spec : List (Nat × Nat)) -- configure({"runspecs":…, "properties":…, "agents":[…]})
deriving Repr

def idsOfType (as : List Agent) (ty : Nat) : List Nat :=
  (as.filter (fun a => a.ty == ty)).map (·.id)

def idsOfKey (as : List Agent) (k : Nat) : List Nat :=
  (as.filter (fun a => a.key == k)).map (·.id)

/-- `create_agent(key, props)` for a registered key: the factory is called with `next_agent_id`, the
agent is appended, its id is appended IN PLACE to `agent_type_map[key]`. -/
def create (f : Fac) (r : Reg) (k : Nat) : Reg :=
  { r with agents := r.agents ++ [{ id := r.next, ty := f k r.next, state := 0, key := k }]
           tmap := fun t => if t = k then r.tmap t ++ [r.next] else r.tmap t
           next := r.next + 1
           ever := r.ever ++ [r.next] }

/-- `create_agent`: `self.agent_factories[key]` raises KeyError before anything is changed. -/
def createOp (f : Fac) (r : Reg) (k : Nat) : Reg := if r.reg k then create f r k else r

def createN (f : Fac) (r : Reg) (k : Nat) : Nat → Reg
  | 0 => r
  | n + 1 => createN f (create f r k) k n

/-- `for spec in config: create_agents(spec)`; the first spec with a positive count and an
unregistered name raises KeyError and leaves what was created so far (count 0 never looks the
factory up). -/
def createSpec (f : Fac) (r : Reg) : List (Nat × Nat) → Reg
  | [] => r
  | (k, n) :: rest => if n = 0 ∨ r.reg k = true then createSpec f (createN f r k n) rest else r

/-- does `configure_agents(spec)` raise? -/
def specRaises (r : Reg) (spec : List (Nat × Nat)) : Bool :=
  spec.any (fun p => p.2 != 0 && !r.reg p.1)

/-- `delete_agents`: keep the agents whose id is not listed (REBINDS `self.agents`); then, for the
`agent_type` attribute of every removed agent, REBIND that key's id list to the ids of the surviving
agents with that attribute (creating the key when it is not in the dict). -/
def delete (r : Reg) (ids : List Nat) : Reg :=
  let keep := r.agents.filter (fun a => !ids.contains a.id)
  let gone := (r.agents.filter (fun a => ids.contains a.id)).map (·.ty)
  { r with agents := keep
           tmap := fun t => if gone.contains t then idsOfType keep t else r.tmap t
           mapped := fun t => r.mapped t || gone.contains t }

/-- `reset` / head of `configure_agents`: every key of the dict is REBOUND to a fresh `[]`,
`self.agents` is rebound to `[]`; `next_agent_id` is kept. -/
def clear (r : Reg) : Reg := { r with agents := [], tmap := fun _ => [] }

def setState (as : List Agent) (id st : Nat) : List Agent :=
  match as with
  | [] => []
  | a :: rest => if a.id = id then { a with state := st } :: rest else a :: setState rest id st

def step (f : Fac) (r : Reg) : Op → Reg
  | .create k => createOp f r k
  | .delete ids => delete r ids
  | .configure spec => createSpec f (clear r) spec
  | .reset => clear r
  | .setState id st => { r with agents := setState r.agents id st }
  | .configureAll spec => createSpec f (clear r) spec   -- run specs / properties are not registry state

/-- does the operation raise in state `r`? -/
def raises (r : Reg) : Op → Bool
  | .create k => !r.reg k
  | .configure spec => specRaises r spec
  | .configureAll spec => specRaises r spec
  | _ => false

def run (f : Fac) (r : Reg) (ops : List Op) : Reg := ops.foldl (step f) r

/-! ### Queries (as the Python methods compute them) -/

/-- `Model.agent(id)`: first agent in list order with that id. -/
def lookup (r : Reg) (id : Nat) : Option Agent := r.agents.find? (fun a => a.id == id)

def agentIds (r : Reg) (ty : Nat) : List Nat := r.tmap ty

def count (r : Reg) (ty : Nat) : Nat := (r.tmap ty).length

/-- `agent_ids(t)` with the KeyError of an unknown key (`none`). -/
def agentIdsE (r : Reg) (ty : Nat) : Option (List Nat) := if r.mapped ty then some (r.tmap ty) else none

/-- `agent_count(t)`; `none` = KeyError. -/
def countE (r : Reg) (ty : Nat) : Option Nat := if r.mapped ty then some (r.tmap ty).length else none

/-- state of the agent that `agent_count_per_state` inspects for a listed id; `none` = the Python
expression raises (IndexError / AttributeError on `None.state`). -/
def inspected (c : Cfg) (r : Reg) (id : Nat) : Option Nat :=
  if c.countById then (lookup r id).map (·.state) else (r.agents[id]?).map (·.state)

/-- `agent_count_per_state`; `none` = raises. -/
def cpsStep (c : Cfg) (r : Reg) (st : Nat) (acc : Option Nat) (id : Nat) : Option Nat :=
  match acc, inspected c r id with
  | some n, some s => some (if s = st then n + 1 else n)
  | _, _ => none

def countPerState (c : Cfg) (r : Reg) (ty st : Nat) : Option Nat :=
  if r.mapped ty then (r.tmap ty).foldl (cpsStep c r st) (some 0) else none

/-- `next_agent(type, state)`: first agent in list order whose `agent_type` ATTRIBUTE and state match. -/
def nextAgent (r : Reg) (ty st : Nat) : Option Nat :=
  (r.agents.find? (fun a => a.ty == ty && a.state == st)).map (·.id)

/-! ### `random_agents` with the random source as an oracle -/

/-- Python's `round(num/den)` for non-negative rationals: nearest integer, ties to even. -/
def roundHE (num den : Nat) : Nat :=
  let q := num / den
  let rem := num % den
  if 2 * rem < den then q else if den < 2 * rem then q + 1 else if q % 2 = 0 then q else q + 1

/-- `get_random_integer(0, hi)` = `round(random() * hi)` when `random()` returned `p/q`. -/
def randInt (u : Nat × Nat) (hi : Nat) : Nat := roundHE (u.1 * hi) u.2

/-- `random_agents(type, num)` where the j-th call of `get_random_integer(0, n-1)` returns `idx j`.
`none` = raises (KeyError for an unknown key, IndexError for an index ≥ n).  For `n = 0` no index is
drawn (`range(min(num, 0))`) and the result is `[]`. -/
def pick (m : List Nat) (idx : Nat → Nat) : Nat → Option (List Nat)
  | 0 => some []
  | k + 1 => match pick m idx k, m[idx k]? with
    | some l, some x => some (l ++ [x])     -- `agent_ids.append(agent_map[i])`
    | _, _ => none

def randomAgentsIdx (r : Reg) (ty num : Nat) (idx : Nat → Nat) : Option (List Nat) :=
  if r.mapped ty then pick (r.tmap ty) idx (min num (r.tmap ty).length) else none

/-- the same with the oracle being the values `p/q` that `random.random()` returns (j-th draw
`us j`). -/
def randomAgents (r : Reg) (ty num : Nat) (us : Nat → Nat × Nat) : Option (List Nat) :=
  randomAgentsIdx r ty num (fun j => randInt (us j) ((r.tmap ty).length - 1))

/-! ### Specification on the live population -/

def liveOfType (r : Reg) (ty : Nat) : List Agent := r.agents.filter (fun a => a.ty == ty)
def liveOfTypeState (r : Reg) (ty st : Nat) : List Agent :=
  r.agents.filter (fun a => a.ty == ty && a.state == st)
def liveOfKey (r : Reg) (k : Nat) : List Agent := r.agents.filter (fun a => a.key == k)

/-! ### Caller-mutation layer: `model.agent_ids(t).append(x)`

Not one of the property's operations (creation, deletion, reconfiguration, reset): a caller that
mutates the list returned by `agent_ids`.  With `idsAliased` the returned object IS
`agent_type_map[t]`, so the append lands in the registry; with a copy it does not. -/
inductive OpX where
  | op (o : Op)
  | callerAppend (ty x : Nat)
deriving Repr

def stepX (c : Cfg) (f : Fac) (r : Reg) : OpX → Reg
  | .op o => step f r o
  | .callerAppend ty x =>
      if c.idsAliased && r.mapped ty then
        { r with tmap := fun t => if t = ty then r.tmap t ++ [x] else r.tmap t }
      else r

def runX (c : Cfg) (f : Fac) (r : Reg) (ops : List OpX) : Reg := ops.foldl (stepX c f) r

def OpX.isOp : OpX → Bool
  | .op _ => true
  | _ => false

def opsOf : List OpX → List Op
  | [] => []
  | .op o :: rest => o :: opsOf rest
  | _ :: rest => opsOf rest

/-! ### Aliased-argument layer (wave 4): `model.delete_agents(model.agent_ids(t))`

The argument of `delete_agents` is the registry's own list object (`agent_ids(t)` / `agent_type_map[t]`).  In `Op`
the argument is a value; here the operation names WHICH object is passed.  With `deleteArgSnapshot` (the tree as
it is: the membership test runs against the unchanged list, then the affected lists are rebuilt and rebound) this
is `delete` of the list's current value.  Without it (ids taken out of `agent_type_map[type]` in place while the
`for` loop walks the very same list: after removing position `i` the iterator moves on to position `i + 1` of the
shortened list) every second id stays listed although all those agents left `model.agents`. -/

/-- what `for x in l: l.remove(x)` leaves of a duplicate-free `l` -/
def everySecond : List Nat → List Nat
  | [] => []
  | [_] => []
  | _ :: b :: rest => b :: everySecond rest

inductive OpD where
  | op (o : Op)
  | deleteOwn (ty : Nat)       -- delete_agents(agent_ids(ty))  /  delete_agents(agent_type_map[ty])
deriving Repr

def deleteInPlace (r : Reg) (ty : Nat) : Reg :=
  { r with agents := r.agents.filter (fun a => !(r.tmap ty).contains a.id)
           tmap := fun t => if t = ty then everySecond (r.tmap ty) else r.tmap t }

def stepD (c : Cfg) (f : Fac) (r : Reg) : OpD → Reg
  | .op o => step f r o
  | .deleteOwn ty =>
      if r.mapped ty then                                   -- else KeyError before anything happens
        if c.deleteArgSnapshot || !c.idsAliased then delete r (r.tmap ty) else deleteInPlace r ty
      else r

def runD (c : Cfg) (f : Fac) (r : Reg) (ops : List OpD) : Reg := ops.foldl (stepD c f) r

/-- the history of value-argument operations that an aliased history amounts to when `delete_agents` works on a
snapshot of its argument -/
def expandD (f : Fac) : Reg → List OpD → List Op
  | _, [] => []
  | r, .op o :: rest => o :: expandD f (step f r o) rest
  | r, .deleteOwn ty :: rest =>
      if r.mapped ty then .delete (r.tmap ty) :: expandD f (delete r (r.tmap ty)) rest else expandD f r rest

/-! ### Re-entrant creation (wave 6): `create_agent` called from inside a factory or from `initialize()`

`create_agent(k, props)`:  `factory = agent_factories[k]` (KeyError: nothing happens) → the factory is called with
`next_agent_id` as the id (a factory may itself call `create_agent`) → `agent.initialize()` (which may call
`create_agent`, e.g. a firm hiring its workers) → `agents.append(agent)`, `agent_type_map[k].append(agent.id)`.
WHERE `next_agent_id += 1` happens is the mechanism (`CfgN`, probed on every run by reading `model.next_agent_id` from
inside a factory and from inside `initialize()`): before the factory call / between factory and `initialize()` /
after the registration.  A creation is three tokens of a flat history, `enter k`, `facDone`, `leave`; nesting is
bracketing, of any depth.  Registration order under nesting: a child is appended BEFORE its parent (the parent is
registered when its `initialize()` has returned), so `model.agents` and the per-type lists are no longer ordered
by id — they are ordered by completion. -/

structure CfgN where
  idReservedBeforeFactory : Bool
  idReservedBeforeInitialize : Bool
deriving DecidableEq, Repr

def CfgN.good (n : CfgN) : Bool := n.idReservedBeforeFactory

/-- a `create_agent` call that has not returned yet -/
structure Frame where
  id : Nat
  key : Nat
  inFactory : Bool
deriving DecidableEq, Repr

structure NReg where
  r : Reg
  stack : List Frame      -- innermost call first

def NReg.init (reg : Nat → Bool) : NReg := { r := Reg.init reg, stack := [] }

inductive Tok where
  | op (o : Op)          -- an operation made outside any `create_agent` (ignored while a creation is in progress)
  | enter (k : Nat)      -- `create_agent(k, …)` is called
  | facDone              -- the factory of the innermost creation returns; its `initialize()` starts
  | leave                -- `initialize()` of the innermost creation returns; the agent is registered
deriving Repr

def register (f : Fac) (r : Reg) (fr : Frame) : Reg :=
  { r with agents := r.agents ++ [{ id := fr.id, ty := f fr.key fr.id, state := 0, key := fr.key }]
           tmap := fun t => if t = fr.key then r.tmap t ++ [fr.id] else r.tmap t }

def bump (r : Reg) (b : Bool) : Reg := if b then { r with next := r.next + 1 } else r

def stepN (n : CfgN) (f : Fac) (s : NReg) : Tok → NReg
  | .op o => if s.stack.isEmpty then { s with r := step f s.r o } else s
  | .enter k =>
      if s.r.reg k then
        { r := bump { s.r with ever := s.r.ever ++ [s.r.next] } n.idReservedBeforeFactory
          stack := { id := s.r.next, key := k, inFactory := true } :: s.stack }
      else s
  | .facDone =>
      match s.stack with
      | fr :: rest =>
        if fr.inFactory then
          { r := bump s.r (!n.idReservedBeforeFactory && n.idReservedBeforeInitialize)
            stack := { fr with inFactory := false } :: rest }
        else s
      | [] => s
  | .leave =>
      match s.stack with
      | fr :: rest =>
        if fr.inFactory then s
        else { r := bump (register f s.r fr) (!n.idReservedBeforeFactory && !n.idReservedBeforeInitialize), stack := rest }
      | [] => s

def runN (n : CfgN) (f : Fac) (s : NReg) (toks : List Tok) : NReg := toks.foldl (stepN n f) s

/-! ### Two models alive in one process (wave 7)

The theorems are about ONE registry; that the registry of a model is its own — `agent_type_map`, `agents`,
`next_agent_id` are instance attributes set in `__init__`, not class attributes or module globals — is a mechanism
fact (`registryPerInstance`, probed with two live models).  `Two` is the pair of registries; with the fact an
operation touches the addressed one only; without it (a class-level `agent_type_map`) both models see one type map. -/

structure Two where
  a : Reg
  b : Reg

def stepTwo (perInstance : Bool) (f : Fac) (t : Two) (x : Bool × Op) : Two :=
  if x.1 then
    let a' := step f t.a x.2
    { a := a', b := if perInstance then t.b else { t.b with tmap := a'.tmap } }
  else
    let b' := step f t.b x.2
    { a := if perInstance then t.a else { t.a with tmap := b'.tmap }, b := b' }

def runTwo (perInstance : Bool) (f : Fac) (t : Two) (ops : List (Bool × Op)) : Two := ops.foldl (stepTwo perInstance f) t

def opsFor (who : Bool) (ops : List (Bool × Op)) : List Op := (ops.filter (fun x => x.1 == who)).map (·.2)

/-- no `create_agent` is called while a FACTORY is running (re-entrant creation from `initialize()` only) -/
def facNestFree (n : CfgN) (f : Fac) : NReg → List Tok → Bool
  | _, [] => true
  | s, t :: rest =>
    (match t with
     | .enter k => !s.r.reg k || (match s.stack with | fr :: _ => !fr.inFactory | [] => true)
     | _ => true) && facNestFree n f (stepN n f s t) rest

def topInFactory (s : NReg) : Bool := match s.stack with | fr :: _ => fr.inFactory | [] => false

end Bptk.C14
