import Bptk.Core.PyFrag
/-!
C04 — transpiled XMILE stock/flow dynamics: executable model.

* `Ex`, `Elem`, `Model`     : a stock/flow graph (stocks with lists of inflows/outflows, uniflows and biflows,
                              auxiliaries, graphical functions), equations over an arbitrary carrier.
* `eulerF` / `euler`        : the reference — explicit Euler on grid index `k`, written in the operation
                              order of the property statement  `stock (k+1) = stock k + dt * net k`.
* `Tm`, `compile`           : the code the transpiler emits for the graph (what `StockExpressions` +
                              `parseExpression` + the template produce), as a small term language whose
                              only effectful atom is `self.memoize(name, t | t-self.dt)`.
* `TimeSem`, `memoize`, `evalTm` : the generated class' memoised recursion over *time values* of an abstract
                              type `T` (floats in the code): `prev` is `t - self.dt`, `norm` is what
                              `memoize` does to its argument before using it as key and as the equation's
                              `t` (identity on the pinned tree, grid normalisation after the repair).
* `lerp`                    : the generated `LERP` (clamped, linear inside).
* `skelPy`, `tmOfPy`        : intended Python shape of the stock skeleton and the denotation Python → `Tm`,
                              used by the per-run obligations on the probed generator output.
-/
namespace Bptk.C04

inductive Op | add | sub | mul | div
deriving DecidableEq, Repr, Inhabited

inductive Cmp | lt | le | gt | ge | eq
deriving DecidableEq, Repr, Inhabited

/-- arithmetic is uninterpreted: the theorems never use an algebraic law -/
structure Carrier (α : Type) where
  bin : Op → α → α → α
  cmp : Cmp → α → α → Bool
  int : Int → α              -- Python int literals that the generator emits (`0`, `-1`)

/-- equations of flows / auxiliaries / initial values -/
inductive Ex (α : Type)
  | lit (a : α)
  | int (i : Int)                       -- Python int literal
  | ref (n : Nat)                       -- another element, same time
  | time                                -- TIME
  | dt                                  -- DT
  | bin (o : Op) (l r : Ex α)
  | mx (l r : Ex α)                     -- MAX(l, r)   ↦  max([l , r])
  | mn (l r : Ex α)                     -- MIN(l, r)   ↦  min([l , r])
  | ite (c : Cmp) (a b x y : Ex α)      -- IF a c b THEN x ELSE y
deriving Repr, Inhabited

inductive Elem (α : Type)
  | stock (init : Ex α) (ins outs : List Nat)
  | flow (nonneg : Bool) (eq : Ex α)    -- uniflow (`<non_negative/>`) or biflow
  | aux (eq : Ex α)
  | gf (eq : Ex α) (pts : List (α × α)) -- graphical function: LERP(eq, points)
  | gflow (nonneg : Bool) (eq : Ex α) (pts : List (α × α))
      -- (wave 2) a flow DEFINED by a graphical function (`<flow><eqn/><gf/></flow>`), uniflow or biflow:
      -- `max([0 , ( LERP( eq, self.points[name]) )])` resp. `( LERP( eq, self.points[name]) )`
deriving Repr, Inhabited

/-- (wave 2) what `parse_xmile` does with `<non_negative/>`: it wraps the parsed equation of the entity in
`max(0, ·)` — for a flow that is the flow equation (after the graphical function, if any), for a STOCK it is
the *initial value* only (`StockExpressions` builds the recursion around it afterwards; the integration
itself is not clamped: a "non-negative" stock of the generated model can go below zero). -/
def nnWrap (nn : Bool) (e : Ex α) : Ex α := if nn then .mx (.int 0) e else e

/-- an XMILE `<stock>` with or without `<non_negative/>` as the transpiler treats it -/
def xStock (nn : Bool) (init : Ex α) (ins outs : List Nat) : Elem α := .stock (nnWrap nn init) ins outs

structure Model (α : Type) where
  elems : List (Elem α)
  dtv : α                               -- the value of `self.dt`

variable {α : Type}

/-- Python `max([a , b])`: keeps the first unless the second is strictly greater -/
def pyMax (C : Carrier α) (a b : α) : α := if C.cmp .gt b a then b else a
/-- Python `min([a , b])` -/
def pyMin (C : Carrier α) (a b : α) : α := if C.cmp .lt b a then b else a

/-! ### LERP -/

/-- interior of `LERP` (numpy's linear interpolation): the segment is the last one whose left end is
`≤ x`; exactly on a point the point's value is returned. -/
def lerpIn (C : Carrier α) : (α × α) → List (α × α) → α → α
  | p0, [], _ => p0.2
  | p0, p1 :: rest, x =>
    if C.cmp .lt x p1.1 then
      (if C.cmp .eq x p0.1 then p0.2
       else C.bin .add (C.bin .mul (C.bin .div (C.bin .sub p1.2 p0.2) (C.bin .sub p1.1 p0.1)) (C.bin .sub x p0.1)) p0.2)
    else lerpIn C p1 rest x

def lastD : (α × α) → List (α × α) → (α × α)
  | p, [] => p
  | _, q :: r => lastD q r

/-- `LERP(x, points)` of the generated module -/
def lerp (C : Carrier α) (pts : List (α × α)) (x : α) : Option α :=
  match pts with
  | [] => none
  | p0 :: rest =>
    if C.cmp .le x p0.1 then some p0.2
    else if C.cmp .ge x (lastD p0 rest).1 then some (lastD p0 rest).2
    else some (lerpIn C p0 rest x)

/-! #### (wave 6) probe rows of the REAL generated `LERP` and a segment search with bounded correction -/

/-- one call of the real `LERP` on an integer table at an integer abscissa with an integral result -/
structure LerpRow where
  pts : List (Int × Int)
  x : Int
  y : Int

def intC : Carrier Int where
  bin := fun o a b => match o with | .add => a + b | .sub => a - b | .mul => a * b | .div => a / b
  cmp := fun c a b => match c with | .lt => a < b | .le => a ≤ b | .gt => a > b | .ge => a ≥ b | .eq => a == b
  int := id

/-- every probed value is what the model's `lerp` gives (exact: integer tables with integral slopes), and the rows hold a
table with at least 5 points probed strictly inside its range -/
def lerpRowsOK (rows : List LerpRow) : Bool :=
  rows.all (fun r => lerp intC r.pts r.x == some r.y) &&
    rows.any (fun r => decide (r.pts.length ≥ 5) && (match r.pts with
      | [] => false
      | p0 :: rest => decide (p0.1 < r.x) && decide (r.x < (lastD p0 rest).1)))

/-- a `LERP` that guesses the segment index proportionally, `⌊(x − x₀)/(xₙ − x₀)·n⌋`, and corrects it by at most one
(seeded defect `C04r4-lerp-proportional-segment`) -/
def lerpBounded (pts : List (Int × Int)) (x : Int) : Option Int :=
  match pts with
  | [] => none
  | p0 :: rest =>
    let last := lastD p0 rest
    if x ≤ p0.1 then some p0.2
    else if x ≥ last.1 then some last.2
    else
      let i0 := ((x - p0.1) * (pts.length - 1 : Nat) / (last.1 - p0.1)).toNat
      let i := if x < (pts.getD i0 p0).1 then i0 - 1 else if x ≥ (pts.getD (i0 + 1) p0).1 then i0 + 1 else i0
      let a := pts.getD i p0
      let b := pts.getD (i + 1) p0
      some (a.2 + (b.2 - a.2) * (x - a.1) / (b.1 - a.1))

/-! ### Reference semantics: explicit Euler on the grid index -/

def evalEx (C : Carrier α) (dtv tnow : α) (look : Nat → Option α) : Ex α → Option α
  | .lit a => some a
  | .int i => some (C.int i)
  | .ref n => look n
  | .time => some tnow
  | .dt => some dtv
  | .bin o l r =>
    match evalEx C dtv tnow look l with
    | none => none
    | some a => match evalEx C dtv tnow look r with
      | none => none
      | some b => some (C.bin o a b)
  | .mx l r =>
    match evalEx C dtv tnow look l with
    | none => none
    | some a => match evalEx C dtv tnow look r with
      | none => none
      | some b => some (pyMax C a b)
  | .mn l r =>
    match evalEx C dtv tnow look l with
    | none => none
    | some a => match evalEx C dtv tnow look r with
      | none => none
      | some b => some (pyMin C a b)
  | .ite c a b x y =>
    match evalEx C dtv tnow look a with
    | none => none
    | some va => match evalEx C dtv tnow look b with
      | none => none
      | some vb => if C.cmp c va vb then evalEx C dtv tnow look x else evalEx C dtv tnow look y

/-- `f0 + f1 + … ` left to right, starting from an accumulator -/
def sumAcc (C : Carrier α) (look : Nat → Option α) : α → List Nat → Option α
  | acc, [] => some acc
  | acc, n :: ns => match look n with
    | none => none
    | some v => sumAcc C look (C.bin .add acc v) ns

def sumL (C : Carrier α) (look : Nat → Option α) (n : Nat) (ns : List Nat) : Option α :=
  match look n with
  | none => none
  | some v => sumAcc C look v ns

/-- net flow of a stock, with the case split of `StockExpressions` -/
def net (C : Carrier α) (look : Nat → Option α) : List Nat → List Nat → Option α
  | [], [] => some (C.int 0)
  | i :: is, [] => sumL C look i is
  | [], o :: os => match sumL C look o os with
    | none => none
    | some s => some (C.bin .mul (C.int (-1)) s)
  | i :: is, o :: os => match sumL C look i is with
    | none => none
    | some a => match sumL C look o os with
      | none => none
      | some b => some (C.bin .sub a b)

/-- value of element `n` at grid index `k` (`tv k` = the time label as a number); fuel bounds the
recursion through same-time references and back in time. -/
def eulerF (C : Carrier α) (M : Model α) (tv : Nat → α) : Nat → Nat → Nat → Option α
  | 0, _, _ => none
  | f + 1, n, k =>
    match M.elems[n]? with
    | none => none
    | some (.aux e) => evalEx C M.dtv (tv k) (fun m => eulerF C M tv f m k) e
    | some (.flow nn e) =>
      match evalEx C M.dtv (tv k) (fun m => eulerF C M tv f m k) e with
      | none => none
      | some v => some (if nn then pyMax C (C.int 0) v else v)
    | some (.gf e pts) =>
      match evalEx C M.dtv (tv k) (fun m => eulerF C M tv f m k) e with
      | none => none
      | some x => lerp C pts x
    | some (.gflow nn e pts) =>
      match evalEx C M.dtv (tv k) (fun m => eulerF C M tv f m k) e with
      | none => none
      | some x => match lerp C pts x with
        | none => none
        | some v => some (if nn then pyMax C (C.int 0) v else v)
    | some (.stock init ins outs) =>
      match k with
      | 0 => evalEx C M.dtv (tv 0) (fun m => eulerF C M tv f m 0) init
      | k' + 1 =>
        match eulerF C M tv f n k' with
        | none => none
        | some s => match net C (fun m => eulerF C M tv f m k') ins outs with
          | none => none
          | some d => some (C.bin .add s (C.bin .mul M.dtv d))

/-- fuel that suffices for an acyclic model whose ranks are `≤ R` -/
def fuelFor (R n k : Nat) : Nat := k * (R + 1) + n + 1

/-- the Euler trajectory: element `n` at grid index `k`, for a model of `M.elems.length` elements -/
def euler (C : Carrier α) (M : Model α) (tv : Nat → α) (n k : Nat) : Option α :=
  eulerF C M tv (fuelFor M.elems.length M.elems.length k) n k

/-! ### The generated code -/

/-- time expression handed to `self.memoize`: `t` or `t-self.dt` -/
inductive TE | cur | prev
deriving DecidableEq, Repr, Inhabited

inductive Tm (α : Type)
  | lit (a : α)
  | int (i : Int)
  | dt                                  -- self.dt
  | time                                -- t
  | memo (n : Nat) (te : TE)            -- self.memoize('n', t) / self.memoize('n',t-self.dt)
  | bin (o : Op) (l r : Tm α)
  | mx (l r : Tm α)                     -- max([l , r])
  | mn (l r : Tm α)                     -- min([l , r])
  | ite (c : Cmp) (a b x y : Tm α)      -- ( (x) if (a c b) else (y) )
  | ifStart (x y : Tm α)                -- ( (x) if ( t <= self.starttime ) else (y) )
  | lerp (e : Tm α) (pts : List (α × α))
deriving Repr, Inhabited, DecidableEq

def cEx (te : TE) : Ex α → Tm α
  | .lit a => .lit a
  | .int i => .int i
  | .ref n => .memo n te
  | .time => .time
  | .dt => .dt
  | .bin o l r => .bin o (cEx te l) (cEx te r)
  | .mx l r => .mx (cEx te l) (cEx te r)
  | .mn l r => .mn (cEx te l) (cEx te r)
  | .ite c a b x y => .ite c (cEx te a) (cEx te b) (cEx te x) (cEx te y)

def sumTm (te : TE) : Tm α → List Nat → Tm α
  | acc, [] => acc
  | acc, n :: ns => sumTm te (.bin .add acc (.memo n te)) ns

/-- `PREVIOUS(sum)` of `StockExpressions` after rendering -/
def netTm : List Nat → List Nat → Tm α
  | [], [] => .int 0
  | i :: is, [] => sumTm .prev (.memo i .prev) is
  | [], o :: os => .bin .mul (.int (-1)) (sumTm .prev (.memo o .prev) os)
  | i :: is, o :: os => .bin .sub (sumTm .prev (.memo i .prev) is) (sumTm .prev (.memo o .prev) os)

def stockTm (s : Nat) (init : Tm α) (ins outs : List Nat) : Tm α :=
  .ifStart init (.bin .add (.memo s .prev) (.bin .mul .dt (netTm ins outs)))

def compileElem (n : Nat) : Elem α → Tm α
  | .stock init ins outs => stockTm n (cEx .cur init) ins outs
  | .flow true e => .mx (.int 0) (cEx .cur e)
  | .flow false e => cEx .cur e
  | .aux e => cEx .cur e
  | .gf e pts => .lerp (cEx .cur e) pts
  | .gflow true e pts => .mx (.int 0) (.lerp (cEx .cur e) pts)
  | .gflow false e pts => .lerp (cEx .cur e) pts

def exRefs : Ex α → List Nat
  | .ref n => [n]
  | .bin _ l r => exRefs l ++ exRefs r
  | .mx l r => exRefs l ++ exRefs r
  | .mn l r => exRefs l ++ exRefs r
  | .ite _ a b x y => exRefs a ++ exRefs b ++ exRefs x ++ exRefs y
  | _ => []

/-- references evaluated at the same time as the element itself -/
def sameRefs : Elem α → List Nat
  | .stock init _ _ => exRefs init
  | .flow _ e => exRefs e
  | .aux e => exRefs e
  | .gf e _ => exRefs e
  | .gflow _ e _ => exRefs e

/-- references evaluated one step back -/
def prevRefs : Elem α → List Nat
  | .stock _ ins outs => ins ++ outs
  | _ => []

def hasPoints : Elem α → Bool
  | .gf _ [] => false
  | .gflow _ _ [] => false
  | _ => true

/-- the `equations` dictionary of the generated class -/
def compile (M : Model α) (n : Nat) : Option (Tm α) := (M.elems[n]?).map (compileElem n)

/-! ### The same graph written in the SD DSL: the user writes the net flow as an expression -/

inductive DslElem (α : Type)
  | stock (init : Ex α) (eq : Ex α)     -- eq is rendered with `term("t-model.dt")`
  | flow (eq : Ex α)                    -- max(0, eq)
  | biflow (eq : Ex α)
  | converter (eq : Ex α)
  | lookup (eq : Ex α) (pts : List (α × α))
  | lookupFlow (nonneg : Bool) (eq : Ex α) (pts : List (α × α))   -- flow / biflow whose equation is `lookup(eq, pts)`
deriving Repr, Inhabited

def sumEx : Ex α → List Nat → Ex α
  | acc, [] => acc
  | acc, n :: ns => sumEx (.bin .add acc (.ref n)) ns

/-- how the DSL model of the graph spells the net flow: `(i0+i1+…) - (o0+o1+…)` -/
def netEx : List Nat → List Nat → Ex α
  | [], [] => .int 0
  | i :: is, [] => sumEx (.ref i) is
  | [], o :: os => .bin .mul (.int (-1)) (sumEx (.ref o) os)
  | i :: is, o :: os => .bin .sub (sumEx (.ref i) is) (sumEx (.ref o) os)

def toDsl : Elem α → DslElem α
  | .stock init ins outs => .stock init (netEx ins outs)
  | .flow true e => .flow e
  | .flow false e => .biflow e
  | .aux e => .converter e
  | .gf e pts => .lookup e pts
  | .gflow nn e pts => .lookupFlow nn e pts

def compileDslElem (n : Nat) : DslElem α → Tm α
  | .stock init eq => .ifStart (cEx .cur init) (.bin .add (.memo n .prev) (.bin .mul .dt (cEx .prev eq)))
  | .flow e => .mx (.int 0) (cEx .cur e)
  | .biflow e => cEx .cur e
  | .converter e => cEx .cur e
  | .lookup e pts => .lerp (cEx .cur e) pts
  | .lookupFlow true e pts => .mx (.int 0) (.lerp (cEx .cur e) pts)
  | .lookupFlow false e pts => .lerp (cEx .cur e) pts

/-! ### Time values, memo, evaluation of the generated class -/

structure TimeSem (T α : Type) where
  prev : T → T              -- t - self.dt
  norm : T → T              -- what memoize does to its argument
  leStart : T → Bool        -- t <= self.starttime
  keyEq : T → T → Bool      -- equality of dictionary keys
  val : T → α               -- `t` used as a number

abbrev Memo (T α : Type) := List (Nat × T × α)

variable {T : Type}

def Memo.find (ts : TimeSem T α) : Memo T α → Nat → T → Option α
  | [], _, _ => none
  | (n', t', v) :: rest, n, t => if n' = n ∧ ts.keyEq t' t = true then some v else Memo.find ts rest n t

def teTime (ts : TimeSem T α) (t : T) : TE → T
  | .cur => t
  | .prev => ts.prev t

/-- evaluation of an equation body at time `t`, left to right, threading the memo; `call` is
`self.memoize` -/
def evalTm (C : Carrier α) (ts : TimeSem T α) (dtv : α) (call : Memo T α → Nat → T → Option (Memo T α × α))
    (t : T) : Memo T α → Tm α → Option (Memo T α × α)
  | m, .lit a => some (m, a)
  | m, .int i => some (m, C.int i)
  | m, .dt => some (m, dtv)
  | m, .time => some (m, ts.val t)
  | m, .memo n te => call m n (teTime ts t te)
  | m, .bin o l r =>
    match evalTm C ts dtv call t m l with
    | none => none
    | some (m1, a) => match evalTm C ts dtv call t m1 r with
      | none => none
      | some (m2, b) => some (m2, C.bin o a b)
  | m, .mx l r =>
    match evalTm C ts dtv call t m l with
    | none => none
    | some (m1, a) => match evalTm C ts dtv call t m1 r with
      | none => none
      | some (m2, b) => some (m2, pyMax C a b)
  | m, .mn l r =>
    match evalTm C ts dtv call t m l with
    | none => none
    | some (m1, a) => match evalTm C ts dtv call t m1 r with
      | none => none
      | some (m2, b) => some (m2, pyMin C a b)
  | m, .ite c a b x y =>
    match evalTm C ts dtv call t m a with
    | none => none
    | some (m1, va) => match evalTm C ts dtv call t m1 b with
      | none => none
      | some (m2, vb) =>
        if C.cmp c va vb then evalTm C ts dtv call t m2 x else evalTm C ts dtv call t m2 y
  | m, .ifStart x y =>
    if ts.leStart t then evalTm C ts dtv call t m x else evalTm C ts dtv call t m y
  | m, .lerp e pts =>
    match evalTm C ts dtv call t m e with
    | none => none
    | some (m1, x) => match lerp C pts x with
      | none => none
      | some v => some (m1, v)

/-- `simulation_model.memoize(equation, arg)`: normalise (or not) the argument, look the key up, else
evaluate the equation at that argument and store. -/
def memoize (C : Carrier α) (ts : TimeSem T α) (dtv : α) (code : Nat → Option (Tm α)) :
    Nat → Memo T α → Nat → T → Option (Memo T α × α)
  | 0, _, _, _ => none
  | f + 1, m, n, t =>
    match Memo.find ts m n (ts.norm t) with
    | some v => some (m, v)
    | none =>
      match code n with
      | none => none
      | some tm =>
        match evalTm C ts dtv (memoize C ts dtv code f) (ts.norm t) m tm with
        | none => none
        | some (m', v) => some ((n, ts.norm t, v) :: m', v)

/-- value only -/
def runVal (C : Carrier α) (ts : TimeSem T α) (dtv : α) (code : Nat → Option (Tm α)) (fuel : Nat)
    (m : Memo T α) (n : Nat) (t : T) : Option α :=
  (memoize C ts dtv code fuel m n t).map (·.2)

/-! ### Concrete time semantics -/

/-- idealised grid: time = grid index (what the normalising memoize achieves) -/
def natTS (tv : Nat → α) : TimeSem Nat α where
  prev := Nat.pred
  norm := id
  leStart := fun k => k == 0
  keyEq := fun a b => a == b
  val := tv

/-- the pinned tree on doubles: raw `t - dt` keys -/
def rawFloatTS (dt start : Float) : TimeSem Float Float where
  prev := fun t => t - dt
  norm := id
  leStart := fun t => t <= start
  keyEq := fun a b => a == b
  val := id

def floatCarrier : Carrier Float where
  bin := fun o a b => match o with | .add => a + b | .sub => a - b | .mul => a * b | .div => a / b
  cmp := fun c a b => match c with | .lt => a < b | .le => a <= b | .gt => a > b | .ge => a >= b | .eq => a == b
  int := fun i => Float.ofInt i

def intCarrier : Carrier Int where
  bin := fun o a b => match o with | .add => a + b | .sub => a - b | .mul => a * b | .div => a / b
  cmp := fun c a b => match c with | .lt => a < b | .le => a ≤ b | .gt => a > b | .ge => a ≥ b | .eq => a == b
  int := id

/-- simulate like `SdSimulation`: every element at every grid index 0..N in turn, one shared memo;
returns rows of values (`none` = evaluation failed). -/
def simulate (C : Carrier α) (M : Model α) (tv : Nat → α) (N : Nat) : List (List (Option α)) :=
  let code := compile M
  let ne := M.elems.length
  let fuel := fuelFor ne ne N + 1
  let ts := natTS tv
  let step := fun (acc : Memo Nat α × List (List (Option α))) (k : Nat) =>
    let (m, rows) := acc
    let (m', row) := (List.range ne).foldl (fun (mr : Memo Nat α × List (Option α)) n =>
      match memoize C ts M.dtv code fuel mr.1 n k with
      | none => (mr.1, mr.2 ++ [none])
      | some (m2, v) => (m2, mr.2 ++ [some v])) (m, [])
    (m', rows ++ [row])
  ((List.range (N + 1)).foldl step ([], [])).2

/-! ### Syntax: intended Python shape of the generated stock equation and its denotation -/

open Bptk.Py in
def selfAttr (a : String) : Py := .attr (.name "self") a

open Bptk.Py in
/-- `self.memoize('name', t)` / `self.memoize('name',t-self.dt)` -/
def memoPy (name : String) : TE → Py
  | .cur => .call (selfAttr "memoize") [.str name, .name "t"]
  | .prev => .call (selfAttr "memoize") [.str name, .bin .sub (.name "t") (selfAttr "dt")]

open Bptk.Py in
def sumPy (te : TE) : Py → List String → Py
  | acc, [] => acc
  | acc, n :: ns => sumPy te (.bin .add acc (memoPy n te)) ns

open Bptk.Py in
def netPy : List String → List String → Py
  | [], [] => .num "0"
  | i :: is, [] => sumPy .prev (memoPy i .prev) is
  | [], o :: os => .bin .mul (.neg (.num "1")) (sumPy .prev (memoPy o .prev) os)
  | i :: is, o :: os => .bin .sub (sumPy .prev (memoPy i .prev) is) (sumPy .prev (memoPy o .prev) os)

open Bptk.Py in
/-- the intended shape (parentheses erased) of a stock's equation:
`init if t <= self.starttime else self.memoize(s,t-self.dt) + self.dt * NET` -/
def skelPy (s : String) (init : Py) (ins outs : List String) : Py :=
  .ite init (.bin .le (.name "t") (selfAttr "starttime"))
    (.bin .add (memoPy s .prev) (.bin .mul (selfAttr "dt") (netPy ins outs)))

open Bptk.Py in
def opOf : BinOp → Option Op
  | .add => some .add | .sub => some .sub | .mul => some .mul | .div => some .div
  | _ => none

open Bptk.Py in
def cmpOf : BinOp → Option Cmp
  | .lt => some .lt | .le => some .le | .gt => some .gt | .ge => some .ge | .eq => some .eq
  | _ => none

/-! element names are `e<decimal index>`; the decimal coding is spelled out (instead of `String.toNat?`)
so that the round trip `nameIx (nmG n) = some n` is provable for every `n` (wave 2) -/

def digitChar (d : Nat) : Char := Char.ofNat (48 + d)

def charDigit (c : Char) : Option Nat :=
  if 48 ≤ c.toNat ∧ c.toNat ≤ 57 then some (c.toNat - 48) else none

/-- positional decimal reading, most significant digit first -/
def decAcc : Nat → List Char → Option Nat
  | acc, [] => some acc
  | acc, c :: cs => match charDigit c with
    | none => none
    | some d => decAcc (acc * 10 + d) cs

def decNat : List Char → Option Nat
  | [] => none
  | cs => decAcc 0 cs

/-- decimal digits of `n` (what Python's `str(n)` prints) -/
def encNat (n : Nat) : List Char :=
  if n < 10 then [digitChar n] else encNat (n / 10) ++ [digitChar (n % 10)]
decreasing_by omega

/-- the name of element `n` in generated models: Python `f"e{n}"` -/
def nmG (n : Nat) : String := String.ofList ('e' :: encNat n)

/-- element names are `e0, e1, …`: the index of a name -/
def nameIx (s : String) : Option Nat :=
  match s.toList with
  | 'e' :: r => decNat r
  | _ => none

/-- the same on a fixed table of literals (reducible by the kernel, for the per-run obligations) -/
def ixTable (s : String) : Option Nat :=
  if s = "e0" then some 0 else if s = "e1" then some 1 else if s = "e2" then some 2
  else if s = "e3" then some 3 else if s = "e4" then some 4 else if s = "e5" then some 5
  else if s = "e6" then some 6 else if s = "e7" then some 7 else if s = "e8" then some 8
  else if s = "e9" then some 9 else none

open Bptk.Py in
/-- denotation of the generated Python (parentheses erased) as `Tm` code over number texts;
anything outside the forms the stock/flow generator is supposed to emit is `none`. -/
def tmOfPy (ix : String → Option Nat) : Py → Option (Tm String)
  | .num s => if s = "0" then some (.int 0) else some (.lit s)
  | .neg (.num s) => if s = "1" then some (.int (-1)) else none
  | .name "t" => some .time
  | .attr (.name "self") "dt" => some .dt
  | .call (.attr (.name "self") "memoize") [.str nm, .name "t"] => (ix nm).map (fun n => Tm.memo n .cur)
  | .call (.attr (.name "self") "memoize") [.str nm, .bin .sub (.name "t") (.attr (.name "self") "dt")] =>
      (ix nm).map (fun n => Tm.memo n .prev)
  | .call (.name "LERP") [e, .index (.attr (.name "self") "points") (.str _)] =>
      match tmOfPy ix e with
      | some x => some (.lerp x [])
      | none => none
  | .call (.name "max") [.list [a, b]] =>
      match tmOfPy ix a, tmOfPy ix b with
      | some x, some y => some (.mx x y)
      | _, _ => none
  | .call (.name "min") [.list [a, b]] =>
      match tmOfPy ix a, tmOfPy ix b with
      | some x, some y => some (.mn x y)
      | _, _ => none
  | .ite x (.bin .le (.name "t") (.attr (.name "self") "starttime")) y =>
      match tmOfPy ix x, tmOfPy ix y with
      | some a, some b => some (.ifStart a b)
      | _, _ => none
  | .ite x (.bin k a b) y =>
      match cmpOf k, tmOfPy ix a, tmOfPy ix b, tmOfPy ix x, tmOfPy ix y with
      | some c, some ta, some tb, some tx, some ty => some (.ite c ta tb tx ty)
      | _, _, _, _, _ => none
  | .bin k l r =>
      match opOf k, tmOfPy ix l, tmOfPy ix r with
      | some o, some a, some b => some (.bin o a b)
      | _, _, _ => none
  | _ => none

def nmS : Nat → String
  | 0 => "e0" | 1 => "e1" | 2 => "e2" | 3 => "e3" | 4 => "e4" | 5 => "e5" | 6 => "e6" | 7 => "e7"
  | 8 => "e8" | 9 => "e9" | _ => "e?"

open Bptk.Py in
/-- net-flow text with the parentheses `StockExpressions` writes (`()` nodes) -/
def netPyP : List String → List String → Py
  | [], [] => .num "0"
  | i :: is, [] => .paren (sumPy .prev (memoPy i .prev) is)
  | [], o :: os => .paren (.bin .mul (.neg (.num "1")) (.paren (sumPy .prev (memoPy o .prev) os)))
  | i :: is, o :: os =>
    .paren (.bin .sub (sumPy .prev (memoPy i .prev) is) (.paren (sumPy .prev (memoPy o .prev) os)))

open Bptk.Py in
/-- the stock equation exactly as emitted:
`( (init) if ( t <= self.starttime ) else (self.memoize('s',t-self.dt) + self.dt * NET) )` -/
def skelPyP (s : String) (init : Py) (ins outs : List String) : Py :=
  .paren (.ite (.paren init) (.paren (.bin .le (.name "t") (selfAttr "starttime")))
    (.paren (.bin .add (memoPy s .prev) (.bin .mul (selfAttr "dt") (netPyP ins outs)))))

/-! #### (wave 2) non-negative stocks and flows defined by a graphical function, as emitted -/

open Bptk.Py in
/-- `max([0 , init])`: what `<non_negative/>` makes of an equation (for a stock: of the initial value) -/
def nnPy (e : Py) : Py := .call (.name "max") [.list [.num "0", e]]

open Bptk.Py in
/-- `( LERP( a, self.points["name"]) )`: the `lookup` builtin applied to the flow's own table -/
def lerpPyP (name : String) (a : Py) : Py :=
  .paren (.call (.name "LERP") [a, .index (selfAttr "points") (.str name)])

open Bptk.Py in
/-- the equation of a flow defined by a graphical function: uniflow / biflow -/
def gflowPyP (nn : Bool) (name : String) (a : Py) : Py := if nn then nnPy (lerpPyP name a) else lerpPyP name a

def flowIxs (from_ n : Nat) : List Nat := (List.range n).map (· + from_)

/-! #### `JoinedExpression(names, "+")` (wave 2): the IR is nested to the RIGHT (`a + (b + (c + d))` as a
tree, built by the `reduce` loop over `reversed(rest)`), but `parseExpression` prints `"{} + {}"` without
parentheses, so the text is flat and Python reads it to the LEFT -/

inductive JIR
  | nothing
  | ident (s : String)
  | plus (l r : JIR)
deriving Repr, Inhabited

def joinedIR : List String → JIR
  | [] => .nothing
  | [a] => .ident a
  | a :: b :: r => .plus (.ident a) (joinedIR (b :: r))

open Bptk.Py in
/-- tokens `parseExpression` emits for the IR inside `PREVIOUS(…)`: identifiers become
`self.memoize('a',t-self.dt)`, `+` is `"{} + {}"` -/
def renderJ : JIR → List Tok
  | .nothing => []
  | .ident a => pr (memoPy a .prev)
  | .plus l r => renderJ l ++ Tok.op .add :: renderJ r

/-! #### (wave 5) the IR that `StockExpressions` builds for the net flow of a stock, for ANY lists of inflows and outflows

`inflows = JoinedExpression(entity["inflow"], "+")`, `outflows = JoinedExpression(entity["outflow"], "+")`, then one of
four branches: only inflows `()[in]`, only outflows `()[* [-1, ()[out]]]`, none `0`, both `()[- [in, ()[out]]]`. -/

inductive SIR
  | nothing                                  -- `{"type": "nothing"}` (JoinedExpression of no names)
  | zero                                     -- `sum = 0`
  | minus1                                   -- the literal `-1`
  | ident (s : String)
  | op (k : Bptk.Py.BinOp) (l r : SIR)       -- `{"name": "+" | "-" | "*", "type": "operator", "args": [l, r]}`
  | paren (e : SIR)                          -- `{"name": "()", "type": "operator", "args": [e]}`
deriving Repr, Inhabited, DecidableEq

/-- `JoinedExpression(names, "+")`: nested to the right by the `reduce` loop over `reversed(rest)` -/
def joinedS : List String → SIR
  | [] => .nothing
  | [a] => .ident a
  | a :: b :: r => .op .add (.ident a) (joinedS (b :: r))

/-- the `sum` node of `StockExpressions`; `inner = false` is the builder WITHOUT the `()` node around the joined outflows
in the only-outflows branch (seeded defect `C04r3-outflow-sum-parens`) -/
def sumSWith (inner : Bool) : List String → List String → SIR
  | [], [] => .zero
  | i :: is, [] => .paren (joinedS (i :: is))
  | [], o :: os => .paren (.op .mul .minus1 (if inner then .paren (joinedS (o :: os)) else joinedS (o :: os)))
  | i :: is, o :: os => .paren (.op .sub (joinedS (i :: is)) (.paren (joinedS (o :: os))))

def sumS : List String → List String → SIR := sumSWith true

open Bptk.Py in
/-- tokens `parseExpression` emits for that IR inside `PREVIOUS(…)`: identifiers become `self.memoize('a',t-self.dt)`,
infix operators are `"{} op {}"`, `()` is `( {} )`, numbers are their text -/
def renderS : SIR → List Tok
  | .nothing => []
  | .zero => [Tok.num "0"]
  | .minus1 => [Tok.op .sub, Tok.num "1"]
  | .ident a => pr (memoPy a .prev)
  | .op k l r => renderS l ++ Tok.op k :: renderS r
  | .paren e => Tok.lp :: (renderS e ++ [Tok.rp])

open Bptk.Py in
/-- the whole stock equation as emitted: the fixed frame `( (init) if (t <= self.starttime) else (PREVIOUS(s) + DT * PREVIOUS(sum)) )`
around the rendered `sum` node -/
def stockToks (s : String) (init : List Tok) (net : List Tok) : List Tok :=
  [Tok.lp, Tok.lp] ++ init ++ [Tok.rp, Tok.kif, Tok.lp, Tok.name "t", Tok.op .le, Tok.name "self", Tok.dot, Tok.name "starttime",
    Tok.rp, Tok.kelse, Tok.lp] ++ pr (memoPy s .prev) ++ [Tok.op .add, Tok.name "self", Tok.dot, Tok.name "dt", Tok.op .mul] ++ net
    ++ [Tok.rp, Tok.rp]

/-- one probe of the real builder: names of the stock / inflows / outflows, the `sum` node it built, the tokens emitted
for the stock (initial value `7.5`) -/
structure BProbe where
  s : String
  ins : List String
  outs : List String
  ir : SIR
  toks : List Bptk.Py.Tok

open Bptk.Py in
def bprobeOK (e : BProbe) : Bool :=
  decide (e.ir = sumS e.ins e.outs) && decide (e.toks = stockToks e.s [Tok.num "7.5"] (renderS e.ir))

/-- every probe is the model's IR and text, and each of the four branches is probed with one, two and more names -/
def builderOK (ps : List BProbe) : Bool :=
  ps.all bprobeOK &&
    [(0, 0), (1, 0), (2, 0), (3, 0), (0, 1), (0, 2), (0, 3), (1, 1), (2, 2), (3, 3)].all
      (fun (a, b) => ps.any (fun e => e.ins.length == a && e.outs.length == b))

open Bptk.Py in
/-- wave-2 probe of larger shapes (run by the driver, any n): the emitted tokens are exactly the intended
text of a stock `e0` with initial value `7.5`, inflows `e1..e<nin>`, outflows after them -/
def skeletonTextOK (nin nout : Nat) (toks : List Tok) : Bool :=
  decide (toks = pr (skelPyP (nmG 0) (.num "7.5") ((flowIxs 1 nin).map nmG) ((flowIxs (1 + nin) nout).map nmG)))

open Bptk.Py in
/-- the same for a NON-NEGATIVE stock: the initial value is `max([0 , 7.5])`, nothing else changes -/
def skeletonTextNNOK (nin nout : Nat) (toks : List Tok) : Bool :=
  decide (toks = pr (skelPyP (nmG 0) (nnPy (.num "7.5")) ((flowIxs 1 nin).map nmG) ((flowIxs (1 + nin) nout).map nmG)))

open Bptk.Py in
/-- one probed skeleton `(nin, nout, tokens)`: the stock is `e0` with initial value `7.5`, inflows
`e1..`, outflows after them.  The emitted tokens are exactly the intended text, that text is
well-levelled (so it parses to the intended tree, `parse_print`), and the tree denotes the `Tm` code that
`compile` assigns to such a stock. -/
def skeletonOK (e : Nat × Nat × List Tok) : Bool :=
  let ins := flowIxs 1 e.1
  let outs := flowIxs (1 + e.1) e.2.1
  let p := skelPyP (nmS 0) (.num "7.5") (ins.map nmS) (outs.map nmS)
  decide (e.2.2 = pr p) && WLb 0 p &&
    decide (tmOfPy ixTable (erase p) = some (stockTm 0 (.lit "7.5") ins outs))

open Bptk.Py in
def skeletonsOK (sk : List (Nat × Nat × List Tok)) : Bool :=
  sk.all skeletonOK &&
    (List.range 4).all (fun i => (List.range 4).all (fun o => sk.any (fun e => e.1 == i && e.2.1 == o)))

/-- literals and tables replaced by their text / dropped: the shape of the code, for comparison with the
denotation of the emitted Python -/
def Tm.shape (f : α → String) : Tm α → Tm String
  | .lit a => .lit (f a)
  | .int i => .int i
  | .dt => .dt
  | .time => .time
  | .memo n te => .memo n te
  | .bin o l r => .bin o (l.shape f) (r.shape f)
  | .mx l r => .mx (l.shape f) (r.shape f)
  | .mn l r => .mn (l.shape f) (r.shape f)
  | .ite c a b x y => .ite c (a.shape f) (b.shape f) (x.shape f) (y.shape f)
  | .ifStart x y => .ifStart (x.shape f) (y.shape f)
  | .lerp e _ => .lerp (e.shape f) []

end Bptk.C04
