/-
C11 — event delivery of `BPTK_Py.modeling`: `Model.enqueue_event` / `broadcast_event`,
`SimultaneousScheduler.run_step` (distribution phase, agent phase, re-queueing of delayed events),
`Scheduler.handle_delayed_event`, `Agent.receive_event` / `handle_events`, and the population operations
`create_agent`, `delete_agents`, `configure_agents`, `reset`.

Executable model, import-free.  It mirrors the code *with the three C11 repairs applied*
(fixes/C11-route-by-id, C11-delay-step-count, C11-requeue-fifo):

* `model.events` is a Python list; `run_step` takes events with `pop()` (from the END) — `events.reverse`;
* a `DelayedEvent` whose remaining number of steps is positive is put into `scheduler.delayed_events`
  (appended, i.e. in pop order) with the count reduced by one; delays are a number of steps here — the
  conversion `ceil(delay/dt)` is `stepsOf` below;
* any other event is looked up **by id** (first agent of the list with `id = receiver_id`) and appended to that
  agent's inbox (`Agent.events`), or dropped when no agent has the id;
* then every agent, in list order, drains its inbox with `pop()` (from the END again) and runs the handler;
* at the end the delayed events are put back in front of `model.events` in their original order
  (`model.events[:0] = reversed(delayed_events)`); events sent during the step were appended meanwhile —
  in the model a `send` is an operation that follows the `step` in the history.

Ghost data (not in the Python objects; the harness carries `seq` in `event.data`): `Msg.seq`, `Msg.sentAt`,
`Msg.delay`, the lists `log`, `dropped`, `sent`, and the `live` field of the log records (ids of the
population at the moment of the step).
Not modelled in the base machine `State`/`Op`/`step`: agent states without a handler table / event names
without handler (every base agent has a handler for the one base event name), sender ids, payloads.

Wave 2 (below the base machine, which is unchanged):
* `Eff`/`Prog`/`midStep` — a step during which `act()` and the handlers change the population and send
  (`for agent in model.agents` iterates the list object bound at loop entry, C12's `aliased`/`todo`);
  `Bptk.C11.midStep_linear` proves it equal to the atomic `stepFn` followed by the same effects as operations.
* `XState`/`XOp`/`xstep` — handler tables (`Agent.eventHandlers[state][name]`), states without a table (the
  inbox is kept), names without handler (popped and discarded: the inner `except KeyError`), handlers that
  raise (`KeyError` is swallowed = the handler ran; any other exception leaves `run_step`: the rest of the
  inbox, the inboxes of the later agents and `scheduler.delayed_events` stay where they are).
-/
namespace Bptk.C11

/-- The immutable part of an event. `seq`: global send number; `rid`: `receiver_id`; `sentAt`: number of
completed steps when it was sent (= the index of the step during which it was sent); `delay`: the delay in
whole steps (0 for a plain `Event`). -/
structure Msg where
  seq : Nat
  rid : Nat
  sentAt : Nat
  delay : Nat
  /-- wave 2: `event.name` (0 = the name every wave-1 agent has a handler for) -/
  name : Nat := 0
  /-- wave 2: the handler that runs for this event raises an exception other than `KeyError` -/
  raises : Bool := false
deriving DecidableEq, Repr

/-- A queued event: `remaining` = steps the scheduler still keeps it back. -/
structure Ev where
  msg : Msg
  remaining : Nat
deriving DecidableEq, Repr

structure Agent where
  id : Nat
  ty : Nat
  inbox : List Ev
deriving DecidableEq, Repr

/-- A handler invocation: in step `step` the agent with id `agent` handled `msg`; `live` = ids alive then. -/
structure Handled where
  step : Nat
  agent : Nat
  msg : Msg
  live : List Nat
deriving DecidableEq, Repr

/-- An event discarded by the distribution phase of step `step` because nobody had the id. -/
structure Dropped where
  step : Nat
  msg : Msg
  live : List Nat
deriving DecidableEq, Repr

structure State where
  agents : List Agent      -- Model.agents, list order
  next : Nat               -- Model.next_agent_id
  events : List Ev         -- Model.events, list order
  now : Nat                -- number of completed steps
  nextSeq : Nat            -- ghost
  log : List Handled       -- ghost, chronological
  dropped : List Dropped   -- ghost
  sent : List Msg          -- ghost, in send order
deriving Repr

def State.init : State :=
  { agents := [], next := 0, events := [], now := 0, nextSeq := 0, log := [], dropped := [], sent := [] }

inductive Op where
  | create (ty : Nat)                      -- create_agent
  | delete (ids : List Nat)                -- delete_agents(ids)
  | configure (spec : List (Nat × Nat))    -- configure_agents([{name, count}…]): removes all agents first
  | reset                                  -- reset(): removes all agents (model.events is kept)
  | send (rid : Nat) (delay : Nat)         -- enqueue_event(Event / DelayedEvent to rid), delay in steps
  | broadcast (ty : Nat) (delay : Nat)     -- broadcast_event(type, factory)
  | randomEvents (ty num delay : Nat) (draws : List Nat)   -- random_events(type, num, factory); `draws`: the random indices
  | step                                   -- scheduler.run_step
deriving Repr

/-! ### population -/

def create (s : State) (ty : Nat) : State :=
  { s with agents := s.agents ++ [{ id := s.next, ty := ty, inbox := [] }], next := s.next + 1 }

def createN (s : State) (ty : Nat) : Nat → State
  | 0 => s
  | n + 1 => createN (create s ty) ty n

def createSpec (s : State) : List (Nat × Nat) → State
  | [] => s
  | (ty, n) :: rest => createSpec (createN s ty n) rest

def delete (s : State) (ids : List Nat) : State :=
  { s with agents := s.agents.filter (fun a => !ids.contains a.id) }

def clear (s : State) : State := { s with agents := [] }

/-- `agent_type_map[ty]` (C14 proves it is this projection of the live population). -/
def idsOfType (as : List Agent) (ty : Nat) : List Nat :=
  (as.filter (fun a => a.ty == ty)).map (·.id)

/-! ### sending -/

def send (s : State) (rid delay : Nat) : State :=
  let m : Msg := { seq := s.nextSeq, rid := rid, sentAt := s.now, delay := delay }
  { s with events := s.events ++ [{ msg := m, remaining := delay }]
           nextSeq := s.nextSeq + 1
           sent := s.sent ++ [m] }

def sendAll (s : State) (delay : Nat) : List Nat → State
  | [] => s
  | i :: rest => sendAll (send s i delay) delay rest

def broadcast (s : State) (ty delay : Nat) : State := sendAll s delay (idsOfType s.agents ty)

/-- `random_agents(type, num)`: `min(num, n)` draws `agent_map[get_random_integer(0, n - 1)]` from the type's id list
(`n` its length). The random integers are an oracle: the `j`-th one is `draws[j]` (0 if the list is too short),
reduced into `0..n-1` — `get_random_integer(0, n-1) = round(random()*(n-1))` always lies in that range. -/
def pick (ids : List Nat) (num : Nat) (draws : List Nat) : List Nat :=
  (List.range (min num ids.length)).map (fun j => ids.getD (draws.getD j 0 % ids.length) 0)

/-- `random_events(type, num, factory)`: one event per drawn id, in draw order -/
def randomEvents (s : State) (ty num delay : Nat) (draws : List Nat) : State :=
  sendAll s delay (pick (idsOfType s.agents ty) num draws)

/-! ### one scheduler step -/

/-- `agents_by_id.get(rid).receive_event(e)`: the first agent with that id gets `e` appended to its inbox. -/
def deliver : List Agent → Ev → List Agent
  | [], _ => []
  | a :: rest, e =>
    if a.id = e.msg.rid then { a with inbox := a.inbox ++ [e] } :: rest else a :: deliver rest e

def hasId (as : List Agent) (i : Nat) : Bool := (as.map (·.id)).contains i

def dec (e : Ev) : Ev := { e with remaining := e.remaining - 1 }

/-- accumulator of the distribution loop: inboxes, `scheduler.delayed_events`, ghost drop records -/
structure Dist where
  agents : List Agent
  delayed : List Ev
  dropped : List Dropped
deriving Repr

/-- body of `while len(model.events) > 0` for the popped event `e` -/
def distOne (now : Nat) (d : Dist) (e : Ev) : Dist :=
  if 0 < e.remaining then { d with delayed := d.delayed ++ [dec e] }
  else if hasId d.agents e.msg.rid then { d with agents := deliver d.agents e }
  else { d with dropped := d.dropped ++ [{ step := now, msg := e.msg, live := d.agents.map (·.id) }] }

/-- `Agent.handle_events`: `pop()` until the inbox is empty -/
def handleAgent (now : Nat) (live : List Nat) (a : Agent) : List Handled :=
  a.inbox.reverse.map (fun e => { step := now, agent := a.id, msg := e.msg, live := live })

def clearInbox (a : Agent) : Agent := { a with inbox := [] }

def stepFn (s : State) : State :=
  let now := s.now + 1
  let d := s.events.reverse.foldl (distOne now) { agents := s.agents, delayed := [], dropped := [] }
  { s with now := now
           agents := d.agents.map clearInbox
           log := s.log ++ d.agents.flatMap (handleAgent now (s.agents.map (·.id)))
           dropped := s.dropped ++ d.dropped
           events := d.delayed.reverse }

def step (s : State) : Op → State
  | .create ty => create s ty
  | .delete ids => delete s ids
  | .configure spec => createSpec (clear s) spec
  | .reset => clear s
  | .send rid delay => send s rid delay
  | .broadcast ty delay => broadcast s ty delay
  | .randomEvents ty num delay draws => randomEvents s ty num delay draws
  | .step => stepFn s

def run (s : State) (ops : List Op) : State := ops.foldl step s


/-! ## Wave 2a — population changes and sends DURING a step (from `act()` and from handlers)

`run_step` builds `agents_by_id` and distributes the events, then runs `for agent in model.agents:
agent.handle_events(…); agent.act(…)`.  The `for` iterates the list object bound at loop entry (C12):
`create_agent` appends to `model.agents`, i.e. to the iterated object while it is still the same object
(`aliased`) — the new agent gets its turn in this very step, with an empty inbox; `delete_agents`,
`configure_agents` and `reset` REBIND `model.agents`, the iterated object is frozen from then on: an agent
deleted during the step still handles the events that were distributed to it at the start of the step.
Events sent during the step are appended to `model.events`, the delayed events are put back in front of them
at the end of the step. -/

/-- what user code can do to the model from `act()` / from a handler -/
inductive Eff where
  | create (ty : Nat)
  | delete (ids : List Nat)
  | configure (spec : List (Nat × Nat))
  | reset
  | send (rid delay : Nat)
  | broadcast (ty delay : Nat)
deriving Repr

def Eff.toOp : Eff → Op
  | .create ty => .create ty
  | .delete ids => .delete ids
  | .configure spec => .configure spec
  | .reset => .reset
  | .send r d => .send r d
  | .broadcast t d => .broadcast t d

/-- user code: what the handler of an event does, what `act()` of agent `id` does in step `now` -/
structure Prog where
  onEvent : Msg → List Eff
  onAct : Nat → Nat → List Eff

structure Loop where
  st : State             -- the model (`st.agents` = `model.agents`, inboxes shown empty: they are in `todo`)
  todo : List Agent      -- rest of the iterated list object: agent objects with their inboxes
  aliased : Bool         -- the iterated object is still `model.agents`
  done : List Eff        -- ghost: effects executed so far, in execution order

def effStep (l : Loop) (e : Eff) : Loop :=
  match e with
  | .create ty =>
    { st := step l.st e.toOp
      todo := if l.aliased then l.todo ++ [{ id := l.st.next, ty := ty, inbox := [] }] else l.todo
      aliased := l.aliased, done := l.done ++ [e] }
  | .delete _ => { st := step l.st e.toOp, todo := l.todo, aliased := false, done := l.done ++ [e] }
  | .configure _ => { st := step l.st e.toOp, todo := l.todo, aliased := false, done := l.done ++ [e] }
  | .reset => { st := step l.st e.toOp, todo := l.todo, aliased := false, done := l.done ++ [e] }
  | .send _ _ => { st := step l.st e.toOp, todo := l.todo, aliased := l.aliased, done := l.done ++ [e] }
  | .broadcast _ _ => { st := step l.st e.toOp, todo := l.todo, aliased := l.aliased, done := l.done ++ [e] }

def addLog (s : State) (L : List Handled) : State := { s with log := s.log ++ L }

/-- one iteration of `while len(self.events) > 0` in `handle_events`: the handler runs (log), then does its effects -/
def handleOne (P : Prog) (now : Nat) (live : List Nat) (aid : Nat) (l : Loop) (e : Ev) : Loop :=
  (P.onEvent e.msg).foldl effStep
    { l with st := addLog l.st [{ step := now, agent := aid, msg := e.msg, live := live }] }

/-- `agent.handle_events(…); agent.act(…)` -/
def agentTurn (P : Prog) (now : Nat) (live : List Nat) (l : Loop) (a : Agent) : Loop :=
  (P.onAct now a.id).foldl effStep (a.inbox.reverse.foldl (handleOne P now live a.id) l)

/-- the `for agent in model.agents` loop; `fuel` bounds it (agents that create agents that create … never
leave the loop in Python); second component: ran out of fuel -/
def midLoop (P : Prog) (now : Nat) (live : List Nat) : Nat → Loop → Loop × Bool
  | 0, l => (l, !l.todo.isEmpty)
  | f + 1, l =>
    match l.todo with
    | [] => (l, false)
    | a :: rest => midLoop P now live f (agentTurn P now live { l with todo := rest } a)

structure MidOut where
  st : State
  stuck : Bool
  done : List Eff

/-- the distribution phase of `run_step` (as in `stepFn`) -/
def distOf (s : State) : Dist :=
  s.events.reverse.foldl (distOne (s.now + 1)) { agents := s.agents, delayed := [], dropped := [] }

/-- the model when the agent loop is entered: all events popped, inboxes (shown in `todo`) filled -/
def afterDist (s : State) (d : Dist) : State :=
  { s with now := s.now + 1, agents := d.agents.map clearInbox, dropped := s.dropped ++ d.dropped, events := [] }

/-- `run_step` with user code `P` -/
def midStep (P : Prog) (fuel : Nat) (s : State) : MidOut :=
  let d := distOf s
  let r := midLoop P (s.now + 1) (s.agents.map (·.id)) fuel
    { st := afterDist s d, todo := d.agents, aliased := true, done := [] }
  { st := { r.1.st with events := d.delayed.reverse ++ r.1.st.events }, stuck := r.2, done := r.1.done }

/-- histories whose steps carry user code -/
inductive MOp where
  | op (o : Op)
  | stepWith (P : Prog) (fuel : Nat)

structure MState where
  st : State
  stuck : Bool

def mstep (m : MState) : MOp → MState
  | .op o => { m with st := step m.st o }
  | .stepWith P fuel => let r := midStep P fuel m.st; { st := r.st, stuck := m.stuck || r.stuck }

def mrun (m : MState) (ops : List MOp) : MState := ops.foldl mstep m

/-- the same history with every mid-step effect moved behind its step, as an operation -/
def linearise : State → List MOp → List Op
  | _, [] => []
  | s, .op o :: rest => o :: linearise (step s o) rest
  | s, .stepWith P fuel :: rest =>
    (.step :: (midStep P fuel s).done.map Eff.toOp) ++ linearise (midStep P fuel s).st rest

/-! ## Wave 2b — handler tables, states without a table, names without handler, handlers that raise

`Agent.handle_events`:
```
try:
    handlers = self.eventHandlers[self.state]          # KeyError: state without table -> nothing is popped
    while len(self.events) > 0:
        event = self.events.pop()
        try: handlers[event.name](event)                # KeyError (no such name, or raised inside the handler): swallowed
        except KeyError: pass
except KeyError: pass
```
Any other exception raised by a handler leaves `handle_events` and `run_step`: the event was popped, the rest of
the inbox, the later agents' inboxes and `scheduler.delayed_events` stay; the next `run_step` that completes puts
`delayed_events` (old ones first, in `pop()` order) back: `model.events[:0] = reversed(delayed_events)`.
The machine is the base `State` plus side data; the distribution phase is the base one. -/

/-- `agent.state` and `agent.eventHandlers` as rows (state, names that have a handler) -/
structure Meta where
  state : Nat
  tbl : List (Nat × List Nat)
deriving DecidableEq, Repr

/-- a base agent: state 0 ("active"), handler for name 0 ("ev") in state 0 -/
def stdMeta : Meta := { state := 0, tbl := [(0, [0])] }

def Meta.handlers (m : Meta) : Option (List Nat) := m.tbl.lookup m.state

structure XState where
  s : State                    -- the base machine's state; inboxes may be non-empty between steps here
  ameta : List (Nat × Meta)    -- by agent id (ids are never reused), latest entry first; no entry = `stdMeta`
  stash : List Ev              -- `scheduler.delayed_events` left behind by steps that raised
  ignored : List Handled       -- ghost: popped by the addressed agent, no handler of that name
  lost : List Ev               -- ghost: still in the inbox of an agent when it was deleted / the population cleared
  aborted : List Nat           -- ghost: steps that ended with an exception
deriving Repr

def XState.init : XState := { s := State.init, ameta := [], stash := [], ignored := [], lost := [], aborted := [] }

def XState.metaOf (x : XState) (i : Nat) : Meta := (x.ameta.lookup i).getD stdMeta

inductive XOp where
  | base (o : Op)                                   -- the base operations (agents created with `stdMeta`)
  | createT (ty : Nat) (m : Meta)                   -- an agent whose `initialize()` registers `m.tbl`, state `m.state`
  | setState (id st : Nat)                          -- `agent.state = st`
  | sendX (rid delay name : Nat) (raises : Bool)    -- event with a name / whose handler raises
deriving Repr

def sendX (s : State) (rid delay name : Nat) (raises : Bool) : State :=
  let m : Msg := { seq := s.nextSeq, rid := rid, sentAt := s.now, delay := delay, name := name, raises := raises }
  { s with events := s.events ++ [{ msg := m, remaining := delay }]
           nextSeq := s.nextSeq + 1
           sent := s.sent ++ [m] }

/-- result of draining one inbox -/
structure Drain where
  log : List Handled      -- handler ran
  ign : List Handled      -- popped, no handler of that name
  rest : List Ev          -- not popped (in `pop()` order)
  raised : Bool

/-- the `while` loop of `handle_events` over the inbox in `pop()` order, `names` = keys of `handlers` -/
def drain (names : List Nat) (mk : Ev → Handled) : List Ev → Drain
  | [] => { log := [], ign := [], rest := [], raised := false }
  | e :: rest =>
    if names.contains e.msg.name then
      if e.msg.raises then { log := [mk e], ign := [], rest := rest, raised := true }
      else let r := drain names mk rest; { r with log := mk e :: r.log }
    else let r := drain names mk rest; { r with ign := mk e :: r.ign }

structure Phase where
  agents : List Agent
  log : List Handled
  ign : List Handled
  raised : Bool

def mkHandled (now : Nat) (live : List Nat) (aid : Nat) (e : Ev) : Handled :=
  { step := now, agent := aid, msg := e.msg, live := live }

/-- the agent loop of `run_step` (atomic: effects of user code are operations that follow the step) -/
def phase (now : Nat) (live : List Nat) (metaOf : Nat → Meta) : List Agent → Phase
  | [] => { agents := [], log := [], ign := [], raised := false }
  | a :: rest =>
    match (metaOf a.id).handlers with
    | none => let r := phase now live metaOf rest; { r with agents := a :: r.agents }
    | some names =>
      let d := drain names (mkHandled now live a.id) a.inbox.reverse
      if d.raised then
        { agents := { a with inbox := d.rest.reverse } :: rest, log := d.log, ign := d.ign, raised := true }
      else
        let r := phase now live metaOf rest
        { agents := { a with inbox := [] } :: r.agents, log := d.log ++ r.log, ign := d.ign ++ r.ign, raised := r.raised }

/-- `run_step` after the distribution phase `d` -/
def xafter (x : XState) (d : Dist) : XState :=
  let now := x.s.now + 1
  let live := x.s.agents.map (·.id)
  let p := phase now live x.metaOf d.agents
  let held := x.stash ++ d.delayed
  { x with
    s := { x.s with now := now, agents := p.agents, log := x.s.log ++ p.log
                    dropped := x.s.dropped ++ d.dropped
                    events := if p.raised then [] else held.reverse }
    stash := if p.raised then held else []
    ignored := x.ignored ++ p.ign
    aborted := if p.raised then x.aborted ++ [now] else x.aborted }

def xstepFn (x : XState) : XState := xafter x (distOf x.s)

def inboxesOf (as : List Agent) : List Ev := as.flatMap (·.inbox)

def xstep (x : XState) : XOp → XState
  | .base .step => xstepFn x
  | .base (.delete ids) =>
    { x with s := delete x.s ids, lost := x.lost ++ inboxesOf (x.s.agents.filter (fun a => ids.contains a.id)) }
  | .base (.configure spec) => { x with s := createSpec (clear x.s) spec, lost := x.lost ++ inboxesOf x.s.agents }
  | .base .reset => { x with s := clear x.s, lost := x.lost ++ inboxesOf x.s.agents }
  | .base o => { x with s := step x.s o }
  | .createT ty m => { x with s := create x.s ty, ameta := (x.s.next, m) :: x.ameta }
  | .setState i st => { x with ameta := (i, { x.metaOf i with state := st }) :: x.ameta }
  | .sendX rid delay name raises => { x with s := sendX x.s rid delay name raises }

def xrun (x : XState) (ops : List XOp) : XState := ops.foldl xstep x

/-! ## Wave 7 — receiver ids that are not naturals; two models alive at once

`Event` accepts any int or float as `receiver_id`.  The repaired scheduler looks the receiver up by EQUALITY
(`agents_by_id.get(receiver_id)`): a float equal to an id is that id, a negative or fractional number is nobody's
id and the event is dropped; positional routing `model.agents[receiver_id]` would hand a negative id to an agent
counted from the END of the list.  The queue `model.events`, the inboxes and `scheduler.delayed_events` are instance
attributes: two models in one process do not see each other's events (`queuePerModel`). -/

/-- Python's `agents[i]` for an int `i` -/
def pyIndex (as : List Agent) (i : Int) : Option Nat :=
  if 0 ≤ i then (as[i.toNat]?).map (·.id)
  else if i.natAbs ≤ as.length then (as[as.length - i.natAbs]?).map (·.id) else none

/-- lookup by id equality for an arbitrary integer receiver id -/
def byIdInt (as : List Agent) (i : Int) : Option Nat :=
  if 0 ≤ i then (if hasId as i.toNat then some i.toNat else none) else none

structure TwoS where
  a : State
  b : State

def stepTwoS (perModel : Bool) (t : TwoS) (x : Bool × Op) : TwoS :=
  if x.1 then
    let a' := step t.a x.2
    { a := a', b := if perModel then t.b else { t.b with events := a'.events } }
  else
    let b' := step t.b x.2
    { a := if perModel then t.a else { t.a with events := b'.events }, b := b' }

def runTwoS (perModel : Bool) (t : TwoS) (ops : List (Bool × Op)) : TwoS := ops.foldl (stepTwoS perModel) t

def opsForS (who : Bool) (ops : List (Bool × Op)) : List Op := (ops.filter (fun x => x.1 == who)).map (·.2)

/-! ### delay in time units → delay in steps

`delay = dn/dd`, `dt = tn/td` (decimal readings of the Python numbers, as fractions of naturals).
`stepsOf` is `ceil(delay/dt)`; `Bptk.Props.C11.stepsOf_least` proves it is the least `k` with `k·dt ≥ delay`. -/
def stepsOf (dn dd tn td : Nat) : Nat := (dn * td + dd * tn - 1) / (dd * tn)

/-! ### wave 9: counting the delay in "steps per round"

`SimultaneousScheduler.run_step` knows `steps_per_round = round(1 / dt)`.  Counting a delay as
`ceil(delay · steps_per_round)` agrees with `ceil(delay / dt)` only when `1/dt` is a whole number. -/

/-- Python's `round(n / d)` for naturals (ties to even) -/
def roundNat (n d : Nat) : Nat :=
  let q := n / d
  let r := n % d
  if 2 * r < d then q else if d < 2 * r then q + 1 else if q % 2 = 0 then q else q + 1

/-- `round(1 / dt)` for `dt = tn/td` -/
def stepsPerRound (tn td : Nat) : Nat := roundNat td tn

/-- `ceil(delay · steps_per_round)` for `delay = dn/dd` -/
def stepsBySpr (dn dd tn td : Nat) : Nat := (dn * stepsPerRound tn td + dd - 1) / dd

/-- one probed row: delay `dn/dd`, dt `tn/td`, and the number of steps the real scheduler kept the event back -/
structure StepRow where
  dn : Nat
  dd : Nat
  tn : Nat
  td : Nat
  probed : Nat
deriving Repr

def StepRow.ok (r : StepRow) : Bool := r.dd != 0 && r.tn != 0 && r.td != 0 && stepsOf r.dn r.dd r.tn r.td == r.probed

end Bptk.C11
