/-
C11 — event delivery of `BPTK_Py.modeling`: `Model.enqueue_event` / `broadcast_event`,
`SimultaneousScheduler.run_step` (distribution phase, agent phase, re-queueing of delayed events),
`Scheduler.handle_delayed_event`, `Agent.receive_event` / `handle_events`, and the population operations
`create_agent`, `delete_agents`, `configure_agents`, `reset`.

Executable model, import-free.  It mirrors the code *with the three C11 repairs applied*
(fixes/C11-route-by-id, C11-delay-step-count, C11-requeue-fifo):

* `model.events` is a Python list; `run_step` takes events with `pop()` (from the END) — `events.reverse`;
* a `DelayedEvent` whose remaining number of steps is positive is put into `scheduler.delayed_events`
  (appended, i.e. in pop order) with the count reduced by one; delays are a number of steps here — the
  conversion `ceil(delay/dt)` is `stepsOf` below;
* any other event is looked up **by id** (first agent of the list with `id = receiver_id`) and appended to that
  agent's inbox (`Agent.events`), or dropped when no agent has the id;
* then every agent, in list order, drains its inbox with `pop()` (from the END again) and runs the handler;
* at the end the delayed events are put back in front of `model.events` in their original order
  (`model.events[:0] = reversed(delayed_events)`); events sent during the step were appended meanwhile —
  in the model a `send` is an operation that follows the `step` in the history.

Ghost data (not in the Python objects; the harness carries `seq` in `event.data`): `Msg.seq`, `Msg.sentAt`,
`Msg.delay`, the lists `log`, `dropped`, `sent`, and the `live` field of the log records (ids of the
population at the moment of the step).
Not modelled: agent states without a handler table / event names without handler (the harness registers a
handler for every state and event name it uses), sender ids, payloads.
-/
namespace Bptk.C11

/-- The immutable part of an event. `seq`: global send number; `rid`: `receiver_id`; `sentAt`: number of
completed steps when it was sent (= the index of the step during which it was sent); `delay`: the delay in
whole steps (0 for a plain `Event`). -/
structure Msg where
  seq : Nat
  rid : Nat
  sentAt : Nat
  delay : Nat
deriving DecidableEq, Repr

/-- A queued event: `remaining` = steps the scheduler still keeps it back. -/
structure Ev where
  msg : Msg
  remaining : Nat
deriving DecidableEq, Repr

structure Agent where
  id : Nat
  ty : Nat
  inbox : List Ev
deriving DecidableEq, Repr

/-- A handler invocation: in step `step` the agent with id `agent` handled `msg`; `live` = ids alive then. -/
structure Handled where
  step : Nat
  agent : Nat
  msg : Msg
  live : List Nat
deriving DecidableEq, Repr

/-- An event discarded by the distribution phase of step `step` because nobody had the id. -/
structure Dropped where
  step : Nat
  msg : Msg
  live : List Nat
deriving DecidableEq, Repr

structure State where
  agents : List Agent      -- Model.agents, list order
  next : Nat               -- Model.next_agent_id
  events : List Ev         -- Model.events, list order
  now : Nat                -- number of completed steps
  nextSeq : Nat            -- ghost
  log : List Handled       -- ghost, chronological
  dropped : List Dropped   -- ghost
  sent : List Msg          -- ghost, in send order
deriving Repr

def State.init : State :=
  { agents := [], next := 0, events := [], now := 0, nextSeq := 0, log := [], dropped := [], sent := [] }

inductive Op where
  | create (ty : Nat)                      -- create_agent
  | delete (ids : List Nat)                -- delete_agents(ids)
  | configure (spec : List (Nat × Nat))    -- configure_agents([{name, count}…]): removes all agents first
  | reset                                  -- reset(): removes all agents (model.events is kept)
  | send (rid : Nat) (delay : Nat)         -- enqueue_event(Event / DelayedEvent to rid), delay in steps
  | broadcast (ty : Nat) (delay : Nat)     -- broadcast_event(type, factory)
  | step                                   -- scheduler.run_step
deriving Repr

/-! ### population -/

def create (s : State) (ty : Nat) : State :=
  { s with agents := s.agents ++ [{ id := s.next, ty := ty, inbox := [] }], next := s.next + 1 }

def createN (s : State) (ty : Nat) : Nat → State
  | 0 => s
  | n + 1 => createN (create s ty) ty n

def createSpec (s : State) : List (Nat × Nat) → State
  | [] => s
  | (ty, n) :: rest => createSpec (createN s ty n) rest

def delete (s : State) (ids : List Nat) : State :=
  { s with agents := s.agents.filter (fun a => !ids.contains a.id) }

def clear (s : State) : State := { s with agents := [] }

/-- `agent_type_map[ty]` (C14 proves it is this projection of the live population). -/
def idsOfType (as : List Agent) (ty : Nat) : List Nat :=
  (as.filter (fun a => a.ty == ty)).map (·.id)

/-! ### sending -/

def send (s : State) (rid delay : Nat) : State :=
  let m : Msg := { seq := s.nextSeq, rid := rid, sentAt := s.now, delay := delay }
  { s with events := s.events ++ [{ msg := m, remaining := delay }]
           nextSeq := s.nextSeq + 1
           sent := s.sent ++ [m] }

def sendAll (s : State) (delay : Nat) : List Nat → State
  | [] => s
  | i :: rest => sendAll (send s i delay) delay rest

def broadcast (s : State) (ty delay : Nat) : State := sendAll s delay (idsOfType s.agents ty)

/-! ### one scheduler step -/

/-- `agents_by_id.get(rid).receive_event(e)`: the first agent with that id gets `e` appended to its inbox. -/
def deliver : List Agent → Ev → List Agent
  | [], _ => []
  | a :: rest, e =>
    if a.id = e.msg.rid then { a with inbox := a.inbox ++ [e] } :: rest else a :: deliver rest e

def hasId (as : List Agent) (i : Nat) : Bool := (as.map (·.id)).contains i

def dec (e : Ev) : Ev := { e with remaining := e.remaining - 1 }

/-- accumulator of the distribution loop: inboxes, `scheduler.delayed_events`, ghost drop records -/
structure Dist where
  agents : List Agent
  delayed : List Ev
  dropped : List Dropped
deriving Repr

/-- body of `while len(model.events) > 0` for the popped event `e` -/
def distOne (now : Nat) (d : Dist) (e : Ev) : Dist :=
  if 0 < e.remaining then { d with delayed := d.delayed ++ [dec e] }
  else if hasId d.agents e.msg.rid then { d with agents := deliver d.agents e }
  else { d with dropped := d.dropped ++ [{ step := now, msg := e.msg, live := d.agents.map (·.id) }] }

/-- `Agent.handle_events`: `pop()` until the inbox is empty -/
def handleAgent (now : Nat) (live : List Nat) (a : Agent) : List Handled :=
  a.inbox.reverse.map (fun e => { step := now, agent := a.id, msg := e.msg, live := live })

def clearInbox (a : Agent) : Agent := { a with inbox := [] }

def stepFn (s : State) : State :=
  let now := s.now + 1
  let d := s.events.reverse.foldl (distOne now) { agents := s.agents, delayed := [], dropped := [] }
  { s with now := now
           agents := d.agents.map clearInbox
           log := s.log ++ d.agents.flatMap (handleAgent now (s.agents.map (·.id)))
           dropped := s.dropped ++ d.dropped
           events := d.delayed.reverse }

def step (s : State) : Op → State
  | .create ty => create s ty
  | .delete ids => delete s ids
  | .configure spec => createSpec (clear s) spec
  | .reset => clear s
  | .send rid delay => send s rid delay
  | .broadcast ty delay => broadcast s ty delay
  | .step => stepFn s

def run (s : State) (ops : List Op) : State := ops.foldl step s

/-! ### delay in time units → delay in steps

`delay = dn/dd`, `dt = tn/td` (decimal readings of the Python numbers, as fractions of naturals).
`stepsOf` is `ceil(delay/dt)`; `Bptk.Props.C11.stepsOf_least` proves it is the least `k` with `k·dt ≥ delay`. -/
def stepsOf (dn dd tn td : Nat) : Nat := (dn * td + dd * tn - 1) / (dd * tn)

end Bptk.C11
