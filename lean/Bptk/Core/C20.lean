/-
C20 — crash and restart of a `BptkServer` with an external state adapter.

Executable model, import-free.  Volatile state: `InstanceManager._instances` (each instance: the
session dictionary plus the live simulation — equations as changed by settings, memo).  Persistent state:
the adapter's files, one per instance, rewritten after every stepping request.  A crash erases the
volatile part; a crash in the middle of a write leaves a strict prefix of the new file content, which is
never a complete JSON document, i.e. an unreadable file (`File.torn`).  Restart = `BptkServer.__init__`
(`load_state`: every readable file is reconstructed, unreadable ones are skipped — repair
`C20-load-skips-unreadable`) + `_ensure_instance_exists` (lazy load of a single instance).
`reconstruct_instance → _set_state` replays the logged steps with their settings on the fresh
simulation (repair `C20-replay-on-restore`).

The simulation itself is a parameter (`Dyn`): any deterministic step function.
-/
namespace Bptk.C20

abbrev Time := Int
abbrev Settings := List (Nat × String)

/-- what `begin_session` fixes: run spec and (as `tag`) managers / scenarios / equations / session settings -/
structure Spec where
  start : Time
  dt : Time
  stop : Time
  tag : Nat
deriving DecidableEq, Repr

/-- the simulation: `init` = fresh model from the factory with the scenario and session settings applied;
`step` = `SdRunner.run_scenario_step` at time `t` with the step's settings (changes equations, fills
the memo, returns the step result). -/
structure Dyn (σ ρ : Type) where
  init : Spec → σ
  step : Spec → σ → Time → Settings → σ × ρ

/-- the externalised session (what a readable file restores, see C19) -/
structure Persist where
  spec : Spec
  step : Time
  log : List (Time × Settings)
deriving DecidableEq, Repr

inductive File where
  | ok (p : Persist)
  | torn
deriving DecidableEq, Repr

structure Inst (σ : Type) where
  spec : Spec
  step : Time
  log : List (Time × Settings)
  sim : σ

inductive Resp (ρ : Type) where
  | ok (r : ρ)       -- HTTP 200 with the step result
  | stopped          -- {"msg": "Stoptime reached"}
  | invalid          -- "expecting a valid instance id to be given"
  | none             -- request without a result of interest (start), or never answered (process died)
deriving DecidableEq, Repr

variable {σ ρ : Type}

def replaySim (d : Dyn σ ρ) (spec : Spec) (log : List (Time × Settings)) : σ :=
  log.foldl (fun s e => (d.step spec s e.1 e.2).1) (d.init spec)

/-- `reconstruct_instance` + `_set_state` -/
def restore (d : Dyn σ ρ) (p : Persist) : Inst σ :=
  { spec := p.spec, step := p.step, log := p.log, sim := replaySim d p.spec p.log }

/-- `_get_instance_state` -/
def persist (i : Inst σ) : Persist := { spec := i.spec, step := i.step, log := i.log }

def fresh (d : Dyn σ ρ) (spec : Spec) : Inst σ :=
  { spec := spec, step := spec.start, log := [], sim := d.init spec }

/-- `bptk.run_step` -/
def runStep (d : Dyn σ ρ) (i : Inst σ) (st : Settings) : Inst σ × Resp ρ :=
  if i.step > i.spec.stop then (i, .stopped)
  else
    let r := d.step i.spec i.sim i.step st
    ({ i with step := i.step + i.spec.dt, log := i.log ++ [(i.step, st)], sim := r.1 }, .ok r.2)

def upd {α : Type} (f : Nat → Option α) (k : Nat) (v : Option α) : Nat → Option α :=
  fun x => if x = k then v else f x

structure Server (σ : Type) where
  live : Nat → Option (Inst σ)      -- volatile
  files : Nat → Option File         -- persistent
  used : Nat → Bool                 -- ghost: instance ids handed out so far (uuids are never reused)

def Server.empty : Server σ := { live := fun _ => none, files := fun _ => none, used := fun _ => false }

def readable (files : Nat → Option File) (id : Nat) : Option Persist :=
  match files id with
  | some (.ok p) => some p
  | _ => none

/-- the instance a request for `id` works on: the live one, else the one `_ensure_instance_exists` loads -/
def eff (d : Dyn σ ρ) (s : Server σ) (id : Nat) : Option (Inst σ) :=
  match s.live id with
  | some i => some i
  | none => (readable s.files id).map (restore d)

/-- a new process on the same state directory -/
def restart (d : Dyn σ ρ) (s : Server σ) : Server σ :=
  { s with live := fun id => (readable s.files id).map (restore d) }

inductive Op where
  | start (id : Nat) (spec : Spec)          -- start-instance + begin-session (not externalised yet)
  | step (id : Nat) (st : Settings)         -- run-step (externalises the instance afterwards)
  | crash                                   -- the process is lost between two requests; a new one is started
  | crashInWrite (id : Nat) (st : Settings) -- run-step, the process is lost while writing the state file; restart
  | damage (id : Nat)                       -- the stored state file of `id` is damaged (disk fault), the process restarts
deriving DecidableEq, Repr

/-- an existing state file becomes unreadable -/
def damageFile (s : Server σ) (id : Nat) : Server σ :=
  if (s.files id).isSome then { s with files := upd s.files id (some .torn) } else s

/-- the run with crashes -/
def stepC (d : Dyn σ ρ) (s : Server σ) : Op → Server σ × Resp ρ
  | .start id spec =>
    if s.used id then (s, .none)
    else ({ s with live := upd s.live id (some (fresh d spec)), used := fun x => x = id || s.used x }, .none)
  | .step id st =>
    match eff d s id with
    | none => (s, .invalid)
    | some i =>
      let r := runStep d i st
      ({ s with live := upd s.live id (some r.1), files := upd s.files id (some (.ok (persist r.1))) }, r.2)
  | .crash => (restart d s, .none)
  | .crashInWrite id st =>
    match eff d s id with
    | none => (restart d s, .none)
    | some _ => (restart d { s with files := upd s.files id (some .torn) }, .none)
  | .damage id => (restart d (damageFile s id), .none)

/-- the uninterrupted run: same requests, the process never dies -/
structure UServer (σ : Type) where
  live : Nat → Option (Inst σ)
  used : Nat → Bool

def UServer.empty : UServer σ := { live := fun _ => none, used := fun _ => false }

def stepU (d : Dyn σ ρ) (s : UServer σ) : Op → UServer σ × Resp ρ
  | .start id spec =>
    if s.used id then (s, .none)
    else ({ live := upd s.live id (some (fresh d spec)), used := fun x => x = id || s.used x }, .none)
  | .step id st =>
    match s.live id with
    | none => (s, .invalid)
    | some i => let r := runStep d i st; ({ s with live := upd s.live id (some r.1) }, r.2)
  | .crash => (s, .none)
  | .crashInWrite id st =>
    match s.live id with
    | none => (s, .none)
    | some i => ({ s with live := upd s.live id (some (runStep d i st).1) }, .none)
  | .damage _ => (s, .none)

def runC (d : Dyn σ ρ) : Server σ → List Op → List (Resp ρ)
  | _, [] => []
  | s, op :: ops => (stepC d s op).2 :: runC d (stepC d s op).1 ops

def runU (d : Dyn σ ρ) : UServer σ → List Op → List (Resp ρ)
  | _, [] => []
  | s, op :: ops => (stepU d s op).2 :: runU d (stepU d s op).1 ops

def finalC (d : Dyn σ ρ) (s : Server σ) (ops : List Op) : Server σ := ops.foldl (fun s op => (stepC d s op).1) s
def finalU (d : Dyn σ ρ) (s : UServer σ) (ops : List Op) : UServer σ := ops.foldl (fun s op => (stepU d s op).1) s

/-- the symbolic simulation used by the driver: the state is the history of (time, settings) applied, a
step result is that history — two runs answer alike exactly when the same steps with the same settings
have been applied to the simulation in the same order. -/
def histDyn : Dyn (List (Time × Settings)) (List (Time × Settings)) :=
  { init := fun _ => [], step := fun _ h t st => (h ++ [(t, st)], h ++ [(t, st)]) }

/-! ### wave 2: mechanism facts of the restore and of the state write

* `replayIsComplete` — `_replay_session` re-runs EVERY logged step.  The defective variant replays only up to the
  last logged step that carried settings ("later steps are computed on demand"): the steps after it are not in the
  simulation's memory when the session goes on, so settings given AFTER the restart are applied to them as well.
* `atomicWrite` — `FileAdapter._save_instance` writes a temporary file and renames it onto the state file (proposed
  repair `C20-atomic-state-write`).  A crash inside the write then leaves the previous state file intact: the
  request in progress is lost as a whole (it was never answered), the instance is not. -/

structure Cfg where
  replayIsComplete : Bool
  atomicWrite : Bool
  loadIsPerEntry : Bool        -- wave 3: `load_state` treats every listed file on its own (see `loadEntries`)
  replayOrderPreserved : Bool  -- wave 4: the restored log lists the steps in execution order (see `readLog`)
  loadReadsCommitted : Bool    -- wave 6: a load reads the committed state file, never the temporary file (see `readT`)
  saveOnEveryEnding : Bool     -- wave 8: a stepping request is followed by the write of the instance however it ends (see `stepCE`)
  savedEqualsLive : Bool       -- wave 9: what is externalised after a stepping request is the live session, entry by entry (see `externalise`)
  loadSkipsUnusable : Bool     -- wave 7: a state file that parses but holds no session state is skipped like an unreadable one
                               -- (proposed repair `C20-load-skips-unusable-state`; not part of `good`, see `NoStartupFailureOnJunk`)
deriving DecidableEq, Repr

/-- the two facts the restore of ONE instance relies on -/
def Cfg.restoreOK (c : Cfg) : Bool := c.replayIsComplete && c.replayOrderPreserved

def Cfg.good (c : Cfg) : Bool :=
  c.replayIsComplete && c.loadIsPerEntry && c.replayOrderPreserved && c.loadReadsCommitted && c.saveOnEveryEnding && c.savedEqualsLive

/-! wave 4: `_replay_session` replays `settings_log` in dictionary order, so it relies on the adapter round trip
(write + read) keeping the order of the log: decode ∘ encode preserves the order of the steps.  A writer that
sorts the keys of JSON objects (`sort_keys`) orders the steps by the TEXT of their time label — "10.0" before
"9.0", "-1.0" before "-2.0" — and the restored session replays a later step before an earlier one. -/

/-- the text of a time label (sign, then decimal digits) as character codes -/
def keyText (t : Time) : List Nat :=
  (if t < 0 then [45] else []) ++ (Nat.toDigits 10 t.natAbs).map Char.toNat

def textLe : List Nat → List Nat → Bool
  | [], _ => true
  | _ :: _, [] => false
  | a :: as, b :: bs => a < b || (a == b && textLe as bs)

def insertByText (e : Time × Settings) : List (Time × Settings) → List (Time × Settings)
  | [] => [e]
  | f :: r => if textLe (keyText e.1) (keyText f.1) then e :: f :: r else f :: insertByText e r

/-- the log as a key-sorting writer leaves it -/
def sortByText : List (Time × Settings) → List (Time × Settings)
  | [] => []
  | e :: r => insertByText e (sortByText r)

def readLog (c : Cfg) (log : List (Time × Settings)) : List (Time × Settings) :=
  if c.replayOrderPreserved then log else sortByText log

/-- the logged steps up to and including the last one that carried settings -/
def uptoLastSettings : List (Time × Settings) → List (Time × Settings)
  | [] => []
  | e :: rest =>
    match uptoLastSettings rest with
    | [] => if e.2 = [] then [] else [e]
    | r => e :: r

def restoreC (c : Cfg) (d : Dyn σ ρ) (p : Persist) : Inst σ :=
  { spec := p.spec, step := p.step, log := readLog c p.log,
    sim := replaySim d p.spec (if c.replayIsComplete then readLog c p.log else uptoLastSettings (readLog c p.log)) }

def effC (c : Cfg) (d : Dyn σ ρ) (s : Server σ) (id : Nat) : Option (Inst σ) :=
  match s.live id with
  | some i => some i
  | none => (readable s.files id).map (restoreC c d)

def restartC (c : Cfg) (d : Dyn σ ρ) (s : Server σ) : Server σ :=
  { s with live := fun id => (readable s.files id).map (restoreC c d) }

def stepCC (c : Cfg) (d : Dyn σ ρ) (s : Server σ) : Op → Server σ × Resp ρ
  | .start id spec =>
    if s.used id then (s, .none)
    else ({ s with live := upd s.live id (some (fresh d spec)), used := fun x => x = id || s.used x }, .none)
  | .step id st =>
    match effC c d s id with
    | none => (s, .invalid)
    | some i =>
      let r := runStep d i st
      ({ s with live := upd s.live id (some r.1), files := upd s.files id (some (.ok (persist r.1))) }, r.2)
  | .crash => (restartC c d s, .none)
  | .crashInWrite id _ =>
    match effC c d s id with
    | none => (restartC c d s, .none)
    | some _ =>
      if c.atomicWrite then (restartC c d s, .none)      -- only the temporary file is torn
      else (restartC c d { s with files := upd s.files id (some .torn) }, .none)
  | .damage id => (restartC c d (damageFile s id), .none)

def runCC (c : Cfg) (d : Dyn σ ρ) : Server σ → List Op → List (Resp ρ)
  | _, [] => []
  | s, op :: ops => (stepCC c d s op).2 :: runCC c d (stepCC c d s op).1 ops

def finalCC (c : Cfg) (d : Dyn σ ρ) (s : Server σ) (ops : List Op) : Server σ :=
  ops.foldl (fun s op => (stepCC c d s op).1) s

/-- with an atomic write, a crash inside the write is a crash before the request: the request is lost as a whole -/
def atomize (atomic : Bool) : Op → Op
  | .crashInWrite id st => if atomic then .crash else .crashInWrite id st
  | op => op

/-- A simulation that computes on demand, like the SD model's memo: the state is the constant in force and the
values memoised so far; a step at time `t` first applies its settings (a new constant), then computes every grid
point up to `t` that is not memoised yet — with the constant in force NOW — and answers with all values.  Replaying
every logged step memoises each grid point under the constant of its own step; skipping steps leaves them to
whatever constant comes later. -/
def gridUpTo (spec : Spec) (t : Time) : List Time :=
  (List.range ((t - spec.start) / spec.dt + 1).toNat).map fun (k : Nat) => spec.start + (k : Int) * spec.dt

def fillMemo (cst : String) (memo : List (Time × String)) : List Time → List (Time × String)
  | [] => memo
  | t :: ts => if (memo.lookup t).isSome then fillMemo cst memo ts else fillMemo cst (memo ++ [(t, cst)]) ts

def lazyDyn : Dyn (String × List (Time × String)) (List (Time × String)) :=
  { init := fun _ => ("1", []),
    step := fun spec s t st =>
      let cst := match st with | [] => s.1 | (_, v) :: _ => v
      let memo := fillMemo cst s.2 (gridUpTo spec t)
      ((cst, memo), memo) }

/-! ### wave 6: the temporary file of the atomic write, explicitly

Persistent state of an instance = the committed state file `<id>.json` + possibly a temporary file `<id>.json.tmp`
left by a write that died: `torn` (a non-empty strict prefix), `complete p` (everything written and synced, the
rename did not happen), or nothing (the process died before the first character: an empty temporary file counts as
none).  A completed write renames the temporary file away.  What the code on the clean tree does: `_load_instance`
opens `<id>.json` only and `_load_state` lists names ending in `.json` only — a temporary file is NEVER read,
complete or not (the request that was writing it was never answered; it is lost as a whole and retried).  Mechanism
fact `loadReadsCommitted`; the defective variant ("the temporary file holds the latest step") reads a non-empty
temporary file INSTEAD of the state file: a torn one does not parse, the load gives up, and the intact committed
state is never consulted. -/

inductive Tmp where
  | torn
  | complete (p : Persist)
deriving DecidableEq, Repr

inductive Cut where
  | nothing      -- died before the first character
  | prefix       -- died after ≥ 1 and before all characters
  | all          -- everything written, not renamed
deriving DecidableEq, Repr

abbrev Tmps := Nat → Option Tmp

def readT (c : Cfg) (s : Server σ) (t : Tmps) (id : Nat) : Option Persist :=
  if c.loadReadsCommitted then readable s.files id
  else match t id with
    | some .torn => none
    | some (.complete p) => some p
    | none => readable s.files id

def effT (c : Cfg) (d : Dyn σ ρ) (s : Server σ) (t : Tmps) (id : Nat) : Option (Inst σ) :=
  match s.live id with
  | some i => some i
  | none => (readT c s t id).map (restoreC c d)

def restartT (c : Cfg) (d : Dyn σ ρ) (s : Server σ) (t : Tmps) : Server σ :=
  { s with live := fun id => (readT c s t id).map (restoreC c d) }

/-- the configured server with the temporary files; `cut` says where a `crashInWrite` died -/
def stepCT (c : Cfg) (d : Dyn σ ρ) (st : Server σ × Tmps) (oc : Op × Cut) : (Server σ × Tmps) × Resp ρ :=
  let s := st.1
  let t := st.2
  match oc.1 with
  | .start id spec =>
    if s.used id then (st, .none)
    else (({ s with live := upd s.live id (some (fresh d spec)), used := fun x => x = id || s.used x }, t), .none)
  | .step id stg =>
    match effT c d s t id with
    | none => (st, .invalid)
    | some i =>
      let r := runStep d i stg
      -- temporary file written, synced, renamed onto the state file: no temporary file is left
      (({ s with live := upd s.live id (some r.1), files := upd s.files id (some (.ok (persist r.1))) }, upd t id none), r.2)
  | .crash => ((restartT c d s t, t), .none)
  | .damage id => ((restartT c d (damageFile s id) t, t), .none)
  | .crashInWrite id stg =>
    match effT c d s t id with
    | none => ((restartT c d s t, t), .none)
    | some i =>
      if c.atomicWrite then
        let t' : Tmps := match oc.2 with
          | .nothing => upd t id none
          | .prefix => upd t id (some .torn)
          | .all => upd t id (some (.complete (persist (runStep d i stg).1)))
        ((restartT c d s t', t'), .none)
      else ((restartT c d { s with files := upd s.files id (some .torn) } t, t), .none)

def runCT (c : Cfg) (d : Dyn σ ρ) : Server σ × Tmps → List (Op × Cut) → List (Resp ρ)
  | _, [] => []
  | st, oc :: ocs => (stepCT c d st oc).2 :: runCT c d (stepCT c d st oc).1 ocs

def noTmps : Tmps := fun _ => none

/-! ### wave 8: how a stepping request ends

`run-step`, `run-steps` and `stream-steps` write the instance after their steps.  `stream-steps` does so in a
generator, after the `try … finally: unlock()` that surrounds the stepping loop, and a stream can end in three ways:
it runs to the stop time, a step raises (the error is swallowed), or the client hangs up — `GeneratorExit` is thrown
into the generator at the `yield` it is suspended at.  Mechanism fact `saveOnEveryEnding`: the write is reached in all
three (on the clean tree a bare `except:` swallows `GeneratorExit` too and control falls through to the write).  The
defective variant catches `Exception` only: `GeneratorExit` leaves the generator right after `finally`, the steps
the stream has run are in memory but never reach the state file. -/

inductive Ending where
  | answered       -- the request ran to its end (complete stream, run-step, run-steps; a failing step ends a stream the same way)
  | clientGone     -- stream-steps whose client closed the connection after some steps
deriving DecidableEq, Repr

/-- the configured server with the ending of every stepping request -/
def stepCE (c : Cfg) (d : Dyn σ ρ) (s : Server σ) (oe : Op × Ending) : Server σ × Resp ρ :=
  match oe.1, oe.2 with
  | .step id st, .clientGone =>
    match effC c d s id with
    | none => (s, .invalid)
    | some i =>
      let r := runStep d i st
      if c.saveOnEveryEnding then
        ({ s with live := upd s.live id (some r.1), files := upd s.files id (some (.ok (persist r.1))) }, r.2)
      else ({ s with live := upd s.live id (some r.1) }, r.2)          -- stepped in memory, not written
  | op, _ => stepCC c d s op

def runCE (c : Cfg) (d : Dyn σ ρ) : Server σ → List (Op × Ending) → List (Resp ρ)
  | _, [] => []
  | s, oe :: oes => (stepCE c d s oe).2 :: runCE c d (stepCE c d s oe).1 oes

/-! ### wave 9: WHAT is externalised after a stepping request — several sessions on one instance

`_get_instance_state` hands the adapter a deep copy of the live `session_state`.  `persist` above says so for one
session; an instance can have several sessions one after the other (`begin-session` again, with or without
`end-session`): each starts with empty logs and logs the same step keys again.  Mechanism fact `savedEqualsLive`: the
externalised logs are the live logs, entry by entry.  The defective variant keeps the copy handed out last and only adds
the entries whose step key is not in it yet ("an entry is not touched again once it is written"): the entries of the
previous session with the same keys stay, the new session's are never externalised — a new server replays the OLD
settings. -/

abbrev SLog := List (Time × Settings)

def hasKey (t : Time) (l : SLog) : Bool := l.any (·.1 == t)

def mergeSnapshot (snap live : SLog) : SLog := snap ++ live.filter fun e => !hasKey e.1 snap

def externalise (c : Cfg) (snap : Option SLog) (live : SLog) : SLog :=
  if c.savedEqualsLive then live
  else match snap with
    | none => live
    | some s => mergeSnapshot s live

/-- the steps of one session: after each, (live log, externalised log); returns the copy handed out last as well -/
def stepsRun (c : Cfg) : Option SLog → SLog → SLog → List (SLog × SLog) × Option SLog
  | snap, _, [] => ([], snap)
  | snap, live, e :: r =>
    let ext := externalise c snap (live ++ [e])
    let rest := stepsRun c (some ext) (live ++ [e]) r
    ((live ++ [e], ext) :: rest.1, rest.2)

/-- consecutive sessions on ONE instance (each: the steps it logs) -/
def sessionsRun (c : Cfg) : Option SLog → List SLog → List (SLog × SLog)
  | _, [] => []
  | snap, s :: ss => (stepsRun c snap [] s).1 ++ sessionsRun c (stepsRun c snap [] s).2 ss

/-! ### wave 10: the file-system operations of ONE state write, and a crash before / after each of them

`stepCT` above takes the commit of a write as one indivisible event.  That is a fact about the code: the committed
path must only ever be the TARGET of one `os.replace` / `os.rename` and never be removed.  `FsOp` = the os-level
operations a write performs on the instance's two files, in order (recorded from a real write by the probe); a crash
can fall after any prefix of them.  With "remove the state file, then rename the temporary file" there is a crash point
at which the directory holds only the complete temporary file — which no load reads: the instance is lost although it
had a committed state before the write began. -/

inductive FsOp where
  | writeTmp          -- the temporary file gets its content (a crash inside is a `Cut`)
  | fsyncTmp
  | removeCommitted   -- os.remove / os.unlink of `<id>.json`
  | renameOnto        -- os.rename / os.replace of the temporary file onto `<id>.json`
deriving DecidableEq, Repr

/-- committed file and temporary file -/
abbrev Disk := Option Persist × Option Tmp

def fsStep (new : Persist) (dk : Disk) : FsOp → Disk
  | .writeTmp => (dk.1, some (.complete new))
  | .fsyncTmp => dk
  | .removeCommitted => (none, dk.2)
  | .renameOnto => (some new, none)

def fsRun (new : Persist) (dk : Disk) (ops : List FsOp) : Disk := ops.foldl (fsStep new) dk

/-- the committed path is never removed and is the target of exactly one rename -/
def commitAtomic (ops : List FsOp) : Bool :=
  !ops.contains .removeCommitted && (ops.filter (· == .renameOnto)).length == 1

/-! ### wave 3: `ExternalStateAdapter.load_state` over the directory listing

`_load_state` returns one entry per listed file: `bad` (unreadable, `None`) or the stored state with its logs
still in the adapter's format (`raw`); `load_state` has to drop the `bad` ones and decompress EVERY other one
(`ready`), whatever stands before or after it in the listing.  The defective variant is one Python loop
`for x in state: if x is None: state.remove(x) else: decompress(x)`: the iterator works by position, so after a
removal the element that slid into the freed position is never visited — it stays `raw` (compressed logs reach the
server: ValueError in `__init__`) or, if it is `bad` too, stays in the list (AttributeError). -/

inductive Entry where
  | bad
  | raw (p : Persist)
  | ready (p : Persist)
  | junk                 -- wave 7: read without error, but not a session state (inner state null / {} / without its logs)
deriving DecidableEq, Repr

def removeFirstBad : List Entry → List Entry
  | [] => []
  | .bad :: r => r
  | e :: r => e :: removeFirstBad r

/-- the Python loop: position `i`, list mutated under the iterator -/
def loopSkip : Nat → Nat → List Entry → List Entry
  | 0, _, l => l
  | f + 1, i, l =>
    match l[i]? with
    | none => l
    | some .bad => loopSkip f (i + 1) (removeFirstBad l)
    | some (.raw p) => loopSkip f (i + 1) (l.set i (.ready p))
    | some (.ready _) => loopSkip f (i + 1) l
    | some .junk => loopSkip f (i + 1) l

def perEntry : Entry → Option Entry
  | .bad => none
  | .raw p => some (.ready p)
  | .ready p => some (.ready p)
  | .junk => some .junk

def loadEntries (c : Cfg) (l : List Entry) : List Entry :=
  if c.loadIsPerEntry then l.filterMap perEntry else loopSkip l.length 0 l

/-- what `BptkServer.__init__` does with the list: `none` = it raises (a `None` entry, or compressed logs in
compressed mode), else the sessions it reconstructs -/
def startup (compress : Bool) : List Entry → Option (List Persist)
  | [] => some []
  | .bad :: _ => none
  | .raw p :: r => if compress then none else (startup compress r).map (p :: ·)
  | .ready p :: r => (startup compress r).map (p :: ·)
  | .junk :: _ => none           -- decompress / `_set_state` raise on it

def listing : List (Option Persist) → List Entry
  | [] => []
  | none :: r => .bad :: listing r
  | some p :: r => .raw p :: listing r

/-! wave 7: what a state FILE can be for the load: unreadable, readable but not a session state, or a session state -/
inductive Stored where
  | unreadable
  | notASession
  | session (p : Persist)
deriving DecidableEq, Repr

def listingS : List Stored → List Entry
  | [] => []
  | .unreadable :: r => .bad :: listingS r
  | .notASession :: r => .junk :: listingS r
  | .session p :: r => .raw p :: listingS r

def sessionsOf : List Stored → List Persist
  | [] => []
  | .session p :: r => p :: sessionsOf r
  | _ :: r => sessionsOf r

/-- the repaired load drops what is not a session state as well -/
def loadEntriesS (c : Cfg) (l : List Entry) : List Entry :=
  if c.loadSkipsUnusable then (loadEntries c l).filter (· != .junk) else loadEntries c l

end Bptk.C20
