/-
C15 — bearer-token protection of `BPTK_Py.server.bptkServer.BptkServer`.

Executable model, import-free.

* `splitSp` is Python's `str.split(" ")` on a list of characters; `authOK` mirrors `token_required`
  (`request.headers["Authorization"].split(" ")[1]`, compare with the configured token; header absent
  -> 401; index 1 missing -> IndexError -> HTTP 500; different word -> 401).
* `Table` is the route table, GENERATED on every run from the live Flask app (`app.url_map`): rule
  string, allowed methods, whether the registered view passes through `token_required` (probed
  behaviourally), whether Flask answers `OPTIONS` itself (automatic options), whether the rule is Flask's
  built-in static-file rule, and the files present in the app's static folder.
* `handle` is the dispatch of one request: rule lookup (404), method check (405), automatic OPTIONS (200,
  view not reached), static rule (404 unless the file exists), token check, view.  The views are a
  parameter `V` (any function of route, request payload and state), so everything proved about refusals
  holds whatever the views do; the state type `σ` and the payload type `π` (instance id, body, query
  string) are parameters as well.
-/
namespace Bptk.C15

/-! ### `str.split(" ")` -/

def consHead (c : Char) : List (List Char) → List (List Char)
  | [] => [[c]]
  | w :: ws => (c :: w) :: ws

/-- Python `s.split(" ")`: split at every single U+0020, keeping empty words. Never returns `[]`. -/
def splitSp : List Char → List (List Char)
  | [] => [[]]
  | c :: cs => if c = ' ' then [] :: splitSp cs else consHead c (splitSp cs)

/-- second space-separated word of a header value (`split(" ")[1]`), `none` = IndexError. -/
def word2 (h : List Char) : Option (List Char) := (splitSp h)[1]?

inductive Outcome where
  | accept      -- the view is called
  | reject      -- HTTP 401
  | error       -- IndexError inside the decorator -> HTTP 500
deriving DecidableEq, Repr

/-- `token_required` with a configured token `τ`; `h` = value of the (first) Authorization header. -/
def authOK (h : Option (List Char)) (τ : List Char) : Outcome :=
  match h with
  | none => .reject
  | some hs =>
    match word2 hs with
    | none => .error
    | some w => if w = τ then .accept else .reject

/-! ### route table and dispatch -/

structure Route where
  rule : String
  methods : List String
  prot : Bool          -- the registered view passes through `token_required`
  autoOptions : Bool   -- Flask answers OPTIONS itself for this rule
  static : Bool        -- Flask's built-in static-file rule
deriving DecidableEq, Repr

structure Table where
  routes : List Route
  staticFiles : List String   -- files that the static rule would serve
deriving Repr

structure Request (π : Type) where
  route : Nat                  -- index of the rule the URL matched (≥ length: no rule matches)
  method : String
  auth : Option (List Char)    -- value of the Authorization header, if present
  file : String                -- for the static rule: the requested file name
  payload : π                  -- path arguments, body, query string: only the views look at them

/-- a view: route index, payload, state ↦ new state and HTTP status -/
abbrev View (σ π : Type) := Nat → π → σ → σ × Nat

def publicRules : List String := ["/", "/healthy", "/metrics", "/full-metrics"]

def isPublic (r : Route) : Bool := publicRules.contains r.rule

def guarded (V : View σ π) (tok : Option (List Char)) (s : σ) (r : Request π) : σ × Nat :=
  match tok with
  | none => V r.route r.payload s
  | some τ =>
    match authOK r.auth τ with
    | .accept => V r.route r.payload s
    | .reject => (s, 401)
    | .error => (s, 500)

/-- what happens once rule and method are settled and Flask did not answer by itself -/
def serveRoute (V : View σ π) (t : Table) (tok : Option (List Char)) (s : σ) (r : Request π) (rt : Route) :
    σ × Nat :=
  if rt.static then (if t.staticFiles.contains r.file then V r.route r.payload s else (s, 404))
  else if rt.prot then guarded V tok s r
  else V r.route r.payload s

def handle (V : View σ π) (t : Table) (tok : Option (List Char)) (s : σ) (r : Request π) : σ × Nat :=
  match t.routes[r.route]? with
  | none => (s, 404)
  | some rt =>
    if !rt.methods.contains r.method then (s, 405)
    else if r.method == "OPTIONS" && rt.autoOptions then (s, 200)
    else serveRoute V t tok s r rt

/-- the per-run side condition on the generated table: every rule is public, token-protected, or the
static rule with nothing to serve -/
def routeOK (t : Table) (r : Route) : Bool :=
  isPublic r || (if r.static then t.staticFiles.isEmpty else r.prot)

def allProtected (t : Table) : Bool := t.routes.all (routeOK t)

/-- no non-public rule answers OPTIONS by itself -/
def noAutoOptions (t : Table) : Bool :=
  t.routes.all (fun r => isPublic r || !(r.autoOptions && r.methods.contains "OPTIONS"))

/-- rule `i` is a non-public rule for which Flask answers OPTIONS by itself (witness of the letter-of-the-
statement violation `auto-options-200`) -/
def autoOptionsAt (t : Table) (i : Nat) : Bool :=
  match t.routes[i]? with
  | some r => !isPublic r && r.autoOptions && r.methods.contains "OPTIONS"
  | none => false

/-- rule `i` is a non-public application rule whose view is reached without the token check, and `m` is
one of its methods other than an automatically answered OPTIONS -/
def unprotectedAt (t : Table) (i : Nat) (m : String) : Bool :=
  match t.routes[i]? with
  | some r => !isPublic r && !r.static && !r.prot && r.methods.contains m && !(m == "OPTIONS" && r.autoOptions)
  | none => false

/-! ### wave 2 — the credential comparison as a parameter

`token_required` compares the credentials word with the configured token by `token != self._bearer_token`.
A realistic change replaces that by a helper (`hmac.compare_digest`, a hand-rolled "constant-time" loop,
`startswith`, a case-insensitive test …).  The `…W` definitions below are `authOK`/`guarded`/`serveRoute`/
`handle` with the comparison `cmp presented expected` as a parameter; `eqCmp` is string equality (the code
as it is).  The comparison used for a run is `cmpOf obs`: string equality *patched by the observations*
`obs` — triples (presented, expected, accepted?) obtained on every run from the real decorator. -/

abbrev Cmp := List Char → List Char → Bool

def eqCmp : Cmp := fun w τ => decide (w = τ)

def authOKW (cmp : Cmp) (h : Option (List Char)) (τ : List Char) : Outcome :=
  match h with
  | none => .reject
  | some hs =>
    match word2 hs with
    | none => .error
    | some w => if cmp w τ then .accept else .reject

def guardedW (cmp : Cmp) (V : View σ π) (tok : Option (List Char)) (s : σ) (r : Request π) : σ × Nat :=
  match tok with
  | none => V r.route r.payload s
  | some τ =>
    match authOKW cmp r.auth τ with
    | .accept => V r.route r.payload s
    | .reject => (s, 401)
    | .error => (s, 500)

def serveRouteW (cmp : Cmp) (V : View σ π) (t : Table) (tok : Option (List Char)) (s : σ) (r : Request π)
    (rt : Route) : σ × Nat :=
  if rt.static then (if t.staticFiles.contains r.file then V r.route r.payload s else (s, 404))
  else if rt.prot then guardedW cmp V tok s r
  else V r.route r.payload s

def handleW (cmp : Cmp) (V : View σ π) (t : Table) (tok : Option (List Char)) (s : σ) (r : Request π) :
    σ × Nat :=
  match t.routes[r.route]? with
  | none => (s, 404)
  | some rt =>
    if !rt.methods.contains r.method then (s, 405)
    else if r.method == "OPTIONS" && rt.autoOptions then (s, 200)
    else serveRouteW cmp V t tok s r rt

/-- observations of the real comparison: (presented credentials word, configured token, accepted?) -/
abbrev Obs := List (List Char × List Char × Bool)

def obsLookup : Obs → List Char → List Char → Option Bool
  | [], _, _ => none
  | (p, e, v) :: rest, w, τ => if p = w ∧ e = τ then some v else obsLookup rest w τ

/-- string equality, except where the real decorator was observed to decide otherwise -/
def cmpOf (o : Obs) : Cmp := fun w τ => (obsLookup o w τ).getD (decide (w = τ))

/-- the probed fact: every observed verdict is the verdict of string equality -/
def compareIsEquality (o : Obs) : Bool := o.all (fun x => x.2.2 == decide (x.1 = x.2.1))

/-- The seeded defect's comparison, for reference: XOR-accumulate over `zip(presented, expected)`, no
length check. -/
def zipCmp : Cmp
  | [], _ => true
  | _, [] => true
  | a :: as, b :: bs => decide (a = b) && zipCmp as bs

structure Cfg where
  table : Table
  obs : Obs

/-- the observed comparison accepts `p` for the token `e` although they differ, `p` is a possible
credentials word (no space), and rule `i` is a protected non-public application rule with method `m` -/
def wrongAcceptAt (c : Cfg) (i : Nat) (m : String) (p e : List Char) : Bool :=
  cmpOf c.obs p e && !decide (p = e) && !p.contains ' ' &&
  (match c.table.routes[i]? with
   | some r => !isPublic r && !r.static && r.prot && r.methods.contains m && !(m == "OPTIONS" && r.autoOptions)
   | none => false)

/-! ### wave 2 — from header lines to the header value the decorator sees

The decorator reads `request.headers["Authorization"]`: the field name is matched case-insensitively and
repeated header lines arrive as ONE value, joined by the gateway (`", "` by werkzeug's test client, `","`
by werkzeug's WSGI server, which also drops leading blanks/tabs of each line's value). -/

def lowerAscii (c : Char) : Char :=
  if 65 ≤ c.toNat ∧ c.toNat ≤ 90 then Char.ofNat (c.toNat + 32) else c

def isAuthName (n : List Char) : Bool := n.map lowerAscii == "authorization".toList

def lstripWs : List Char → List Char
  | [] => []
  | c :: cs => if c = ' ' ∨ c = '\t' then lstripWs cs else c :: cs

structure Transport where
  sep : List Char
  lstrip : Bool
deriving Repr

def testClient : Transport := { sep := [',', ' '], lstrip := false }
def wsgiServer : Transport := { sep := [','], lstrip := true }

def joinVals (sep : List Char) : List (List Char) → List Char
  | [] => []
  | [v] => v
  | v :: vs => v ++ sep ++ joinVals sep vs

def authValues (tr : Transport) (raw : List (List Char × List Char)) : List (List Char) :=
  (raw.filter (fun nv => isAuthName nv.1)).map (fun nv => if tr.lstrip then lstripWs nv.2 else nv.2)

/-- value of `request.headers["Authorization"]` for the header lines `raw` (name, value), `none` = the
header is absent -/
def headerValue (tr : Transport) (raw : List (List Char × List Char)) : Option (List Char) :=
  match authValues tr raw with
  | [] => none
  | vs => some (joinVals tr.sep vs)

/-! ### wave 5 — call order inside a request: the token check precedes every state-touching call

Probed per rule × method × instance id with `sys.monitoring`: the sequence of function entries of one request
restricted to (a) the `token_required` wrapper (`check`) and (b) every other function defined in
`bptkServer.py`, in the external-state adapters and in the `bptk` class (`touch name`: view bodies, helpers such
as `_ensure_instance_exists` with its restore side effect, `InstanceManager` methods, `before_request`
hooks).  `accepted` is the trace with the right token (the PROGRAM of the view), `refused` the traces with no
header and with a wrong token. -/

inductive CallEv where
  | check
  | touch (f : String)
deriving DecidableEq, Repr

/-- the first thing a request does, if it does anything, is the token check -/
def orderOK : List CallEv → Bool
  | [] => true
  | .check :: _ => true
  | .touch _ :: _ => false

def isCheck : CallEv → Bool
  | .check => true
  | .touch _ => false

/-- running a program: `eff f` is what the call of `f` does to the state, `ok` the outcome of the token
comparison of THIS request; a failing check ends the request with 401 -/
def runProg {σ : Type} (eff : String → σ → σ) (ok : Bool) : List CallEv → σ → σ × Nat
  | [], s => (s, 200)
  | .check :: rest, s => if ok then runProg eff ok rest s else (s, 401)
  | .touch f :: rest, s => runProg eff ok rest (eff f s)

/-- what a refused request executes of a program: everything up to and including the first check -/
def refusedTrace : List CallEv → List CallEv
  | [] => []
  | .check :: _ => [.check]
  | .touch f :: rest => .touch f :: refusedTrace rest

structure CallRow where
  rule : String
  method : String
  inst : String
  accepted : List CallEv
  refusedAbsent : List CallEv
  refusedWrong : List CallEv
deriving Repr

def rowOK (r : CallRow) : Bool :=
  publicRules.contains r.rule || (orderOK r.accepted && r.refusedAbsent.all isCheck && r.refusedWrong.all isCheck)

def callsOK (rows : List CallRow) : Bool := rows.all rowOK

/-- the refused traces are what the model predicts from the accepted program -/
def rowConsistent (r : CallRow) : Bool :=
  r.refusedAbsent == refusedTrace r.accepted && r.refusedWrong == refusedTrace r.accepted

def badRowAt (rows : List CallRow) (i : Nat) : Bool :=
  match rows[i]? with
  | some r => !publicRules.contains r.rule && !orderOK r.accepted
  | none => false

/-! ### wave 6 — the method axis

`token_required` (`authOK`) does not take the HTTP method as an input: whether the view is reached depends on the
header and the token only, for EVERY method Flask dispatches to the view (the automatically added HEAD included).
If the real wrapper consults `request.method`, that shows in the probed `MethodObs` — (method, did the wrapper let
a refused credential through?), obtained by calling a wrapped view directly inside request contexts of each
method — and the dispatch `handleM` skips the check for those methods. -/

abbrev MethodObs := List (String × Bool)

def skipOf (o : MethodObs) (m : String) : Bool :=
  match o.lookup m with
  | some b => b
  | none => false

def checkIgnoresMethod (o : MethodObs) : Bool := o.all (fun x => !x.2)

def guardedM (o : MethodObs) (V : View σ π) (tok : Option (List Char)) (s : σ) (r : Request π) : σ × Nat :=
  if skipOf o r.method then V r.route r.payload s else guarded V tok s r

def serveRouteM (o : MethodObs) (V : View σ π) (t : Table) (tok : Option (List Char)) (s : σ) (r : Request π)
    (rt : Route) : σ × Nat :=
  if rt.static then (if t.staticFiles.contains r.file then V r.route r.payload s else (s, 404))
  else if rt.prot then guardedM o V tok s r
  else V r.route r.payload s

def handleM (o : MethodObs) (V : View σ π) (t : Table) (tok : Option (List Char)) (s : σ) (r : Request π) : σ × Nat :=
  match t.routes[r.route]? with
  | none => (s, 404)
  | some rt =>
    if !rt.methods.contains r.method then (s, 405)
    else if r.method == "OPTIONS" && rt.autoOptions then (s, 200)
    else serveRouteM o V t tok s r rt

/-- the wrapper lets method `m` through unchecked, and rule `i` is a protected non-public rule dispatching `m` -/
def methodSkippedAt (t : Table) (o : MethodObs) (i : Nat) (m : String) : Bool :=
  skipOf o m &&
  (match t.routes[i]? with
   | some r => !isPublic r && !r.static && r.prot && r.methods.contains m && !(m == "OPTIONS" && r.autoOptions)
   | none => false)

/-! ### wave 8 — the server-state axis: refusal after ANY history

`token_required` as modelled is a pure function of (configured token, presented credentials).  Whether the real
wrapper's decision to check depends on something an EARLIER request left behind on the server object is a probed
fact.  The defective mechanism (`sticky = true`): a marker on the server object that is set while an authorised
request is handled and is not reset when its handler raises — from then on the check is skipped.  `Srv` carries
that residue; `stepH` is one request of a history; the view's answer for a request is part of the request here
(`payload` = the status the handler ends with, 500 = it raised), so histories with raising handlers are ordinary
values of the quantifier. -/

structure Srv (σ : Type) where
  st : σ
  residue : Bool

/-- the request goes through the wrapper of a protected view (rule matched, method dispatched, not answered by Flask) -/
def reachesWrapper (t : Table) (r : Request π) : Bool :=
  match t.routes[r.route]? with
  | some rt => rt.methods.contains r.method && !(r.method == "OPTIONS" && rt.autoOptions) && !rt.static && rt.prot
  | none => false

def acceptsB (a : Option (List Char)) (τ : List Char) : Bool :=
  match authOK a τ with
  | .accept => true
  | _ => false

def stepH (sticky : Bool) (V : View σ π) (t : Table) (τ : List Char) (s : Srv σ) (r : Request π) (raised : Bool) :
    Srv σ × Nat :=
  let out := if sticky && s.residue then handleM [(r.method, true)] V t (some τ) s.st r      -- marker set: check skipped
             else handle V t (some τ) s.st r
  ({ st := out.1, residue := s.residue || (sticky && raised && reachesWrapper t r && acceptsB r.auth τ) }, out.2)

def runH (sticky : Bool) (V : View σ π) (t : Table) (τ : List Char) (s : Srv σ) : List (Request π × Bool) → Srv σ
  | [] => s
  | (r, raised) :: rest => runH sticky V t τ (stepH sticky V t τ s r raised).1 rest

/-- observations: (kind of history of authorised requests, was a refused credential served afterwards / meanwhile?) -/
abbrev ResidueObs := List (String × Bool)

def checkIsStateless (o : ResidueObs) : Bool := o.all (fun x => !x.2)

/-- rule `i` is a protected non-public application rule dispatching method `m` -/
def protectedAt (t : Table) (i : Nat) (m : String) : Bool :=
  match t.routes[i]? with
  | some r => !isPublic r && !r.static && r.prot && r.methods.contains m && !(m == "OPTIONS" && r.autoOptions)
  | none => false

/-! ### wave 9 — protection is decided per matched RULE, not per path prefix

A path is its list of segments; a rule's pattern is a list of literal and variable segments (`<instance_uuid>`
matches any non-empty segment — also one that is spelled like a public resource: `/metrics/run-step`).  `handleP` is
the dispatch of a server whose token check sits in front of the dispatch (a `before_request` hook) and exempts
requests by a predicate `ex` on the PATH.  The probed patterns are generated next to the route table. -/

inductive Seg where
  | lit (s : String)
  | var
deriving DecidableEq, Repr

def segMatches : List Seg → List String → Bool
  | [], [] => true
  | .lit s :: ps, x :: xs => s == x && segMatches ps xs
  | .var :: ps, x :: xs => x != "" && segMatches ps xs
  | _, _ => false

/-- two patterns can match one and the same path -/
def patOverlap : List Seg → List Seg → Bool
  | [], [] => true
  | .lit a :: ps, .lit b :: qs => a == b && patOverlap ps qs
  | .lit a :: ps, .var :: qs => a != "" && patOverlap ps qs
  | .var :: ps, .lit b :: qs => b != "" && patOverlap ps qs
  | .var :: ps, .var :: qs => patOverlap ps qs
  | _, _ => false

abbrev Exempt := List String → Bool

/-- exemption by the FIRST path segment (the seeded hook) -/
def firstSegExempt (names : List String) : Exempt := fun p => names.contains (p.head?.getD "")

/-- exemption by the matched rule: the path matches the pattern of a public rule -/
def ruleExempt (t : Table) (pats : List (List Seg)) : Exempt :=
  fun p => (t.routes.zip pats).any (fun x => isPublic x.1 && segMatches x.2 p)

/-- no path matches both a public and a non-public rule of the table -/
def tableSeparated (t : Table) (pats : List (List Seg)) : Bool :=
  (t.routes.zip pats).all (fun x => (t.routes.zip pats).all (fun y => !(isPublic x.1 && !isPublic y.1 && patOverlap x.2 y.2)))

def handleP (ex : Exempt) (V : View σ π) (t : Table) (tok : Option (List Char)) (s : σ) (path : List String)
    (r : Request π) : σ × Nat :=
  match t.routes[r.route]? with
  | none => (s, 404)
  | some rt =>
    if !rt.methods.contains r.method then (s, 405)
    else if r.method == "OPTIONS" && rt.autoOptions then (s, 200)
    else if rt.static then (if t.staticFiles.contains r.file then V r.route r.payload s else (s, 404))
    else if ex path then V r.route r.payload s
    else guarded V tok s r

/-- observations: (spelling of the variable segment, rule index, was a refused credential served?) -/
abbrev IdObs := List (String × Nat × Bool)

def protectionDecidedByRule (o : IdObs) : Bool := o.all (fun x => !x.2.2)

/-- rule `i` is a non-public application rule of the form `/<var>/x` dispatching `m`, and `n` is an exempt first segment -/
def firstSegCollision (t : Table) (pats : List (List Seg)) (names : List String) (i : Nat) (m n x : String) : Bool :=
  names.contains n && n != "" &&
  (match t.routes[i]?, pats[i]? with
   | some r, some p => !isPublic r && !r.static && r.methods.contains m && m != "OPTIONS" && p == [.var, .lit x]
   | _, _ => false)

end Bptk.C15
