import Bptk.Core.C06
/-
C07 — how a scenario's settings are resolved (four delivery channels) and applied to the model that
is simulated.  Executable, import-free apart from the store / dictionary vocabulary of `Bptk.Core.C06`
(`Store`, `Store.get/set/update/fill`, `Dict`, `RunSpec`).

Channels:
* dict  — `register_scenario_manager` / `register_scenarios` (`ScenarioManagerSd.add_scenarios`): the
          scenario dictionary is completed with the manager's `base_constants` / `base_points`;
* file  — scenario JSON files (`ScenarioManagerFactory.__readScenario`): the manager's base values are
          collected over ALL files (`__get_all_base_constants`: later files overwrite earlier ones key by
          key), then `load_scenarios` completes every scenario with them; `instantiate_model` creates the
          model object and (mechanism fact `fileRunspecsKept`) keeps or overwrites the scenario's run specs;
* session — `begin_session(settings=…)` → `SimulationScenario.configure_settings`;
* rest  — the `settings` block of `POST /run`.
Application (`SdRunner`): `change_equation` per constant, `change_points` per graphical function,
`change_runspecs` (mechanism fact `runspecStartApplied`: the start time reaches `model.starttime`, or a
misspelt attribute).
-/
namespace Bptk.C07
open Bptk.C06

structure Cfg where
  runspecStartApplied : Bool
  fileRunspecsKept : Bool
deriving DecidableEq, Repr

def Cfg.good (c : Cfg) : Bool := c.runspecStartApplied && c.fileRunspecsKept

/-- scenario-level settings -/
structure Settings where
  consts : Store
  pts : Store
  rs : RunSpec
deriving DecidableEq, Repr

/-- one scenario file's contribution to a manager -/
structure FileEntry where
  bc : Store
  bp : Store
  scns : List (Nat × Dict)
deriving Repr

def allBaseConsts (files : List FileEntry) : Store := files.foldl (fun acc f => Store.update acc f.bc) []
def allBasePts (files : List FileEntry) : Store := files.foldl (fun acc f => Store.update acc f.bp) []

/-- dict channel -/
def resolveDict (mrs : RunSpec) (bc bp : Store) (d : Dict) : Settings :=
  { consts := Store.fill d.consts bc, pts := Store.fill d.pts bp, rs := mrs.override d }

/-- file channel: scenario dictionary `d` found in one of `files` -/
def resolveFile (c : Cfg) (mrs : RunSpec) (files : List FileEntry) (d : Dict) : Settings :=
  { consts := Store.fill d.consts (allBaseConsts files), pts := Store.fill d.pts (allBasePts files),
    rs := if c.fileRunspecsKept then mrs.override d else mrs }

/-- session settings and REST settings on an existing scenario -/
def resolveSettings (s : Settings) (d : Dict) : Settings :=
  { consts := Store.update s.consts d.consts, pts := Store.update s.pts d.pts, rs := s.rs.override d }

/-- the model object that is simulated: constant overrides, points table, run specs -/
structure ModelSt where
  eqs : Store
  pts : Store
  rs : RunSpec
deriving DecidableEq, Repr

/-- `SdRunner`: change_equation / change_points / change_runspecs -/
def applyTo (c : Cfg) (m : ModelSt) (s : Settings) : ModelSt :=
  { eqs := Store.update m.eqs s.consts, pts := Store.update m.pts s.pts,
    rs := { start := if c.runspecStartApplied then s.rs.start else m.rs.start, stop := s.rs.stop, dt := s.rs.dt } }

/-- value a simulation reads for constant `k`: the override, else the model's own (`none`) -/
def ModelSt.const (m : ModelSt) (k : Nat) : Option Nat := Store.get m.eqs k
def ModelSt.points (m : ModelSt) (k : Nat) : Option Nat := Store.get m.pts k

/-- `scenario ⊕ base`: the scenario's value wins, the base fills -/
def oplus (scn base : Store) (k : Nat) : Option Nat :=
  match Store.get scn k with
  | some v => some v
  | none => Store.get base k

/-- later settings win over earlier ones -/
def over (newer older : Nat → Option Nat) (k : Nat) : Option Nat :=
  match newer k with
  | some v => some v
  | none => older k

/-- last binding of `k` in a dictionary literal given as a list (a Python dict keeps the last) -/
def lastOf (d : Store) (k : Nat) : Option Nat := Store.get d.reverse k

end Bptk.C07
