import Bptk.Core.C06
/-
C07 — how a scenario's settings are resolved (four delivery channels) and applied to the model that
is simulated.  Executable, import-free apart from the store / dictionary vocabulary of `Bptk.Core.C06`
(`Store`, `Store.get/set/update/fill`, `Dict`, `RunSpec`).

Channels:
* dict  — `register_scenario_manager` / `register_scenarios` (`ScenarioManagerSd.add_scenarios`): the
          scenario dictionary is completed with the manager's `base_constants` / `base_points`;
* file  — scenario JSON files (`ScenarioManagerFactory.__readScenario`): the manager's base values are
          collected over ALL files (`__get_all_base_constants`: later files overwrite earlier ones key by
          key), then `load_scenarios` completes every scenario with them; `instantiate_model` creates the
          model object and (mechanism fact `fileRunspecsKept`) keeps or overwrites the scenario's run specs;
* session — `begin_session(settings=…)` → `SimulationScenario.configure_settings`;
* rest  — the `settings` block of `POST /run`.
Application (`SdRunner`): `change_equation` per constant, `change_points` per graphical function,
`change_runspecs` (mechanism fact `runspecStartApplied`: the start time reaches `model.starttime`, or a
misspelt attribute).

Wave 2: the manager as a small heap machine (`MState`, `mstep`): the manager's `base_constants` /
`base_points` dictionaries are the one shareable cell; `add_scenarios` / `load_scenarios` give a scenario
without an own `constants` (`points`) block a FRESH dictionary filled from the base values, or (mechanism
fact `scenarioOwnsDicts = false`) the manager's base dictionary itself, in which case
`configure_settings` on that scenario (session / REST settings write `scenario.constants[k] = v` in place)
rewrites the base values for every such sibling and for scenarios registered later.
-/
namespace Bptk.C07
open Bptk.C06

structure Cfg where
  runspecStartApplied : Bool
  fileRunspecsKept : Bool
  /-- `add_scenarios` / `load_scenarios`: a scenario dictionary without an own `constants` / `points` block
  gets a fresh dictionary (true), or the manager's `base_constants` / `base_points` object itself (false) -/
  scenarioOwnsDicts : Bool
  /-- `SimulationScenario.__init__` / `configure_settings`: a run-spec override is taken over iff its KEY is present
  (true), or iff its value is truthy (false: `runspecs.get(key) or self.key` — `starttime: 0` is ignored) -/
  overrideByPresence : Bool := true
  /-- an evaluation reads a graphical function from the scenario model's CURRENT `points` table (true), or from a
  derived copy built on first use that only `Model.reset_cache()` drops — a path the settings channels never take
  (false: `Model._lookup_tables`) -/
  evalReadsCurrent : Bool := true
deriving DecidableEq, Repr

def Cfg.good (c : Cfg) : Bool :=
  c.runspecStartApplied && c.fileRunspecsKept && c.scenarioOwnsDicts && c.overrideByPresence && c.evalReadsCurrent

/-- scenario-level settings -/
structure Settings where
  consts : Store
  pts : Store
  rs : RunSpec
deriving DecidableEq, Repr

/-- one scenario file's contribution to a manager -/
structure FileEntry where
  bc : Store
  bp : Store
  scns : List (Nat × Dict)
deriving Repr

def allBaseConsts (files : List FileEntry) : Store := files.foldl (fun acc f => Store.update acc f.bc) []
def allBasePts (files : List FileEntry) : Store := files.foldl (fun acc f => Store.update acc f.bp) []

/-- dict channel -/
def resolveDict (mrs : RunSpec) (bc bp : Store) (d : Dict) : Settings :=
  { consts := Store.fill d.consts bc, pts := Store.fill d.pts bp, rs := mrs.override d }

/-- file channel: scenario dictionary `d` found in one of `files` -/
def resolveFile (c : Cfg) (mrs : RunSpec) (files : List FileEntry) (d : Dict) : Settings :=
  { consts := Store.fill d.consts (allBaseConsts files), pts := Store.fill d.pts (allBasePts files),
    rs := if c.fileRunspecsKept then mrs.override d else mrs }

/-- session settings and REST settings on an existing scenario -/
def resolveSettings (s : Settings) (d : Dict) : Settings :=
  { consts := Store.update s.consts d.consts, pts := Store.update s.pts d.pts, rs := s.rs.override d }

/-- how the scenario object takes over run specs from a dictionary (mechanism fact `overrideByPresence`) -/
def truthyOr (o : Option Nat) (cur : Nat) : Nat :=
  match o with
  | some v => if v = 0 then cur else v
  | none => cur

def rsOver (c : Cfg) (r : RunSpec) (d : Dict) : RunSpec :=
  if c.overrideByPresence then r.override d
  else { start := truthyOr d.start r.start, stop := truthyOr d.stop r.stop, dt := truthyOr d.dt r.dt }

/-- the channels as the code runs them (run specs through `rsOver`); `resolveDict` / `resolveFile` /
`resolveSettings` are what the statement demands (an override counts when its key is present) -/
def resolveDictC (c : Cfg) (mrs : RunSpec) (bc bp : Store) (d : Dict) : Settings :=
  { resolveDict mrs bc bp d with rs := rsOver c mrs d }

def resolveFileC (c : Cfg) (mrs : RunSpec) (files : List FileEntry) (d : Dict) : Settings :=
  { resolveFile c mrs files d with rs := if c.fileRunspecsKept then rsOver c mrs d else mrs }

def resolveSettingsC (c : Cfg) (s : Settings) (d : Dict) : Settings :=
  { resolveSettings s d with rs := rsOver c s.rs d }

/-- the model object that is simulated: constant overrides, points table, run specs -/
structure ModelSt where
  eqs : Store
  pts : Store
  rs : RunSpec
deriving DecidableEq, Repr

/-- `SdRunner`: change_equation / change_points / change_runspecs -/
def applyTo (c : Cfg) (m : ModelSt) (s : Settings) : ModelSt :=
  { eqs := Store.update m.eqs s.consts, pts := Store.update m.pts s.pts,
    rs := { start := if c.runspecStartApplied then s.rs.start else m.rs.start, stop := s.rs.stop, dt := s.rs.dt } }

/-- value a simulation reads for constant `k`: the override, else the model's own (`none`) -/
def ModelSt.const (m : ModelSt) (k : Nat) : Option Nat := Store.get m.eqs k
def ModelSt.points (m : ModelSt) (k : Nat) : Option Nat := Store.get m.pts k

/-! ### application reaches evaluation (wave 6)

The model object between evaluations: `tab` = tables derived from `points` on first use.  The settings channels
(`SdRunner` → `change_points` / `change_equation` / `change_runspecs`, after `SimulationScenario.reset_cache`, which empties
`model.memo` by hand) write the model's settings and never call `Model.reset_cache()`. -/
structure EvSt where
  m : ModelSt
  tab : Store
deriving DecidableEq, Repr

inductive EOp where
  | apply (s : Settings)      -- settings supplied (registration, session settings, REST settings) and applied by the runner
  | eval                      -- a run / a session step / a REST run evaluates the scenario
  | modelReset                -- `Model.reset_cache()` (modelling API; not on any settings path)
deriving Repr

/-- the table an evaluation uses for graphical function `k` -/
def readPts (c : Cfg) (st : EvSt) (k : Nat) : Option Nat :=
  if c.evalReadsCurrent then st.m.points k
  else match Store.get st.tab k with
    | some v => some v
    | none => st.m.points k

def estep (c : Cfg) (st : EvSt) : EOp → EvSt
  | .apply s => { st with m := applyTo c st.m s }
  | .eval => { st with tab := if c.evalReadsCurrent then st.tab else Store.fill st.tab st.m.pts }
  | .modelReset => { st with tab := [] }

def eexec (c : Cfg) (m : ModelSt) (ops : List EOp) : EvSt := ops.foldl (estep c) { m := m, tab := [] }

/-- `scenario ⊕ base`: the scenario's value wins, the base fills -/
def oplus (scn base : Store) (k : Nat) : Option Nat :=
  match Store.get scn k with
  | some v => some v
  | none => Store.get base k

/-- later settings win over earlier ones -/
def over (newer older : Nat → Option Nat) (k : Nat) : Option Nat :=
  match newer k with
  | some v => some v
  | none => older k

/-- last binding of `k` in a dictionary literal given as a list (a Python dict keeps the last) -/
def lastOf (d : Store) (k : Nat) : Option Nat := Store.get d.reverse k

/-! ### the manager with its scenarios: dictionary identity of the base values -/

/-- a registered scenario: `cAlias` — `scenario.constants` IS the manager's `base_constants` object -/
structure MScn where
  cAlias : Bool
  pAlias : Bool
  consts : Store
  pts : Store
  rs : RunSpec
deriving DecidableEq, Repr

structure MState where
  bc : Store                       -- manager.base_constants (the object, as it is now)
  bp : Store                       -- manager.base_points
  scns : Nat → Option MScn

inductive MOp where
  | add (i : Nat) (d : Dict)          -- register_scenarios({name_i: d}) / a scenario read from a file
  | configure (i : Nat) (d : Dict)    -- settings supplied to scenario i (begin_session settings, REST /run settings)
deriving Repr

def MOp.addr : MOp → Nat
  | .add i _ => i
  | .configure i _ => i

def mstep (c : Cfg) (mrs : RunSpec) (st : MState) : MOp → MState
  | .add i d =>
      let ca := !c.scenarioOwnsDicts && d.consts.isEmpty && !st.bc.isEmpty
      let pa := !c.scenarioOwnsDicts && d.pts.isEmpty && !st.bp.isEmpty
      let s : MScn := { cAlias := ca, pAlias := pa,
                        consts := if ca then [] else Store.fill d.consts st.bc,
                        pts := if pa then [] else Store.fill d.pts st.bp,
                        rs := mrs.override d }
      { st with scns := updFn st.scns i (some s) }
  | .configure i d =>
      match st.scns i with
      | none => st
      | some s =>
          let s1 : MScn := { s with consts := if s.cAlias then s.consts else Store.update s.consts d.consts,
                                    pts := if s.pAlias then s.pts else Store.update s.pts d.pts,
                                    rs := s.rs.override d }
          { bc := if s.cAlias then Store.update st.bc d.consts else st.bc,
            bp := if s.pAlias then Store.update st.bp d.pts else st.bp,
            scns := updFn st.scns i (some s1) }

def MState.init (bc bp : Store) : MState := { bc := bc, bp := bp, scns := fun _ => none }

def mexec (c : Cfg) (mrs : RunSpec) (bc bp : Store) (ops : List MOp) : MState :=
  ops.foldl (mstep c mrs) (MState.init bc bp)

/-- what scenario `i` carries (read through the aliases) -/
def mview (st : MState) (i : Nat) : Option Settings :=
  (st.scns i).map fun s =>
    { consts := if s.cAlias then st.bc else s.consts, pts := if s.pAlias then st.bp else s.pts, rs := s.rs }

/-- the reference: scenario `i` alone under a manager whose base values are `bc`, `bp` for ever -/
def msoloStep (mrs : RunSpec) (bc bp : Store) (i : Nat) (s : Option Settings) : MOp → Option Settings
  | .add j d => if j = i then some (resolveDict mrs bc bp d) else s
  | .configure j d => if j = i then s.map (fun x => resolveSettings x d) else s

def msolo (mrs : RunSpec) (bc bp : Store) (i : Nat) (ops : List MOp) : Option Settings :=
  ops.foldl (msoloStep mrs bc bp i) none

def emptyDict : Dict := { consts := [], pts := [], start := none, stop := none, dt := none }

/-- last file (in reading order) that binds `k` decides: `__get_all_base_constants` as a function of the list -/
def lastDef (p : FileEntry → Store) (fs : List FileEntry) (k : Nat) : Option Nat :=
  match fs with
  | [] => none
  | f :: rest =>
      match lastDef p rest k with
      | some v => some v
      | none => lastOf (p f) k

end Bptk.C07
