/-
C16 — isolation of server instances (`InstanceManager._instances[id]`, one `bptk` object per instance made by
the factory; `BPTK_Py/server/bptkServer.py`, `bptk.begin_session / run_step / session_results / end_session`).

Executable model, import-free.  Server state = one state machine per instance id plus the process-wide cell
`shared` (whatever the factory's products have in common: a base model whose `points` table the clones
alias).  `Cfg.instancesShareNothing` is the mechanism fact probed per factory style: a setting applied
through one instance is stored in that instance (true) or in the shared cell (false).

A setting is one integer knob (the harness uses a constant / a lookup table's height); a step adds the knob
to the stock.  Settings persist in the instance across sessions (the scenario object keeps them); a new
session resets clock, stock and log.
-/
namespace Bptk.C16

structure Cfg where
  instancesShareNothing : Bool
deriving DecidableEq, Repr

inductive Req where
  | beginSession
  | runStep (setting : Option Int)
  | results
  | endSession
  | keepAlive
  | stop
  | expire                 -- the instance's timeout elapses and a sweep removes it
deriving DecidableEq, Repr

structure Sess where
  clock : Nat
  stock : Int
  log : List (Nat × Int)
deriving DecidableEq, Repr

structure Inst where
  alive : Bool
  knob : Int
  sess : Option Sess
deriving DecidableEq, Repr

inductive Resp where
  | invalid                                  -- 500 "expecting a valid instance id"
  | noData                                   -- run-step without session: 500 "no data was returned"
  | started
  | stepped (t : Nat) (stock : Int) (knob : Int)
  | results (log : List (Nat × Int))
  | ended
  | timerReset
  | deleted
  | swept                                    -- (no response: the expiry is not a request)
deriving DecidableEq, Repr

def Inst.fresh : Inst := { alive := true, knob := 1, sess := none }

/-- `run-step` on a live instance with session `s`. -/
def runStep (c : Cfg) (g : Int) (x : Inst) (s : Sess) (setting : Option Int) : Int × Inst × Resp :=
  -- apply the setting: to the instance's own scenario, or to what all instances share
  let g' := if c.instancesShareNothing then g else setting.getD g
  let knobOwn := if c.instancesShareNothing then setting.getD x.knob else x.knob
  let k := if c.instancesShareNothing then knobOwn else g'
  (g', { x with knob := knobOwn,
                sess := some { clock := s.clock + 1, stock := s.stock + k, log := s.log ++ [(s.clock, s.stock)] } },
   .stepped s.clock s.stock k)

/-- one request on one instance.  `g` is the process-wide cell. -/
def stepInst (c : Cfg) (g : Int) (x : Inst) : Req → Int × Inst × Resp
  | .stop => (g, { x with alive := false, sess := none }, .deleted)
  | .expire => (g, { x with alive := false, sess := none }, .swept)
  | .beginSession =>
      if x.alive then (g, { x with sess := some { clock := 0, stock := 0, log := [] } }, .started) else (g, x, .invalid)
  | .runStep setting =>
      if x.alive then
        (match x.sess with
         | none => (g, x, .noData)
         | some s => runStep c g x s setting)
      else (g, x, .invalid)
  | .results => if x.alive then (g, x, .results ((x.sess.map (·.log)).getD [])) else (g, x, .invalid)
  | .endSession => if x.alive then (g, { x with sess := none }, .ended) else (g, x, .invalid)
  | .keepAlive => if x.alive then (g, x, .timerReset) else (g, x, .invalid)

structure Server where
  g : Int
  insts : List Inst
deriving DecidableEq, Repr

def Server.init (k : Nat) : Server := { g := 1, insts := List.replicate k Inst.fresh }

/-- a request addressed to instance `id` (ids are positions: the harness maps uuids to creation order). -/
def step (c : Cfg) (s : Server) (op : Nat × Req) : Server × Option Resp :=
  match s.insts[op.1]? with
  | none => (s, none)
  | some x =>
      let r := stepInst c s.g x op.2
      ({ g := r.1, insts := s.insts.set op.1 r.2.1 }, some r.2.2)

/-- responses to a request sequence, each tagged with the instance it was addressed to. -/
def resps (c : Cfg) : Server → List (Nat × Req) → List (Nat × Option Resp)
  | _, [] => []
  | s, op :: rest => (op.1, (step c s op).2) :: resps c (step c s op).1 rest

def final (c : Cfg) : Server → List (Nat × Req) → Server
  | s, [] => s
  | s, op :: rest => final c (step c s op).1 rest

def proj (i : Nat) (ops : List (Nat × Req)) : List (Nat × Req) := ops.filter (fun o => o.1 == i)

def respsOf (i : Nat) (l : List (Nat × Option Resp)) : List (Option Resp) :=
  (l.filter (fun o => o.1 == i)).map (·.2)

end Bptk.C16
