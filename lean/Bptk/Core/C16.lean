import Bptk.Core.C06
/-
C16 — isolation of server instances (`InstanceManager._instances[id]`, one `bptk` object per instance made by
the factory; `BPTK_Py/server/bptkServer.py`, `bptk.begin_session / run_step / session_results / end_session`).

Executable model, import-free.  Server state = one state machine per instance id plus the process-wide cell
`shared` (whatever the factory's products have in common: a base model whose `points` table the clones
alias).  `Cfg.instancesShareNothing` is the mechanism fact probed per factory style: a setting applied
through one instance is stored in that instance (true) or in the shared cell (false).

A setting is one integer knob (the harness uses a constant / a lookup table's height); a step adds the knob
to the stock.  Settings persist in the instance across sessions (the scenario object keeps them); a new
session resets clock, stock and log.

Wave 2 — the rest of the server inside the machine:
* `Server.own`: the server-level `bptk` object (`BptkServer._bptk`, one more product of the factory) that
  `POST /run`, `/equations` and `/agents` use.  These requests are addressed to no instance: their *owner* is
  `none`; `/run` settings persist in that object's scenario (or go to the shared cell).
* instances are created **during** the history (`create`; ids are the labels the harness gives to the uuids in
  creation order) — `Server.init k` still starts with `k` instances — and stopped during it.
* an external state adapter (`Server.ad`): `run-step` externalises the instance's session (`Inst.saved`);
  `expire` removes the instance from memory but not its externalised state; every later instance request
  restores it lazily (`revive`: a NEW factory product, the saved session, the session's settings re-applied and
  its steps replayed — `bptk._set_state`); `stop` deletes the externalised state as well.
* `begin-session` carries settings too (`beginSession (some v)`), as `run-step` does.

Wave 3 — requests to ids that are not in memory.  An instance request (begin-session, run-step, session-results,
end-session, keep-alive: the handlers that call `_ensure_instance_exists`) addressed to an id that is stopped, timed
out or never existed touches no other instance: `Cfg.restoreOnlyAddressed`.  The defective mechanism (`preRestore`,
`restoreAll`) rebuilds every instance of the external store, also those alive in memory, whose un-externalised
state (a session ended or begun since their last run-step) is thereby lost.  A request to an id that never
existed is answered `invalid` (`stop`: `deleted`).

Wave 5 — lifecycle and values.
* Every instance owns one factory product `Obj` (a `bptk` object with its scenario and model): scenario-level
  settings `scn` (what `configure_settings` / the `/run` settings write into `SimulationScenario.constants/points`),
  model-level overrides `mod` (what `change_equation` / `change_points` leave in the scenario's model: applied
  scenario settings and step settings), and the session.  Settings are stores `key ↦ value`; keys 0,1 are constants,
  keys ≥ 2 graphical functions (`isPts`).  Objects are owned linearly — by one instance, by the server, or (stopped
  and kept) by the spare list — so they are held inline.
* Lifecycle: `create` (start-instance) and the lazy restoration (`revive`) take their object from `takeObj`:
  the factory (`Cfg.freshObjects`: an object no earlier instance has written to, `Obj.fresh`), or — the defective
  mechanism — an object recycled from a stopped instance after `end_session()` only (`Server.spare`; its `scn` /
  `mod` survive).  `stop` removes the instance (and spares its object under the defective mechanism), `expire`
  removes it from memory, `Server.made` counts the factory calls.
* Values: a step's response is the time index together with the effective settings under which every step of the
  session's live simulation was computed (`Sess.memo`) — the data the numbers are a function of; `session-results`
  returns the logged (time, effective settings) rows; `/run` the effective settings of the run.  Any numeric
  simulator is a function of these (`C16_values` in Props); the harness evaluates the closed form of its SD
  model on them and compares with the real bodies.  Under sharing (`instancesShareNothing = false`: the clones'
  points table is the base model's) points settings go to the cell `g` when they are given (in the code: when they
  are applied) — the one remaining simplification, on the defective branch only.

Wave 6 — the process-level cell and the factory's output.  `Server.fac` is what `bptk_factory()` builds (the same on
every call): the theorems quantify over it (`Server.initF fac k ad`).  State that survives ACROSS factory calls in the
process is the cell `Proc`: `tbl`, the points table of a base model object a factory closes over, and `scn`, scenario
dictionaries kept by a process-wide cache (module globals: a cache of parsed scenario files that returns the loaded
dictionary itself).  `instancesShareNothing = false` means the products reach that cell; `sharedIsScenarioDicts` says
through which of the two: with the cache every product READS its scenario-level settings from `Proc.scn`
(`readScn`) and `configure_settings` / the `/run` settings WRITE into it (`writeScn`) — session-level settings of one
instance become the scenario settings of every other product, the server-level object included; step-level settings
(model-level writes) stay private.
-/
namespace Bptk.C16
open Bptk.C06 (Store)

structure Cfg where
  instancesShareNothing : Bool
  /-- `_ensure_instance_exists` for an id that is not in memory loads exactly the addressed instance from the
  external store (true; `load_instance(uuid)`), or rebuilds EVERY instance found in the store (false;
  `load_state()` + `reconstruct_instance` for each): instances alive in memory then lose their in-memory session
  and get the last externalised one. -/
  restoreOnlyAddressed : Bool
  /-- `InstanceManager._make_bptk` hands every started / restored instance an object that no earlier instance has
  written to (true: a new factory product each time), or (false) recycles the object of a stopped instance after
  `end_session()` only — scenario settings and model overrides written through the old instance survive. -/
  freshObjects : Bool
  /-- WHAT the factory products share when `instancesShareNothing = false`: the points table of one base model that
  the clones alias (false; a factory closing over one model object), or — true — the scenario dictionaries: state
  that survives across factory calls in the process (a module-level cache of parsed scenario files) hands the SAME
  mutable `constants` / `points` dictionaries to every product, and `configure_settings` writes into them in place.
  Irrelevant when nothing is shared. -/
  sharedIsScenarioDicts : Bool := false
  /-- a third thing the products of one server can reach when `instancesShareNothing = false`: HANDLER-level state —
  a class attribute of the server holding the defaults of the optional parts of a begin-session request, updated in
  place: a begin-session whose body has no `settings` key gets the settings of the last begin-session that carried
  the key, whichever instance that addressed. -/
  sharedIsHandlerDefaults : Bool := false
deriving DecidableEq, Repr

inductive Req where
  | beginSession (st : Store)     -- the body HAS a `settings` key (possibly empty)
  | beginOmit                     -- the body has NO `settings` key
  | runStep (st : Store)
  | results
  | endSession
  | keepAlive
  | stop
  | expire                 -- the instance's timeout elapses and a sweep removes it
  | create                 -- POST /start-instance; the new instance gets this id
  | run (st : Store)       -- POST /run on the server-level bptk
  | equations              -- POST /equations
  | agents                 -- POST /agents
deriving DecidableEq, Repr

/-- keys 0, 1: constants (`constant`, `k2`); keys ≥ 2: graphical functions (`tbl`, `tbl2`) -/
def isPts (k : Nat) : Bool := 2 ≤ k
def ptsOf (s : Store) : Store := s.filter (fun kv => isPts kv.1)
def constsOf (s : Store) : Store := s.filter (fun kv => !isPts kv.1)

structure Sess where
  clock : Nat
  live : Bool                     -- `sd_simulation` exists: the scenario settings were applied in this session
  memo : List Store               -- effective settings under which the steps of the live simulation were computed
  log : List (Nat × Store)        -- results log: (time, effective settings) of every step as reported
  sset : Store                    -- session settings (begin-session): re-applied by a restore
  slog : List Store               -- the settings passed with each step: replayed by a restore
deriving DecidableEq, Repr

/-- one factory product: a bptk object with its scenario and model -/
structure Obj where
  scn : Store
  mod : Store
  sess : Option Sess
deriving DecidableEq, Repr

structure Inst where
  alive : Bool
  obj : Obj
  saved : Option Sess      -- the externalised session state of this id (external state adapter)
deriving DecidableEq, Repr

inductive Resp where
  | invalid                                  -- 500 "expecting a valid instance id"
  | noData                                   -- run-step without session: 500 "no data was returned"
  | started
  | stepped (t : Nat) (memo : List Store)    -- time index + the effective settings of all steps computed so far
  | results (log : List (Nat × Store))
  | ended
  | timerReset
  | deleted
  | swept                                    -- (no response: the expiry is not a request)
  | created
  | ran (eff : Store)                        -- /run: the results are a function of the settings the run reads
  | names                                    -- /equations
  | noAgents                                 -- /agents on an SD model: 500 "expecting the model to have agents"
  | saveError                                -- run-step without session under an adapter: the state cannot be externalised
deriving DecidableEq, Repr

/-- the default factory output: the scenario lists `constant = 1`, nothing else -/
def Obj.fresh : Obj := { scn := [(0, 1)], mod := [], sess := none }

/-- The process-level cell: state that outlives a factory call and that every factory product can reach —
`tbl`: the points table of a base model object the factory closes over; `scn`: scenario dictionaries kept by a
process-wide cache (module globals). With `instancesShareNothing` it is neither read nor written. -/
structure Proc where
  tbl : Store
  scn : Store
  dflt : Store := []     -- handler-level state: the server class's default `settings` of a begin-session request
  -- (The cell stands for every kind of state that outlives a request in the process: module globals, class attributes and —
  --  wave 10 — mutable DEFAULT ARGUMENTS of functions (`def f(…, _applied={})`: one object per function for the whole process).
  --  A memo kept there and keyed by manager / scenario NAMES is reached by the sessions of all instances; the harness snapshots
  --  and restores these objects per server and records what requests write into them.)
deriving DecidableEq, Repr

/-- write settings into the MODEL of an object (`change_equation` / `change_points`).  Returns (process cell, own store). -/
def writeMod (c : Cfg) (g : Proc) (m upd : Store) : Proc × Store :=
  if c.instancesShareNothing then (g, Store.update m upd)
  else if c.sharedIsScenarioDicts || c.sharedIsHandlerDefaults then (g, Store.update m upd)
  else ({ g with tbl := Store.update g.tbl (ptsOf upd) }, Store.update m (constsOf upd))

/-- the settings a simulation on the object reads -/
def effOf (c : Cfg) (g : Proc) (m : Store) : Store :=
  if c.instancesShareNothing then m else if c.sharedIsScenarioDicts || c.sharedIsHandlerDefaults then m else m ++ g.tbl

/-- write settings into the SCENARIO dictionaries of an object (`configure_settings`, `/run` settings) -/
def writeScn (c : Cfg) (g : Proc) (scn upd : Store) : Proc × Store :=
  if c.instancesShareNothing then (g, Store.update scn upd)
  else if c.sharedIsScenarioDicts then ({ g with scn := Store.update g.scn upd }, scn)
  else if c.sharedIsHandlerDefaults then (g, Store.update scn upd)
  else ({ g with tbl := Store.update g.tbl (ptsOf upd) }, Store.update scn (constsOf upd))

/-- the scenario-level settings an object reads: its own dictionaries, or the process-wide ones -/
def readScn (c : Cfg) (g : Proc) (scn : Store) : Store :=
  if c.instancesShareNothing then scn else if c.sharedIsScenarioDicts then g.scn else scn

/-- `begin_session`: settings into the scenario, caches reset, new session -/
def objBegin (c : Cfg) (g : Proc) (o : Obj) (st : Store) : Proc × Obj :=
  let w := writeScn c g o.scn st
  (w.1, { o with scn := w.2, sess := some { clock := 0, live := false, memo := [], log := [], sset := st, slog := [] } })

/-- one step of the live simulation: the first step of a session applies the scenario settings to the model,
every step applies its own settings; the step is computed under the effective settings -/
def objStep (c : Cfg) (g : Proc) (o : Obj) (s : Sess) (st : Store) : Proc × Obj × Sess :=
  let m1 := if s.live then o.mod else Store.update o.mod (readScn c g o.scn)
  let w := writeMod c g m1 st
  let e := effOf c w.1 w.2
  let s' : Sess := { clock := s.clock + 1, live := true, memo := s.memo ++ [e], log := s.log ++ [(s.clock, e)],
                     sset := s.sset, slog := s.slog ++ [st] }
  (w.1, { o with mod := w.2, sess := some s' }, s')

/-- `bptk._set_state` on the object `o`: session settings re-applied, logged steps replayed with their settings -/
def replayStep (c : Cfg) (acc : Proc × Store × List Store) (st : Store) : Proc × Store × List Store :=
  let w := writeMod c acc.1 acc.2.1 st
  (w.1, w.2, acc.2.2 ++ [effOf c w.1 w.2])

def replay (c : Cfg) (g : Proc) (o : Obj) (s : Sess) : Proc × Obj :=
  let w := writeScn c g o.scn s.sset
  let m1 := if s.slog.isEmpty then o.mod else Store.update o.mod (readScn c w.1 w.2)
  let r := s.slog.foldl (replayStep c) (w.1, m1, [])
  (r.1, { scn := w.2, mod := r.2.1, sess := some { s with live := !s.slog.isEmpty, memo := r.2.2 } })

/-- `_ensure_instance_exists`: an instance that is not in memory is restored from the adapter, if there is one
and it holds a state for the id, onto the object `src` that `_make_bptk` supplies.  Returns (cell, instance,
whether `src` was used). -/
def revive (c : Cfg) (ad : Bool) (g : Proc) (src : Obj) (x : Inst) : Proc × Inst × Bool :=
  if x.alive then (g, x, false) else
  if ad then
    match x.saved with
    | some s => ((replay c g src s).1, { x with alive := true, obj := (replay c g src s).2 }, true)
    | none => (g, x, false)
  else (g, x, false)

/-- one request on one (existing) instance.  `g` is the process-wide cell, `ad`: an adapter is configured,
`src`: the object a restoration would be built on.  Returns (cell, instance, response, `src` used). -/
def stepInst (c : Cfg) (ad : Bool) (g : Proc) (src : Obj) (x : Inst) : Req → Proc × Inst × Resp × Bool
  | .stop => (g, { x with alive := false, obj := { x.obj with sess := none }, saved := none }, .deleted, false)
  | .expire => (g, { x with alive := false, obj := { x.obj with sess := none } }, .swept, false)
  | .create => (g, x, .invalid, false)
  | .run _ => (g, x, .invalid, false)
  | .equations => (g, x, .invalid, false)
  | .agents => (g, x, .invalid, false)
  | .beginSession st =>
      let r := revive c ad g src x
      if r.2.1.alive then
        -- the handler remembers the settings of the request in its (class-level) defaults — defective mechanism only
        let g1 : Proc := if !c.instancesShareNothing && c.sharedIsHandlerDefaults then { r.1 with dflt := st } else r.1
        let b := objBegin c g1 r.2.1.obj st
        (b.1, { r.2.1 with obj := b.2 }, .started, r.2.2)
      else (r.1, r.2.1, .invalid, r.2.2)
  | .beginOmit =>
      let r := revive c ad g src x
      if r.2.1.alive then
        -- no `settings` key: the handler's default — empty, or what the last request with the key left there
        let st : Store := if !c.instancesShareNothing && c.sharedIsHandlerDefaults then r.1.dflt else []
        let b := objBegin c r.1 r.2.1.obj st
        (b.1, { r.2.1 with obj := b.2 }, .started, r.2.2)
      else (r.1, r.2.1, .invalid, r.2.2)
  | .runStep st =>
      let r := revive c ad g src x
      if r.2.1.alive then
        (match r.2.1.obj.sess with
         | none => (r.1, r.2.1, if ad then .saveError else .noData, r.2.2)
         | some s =>
             let q := objStep c r.1 r.2.1.obj s st
             (q.1, { r.2.1 with obj := q.2.1, saved := if ad then some q.2.2 else r.2.1.saved },
              .stepped s.clock q.2.2.memo, r.2.2))
      else (r.1, r.2.1, .invalid, r.2.2)
  | .results =>
      let r := revive c ad g src x
      if r.2.1.alive then (r.1, r.2.1, .results ((r.2.1.obj.sess.map (·.log)).getD []), r.2.2)
      else (r.1, r.2.1, .invalid, r.2.2)
  | .endSession =>
      let r := revive c ad g src x
      if r.2.1.alive then (r.1, { r.2.1 with obj := { r.2.1.obj with sess := none } }, .ended, r.2.2)
      else (r.1, r.2.1, .invalid, r.2.2)
  | .keepAlive =>
      let r := revive c ad g src x
      if r.2.1.alive then (r.1, r.2.1, .timerReset, r.2.2) else (r.1, r.2.1, .invalid, r.2.2)

/-- a request on the server-level bptk object: `/run` writes its settings into the scenario, resets the cache
and runs (scenario settings applied to the model) -/
def stepOwn (c : Cfg) (g : Proc) (o : Obj) : Req → Proc × Obj × Resp
  | .run st =>
      let w := writeScn c g o.scn st
      let m := Store.update o.mod (readScn c w.1 w.2)
      (w.1, { o with scn := w.2, mod := m }, .ran (effOf c w.1 m))
  | .equations => (g, o, .names)
  | .agents => (g, o, .noAgents)
  | _ => (g, o, .invalid)

def Req.serverLevel : Req → Bool
  | .run _ => true
  | .equations => true
  | .agents => true
  | _ => false

structure Server where
  g : Proc
  ad : Bool
  fac : Obj              -- the factory's output: what `bptk_factory()` builds (the same on every call)
  own : Obj
  insts : Nat → Option Inst
  spare : List Obj       -- objects of stopped instances kept for reuse (always empty with `freshObjects`)
  made : Nat             -- number of factory calls so far

/-- a server whose factory builds `fac`: the server-level object and `k` instances are factory products; the
process cell starts with an empty shared table and the scenario dictionaries the factory reads -/
def Server.initF (fac : Obj) (k : Nat) (ad : Bool) : Server :=
  { g := { tbl := [], scn := fac.scn }, ad := ad, fac := fac, own := fac,
    insts := fun i => if i < k then some { alive := true, obj := fac, saved := none } else none,
    spare := [], made := k + 1 }

def Server.initAd (k : Nat) (ad : Bool) : Server := Server.initF Obj.fresh k ad

def Server.init (k : Nat) : Server := Server.initAd k false

def updFn {α : Type} (f : Nat → α) (k : Nat) (v : α) : Nat → α := fun x => if x = k then v else f x

/-- `_make_bptk`: the object the next started / restored instance gets -/
def takeObj (c : Cfg) (s : Server) : Obj :=
  if c.freshObjects then s.fac else
  match s.spare with
  | o :: _ => o
  | [] => s.fac

/-- the server after `_make_bptk` was called -/
def tookObj (c : Cfg) (s : Server) : Server :=
  if c.freshObjects then { s with made := s.made + 1 } else
  match s.spare with
  | _ :: rest => { s with spare := rest }
  | [] => { s with made := s.made + 1 }

/-- `_delete_instance`: the object of an instance that is in memory goes to the spare list after `end_session()`
(the defective mechanism only) -/
def spareObj (c : Cfg) (s : Server) (x : Inst) (r : Req) : Server :=
  if !c.freshObjects && x.alive && (r == .stop) then { s with spare := { x.obj with sess := none } :: s.spare } else s

/-- a request naming an id that never existed: `create` makes it (on the object `_make_bptk` supplies); the
instance handlers answer "expecting a valid instance id", stop-instance answers "Instance deleted." all the same;
a timeout of nothing is nothing. -/
def stepNone (c : Cfg) (s : Server) (i : Nat) : Req → Server × Option Resp
  | .create =>
      ({ tookObj c s with insts := updFn s.insts i (some { alive := true, obj := takeObj c s, saved := none }) }, some .created)
  | .expire => (s, none)
  | .stop => (s, some .deleted)
  | _ => (s, some .invalid)

/-- the handlers that call `_ensure_instance_exists` -/
def Req.ensures : Req → Bool
  | .beginSession _ => true
  | .beginOmit => true
  | .runStep _ => true
  | .results => true
  | .endSession => true
  | .keepAlive => true
  | _ => false

/-- `reconstruct_instance` from the externalised state, if the store holds one for the id -/
def rebuild (c : Cfg) (g : Proc) (fac : Obj) (x : Inst) : Inst :=
  match x.saved with
  | some s => { x with alive := true, obj := (replay c g fac s).2 }
  | none => x

def restoreAll (c : Cfg) (g : Proc) (fac : Obj) (f : Nat → Option Inst) : Nat → Option Inst :=
  fun j => (f j).map (rebuild c g fac)

/-- the id is not in memory: never existed, stopped or timed out -/
def absent (f : Nat → Option Inst) (i : Nat) : Bool :=
  match f i with
  | none => true
  | some x => !x.alive

/-- what `_ensure_instance_exists` does to the OTHER instances before the addressed one is looked at: nothing
(`restoreOnlyAddressed`), or — adapter configured, addressed id not in memory — every instance of the store is rebuilt. -/
def preRestore (c : Cfg) (s : Server) (op : Nat × Req) : Server :=
  if !c.restoreOnlyAddressed && s.ad && op.2.ensures && absent s.insts op.1 then
    { s with insts := restoreAll c s.g s.fac s.insts }
  else s

/-- a request; instance requests are addressed to instance `op.1`, server-level requests ignore it. -/
def step (c : Cfg) (s : Server) (op : Nat × Req) : Server × Option Resp :=
  if op.2.serverLevel then
    let r := stepOwn c s.g s.own op.2
    ({ s with g := r.1, own := r.2.1 }, some r.2.2)
  else
    let s := preRestore c s op
    match s.insts op.1 with
    | none => stepNone c s op.1 op.2
    | some x =>
        let r := stepInst c s.ad s.g (takeObj c s) x op.2
        let s1 := if r.2.2.2 then tookObj c s else s
        let s2 := spareObj c s1 x op.2
        ({ s2 with g := r.1, insts := updFn s.insts op.1 (some r.2.1) }, some r.2.2.1)

/-- whom a request belongs to: an instance, or (`none`) the server-level object -/
def owner (op : Nat × Req) : Option Nat := if op.2.serverLevel then none else some op.1

/-- responses to a request sequence, each tagged with its owner. -/
def resps (c : Cfg) : Server → List (Nat × Req) → List (Option Nat × Option Resp)
  | _, [] => []
  | s, op :: rest => (owner op, (step c s op).2) :: resps c (step c s op).1 rest

def final (c : Cfg) : Server → List (Nat × Req) → Server
  | s, [] => s
  | s, op :: rest => final c (step c s op).1 rest

def proj (t : Option Nat) (ops : List (Nat × Req)) : List (Nat × Req) := ops.filter (fun o => owner o == t)

def respsOf (t : Option Nat) (l : List (Option Nat × Option Resp)) : List (Option Resp) :=
  (l.filter (fun o => o.1 == t)).map (·.2)

/-- the part of the server a target owns -/
def comp (t : Option Nat) (s : Server) : Option Inst :=
  match t with
  | some i => s.insts i
  | none => some { alive := true, obj := s.own, saved := none }

end Bptk.C16
