/-
C16 — isolation of server instances (`InstanceManager._instances[id]`, one `bptk` object per instance made by
the factory; `BPTK_Py/server/bptkServer.py`, `bptk.begin_session / run_step / session_results / end_session`).

Executable model, import-free.  Server state = one state machine per instance id plus the process-wide cell
`shared` (whatever the factory's products have in common: a base model whose `points` table the clones
alias).  `Cfg.instancesShareNothing` is the mechanism fact probed per factory style: a setting applied
through one instance is stored in that instance (true) or in the shared cell (false).

A setting is one integer knob (the harness uses a constant / a lookup table's height); a step adds the knob
to the stock.  Settings persist in the instance across sessions (the scenario object keeps them); a new
session resets clock, stock and log.

Wave 2 — the rest of the server inside the machine:
* `Server.own`: the server-level `bptk` object (`BptkServer._bptk`, one more product of the factory) that
  `POST /run`, `/equations` and `/agents` use.  These requests are addressed to no instance: their *owner* is
  `none`; `/run` settings persist in that object's scenario (or go to the shared cell).
* instances are created **during** the history (`create`; ids are the labels the harness gives to the uuids in
  creation order) — `Server.init k` still starts with `k` instances — and stopped during it.
* an external state adapter (`Server.ad`): `run-step` externalises the instance's session (`Inst.saved`);
  `expire` removes the instance from memory but not its externalised state; every later instance request
  restores it lazily (`revive`: a NEW factory product, the saved session, the session's settings re-applied and
  its steps replayed — `bptk._set_state`); `stop` deletes the externalised state as well.
* `begin-session` carries settings too (`beginSession (some v)`), as `run-step` does.

Wave 3 — requests to ids that are not in memory.  An instance request (begin-session, run-step, session-results,
end-session, keep-alive: the handlers that call `_ensure_instance_exists`) addressed to an id that is stopped, timed
out or never existed touches no other instance: `Cfg.restoreOnlyAddressed`.  The defective mechanism (`preRestore`,
`restoreAll`) rebuilds every instance of the external store, also those alive in memory, whose un-externalised
state (a session ended or begun since their last run-step) is thereby lost.  A request to an id that never
existed is answered `invalid` (`stop`: `deleted`).
-/
namespace Bptk.C16

structure Cfg where
  instancesShareNothing : Bool
  /-- `_ensure_instance_exists` for an id that is not in memory loads exactly the addressed instance from the
  external store (true; `load_instance(uuid)`), or rebuilds EVERY instance found in the store (false;
  `load_state()` + `reconstruct_instance` for each): instances alive in memory then lose their in-memory session
  and get the last externalised one. -/
  restoreOnlyAddressed : Bool
deriving DecidableEq, Repr

inductive Req where
  | beginSession (setting : Option Int)
  | runStep (setting : Option Int)
  | results
  | endSession
  | keepAlive
  | stop
  | expire                 -- the instance's timeout elapses and a sweep removes it
  | create                 -- POST /start-instance; the new instance gets this id
  | run (setting : Option Int)   -- POST /run on the server-level bptk
  | equations              -- POST /equations
  | agents                 -- POST /agents
deriving DecidableEq, Repr

structure Sess where
  clock : Nat
  stock : Int
  log : List (Nat × Int)
  sknob : Option Int       -- the last setting applied within this session (what a replay re-applies)
deriving DecidableEq, Repr

structure Inst where
  alive : Bool
  knob : Int
  sess : Option Sess
  saved : Option Sess      -- the externalised session state of this id (external state adapter)
deriving DecidableEq, Repr

inductive Resp where
  | invalid                                  -- 500 "expecting a valid instance id"
  | noData                                   -- run-step without session: 500 "no data was returned"
  | started
  | stepped (t : Nat) (stock : Int) (knob : Int)
  | results (log : List (Nat × Int))
  | ended
  | timerReset
  | deleted
  | swept                                    -- (no response: the expiry is not a request)
  | created
  | ran (knob : Int)                         -- /run: the results are a function of the knob the run reads
  | names                                    -- /equations
  | noAgents                                 -- /agents on an SD model: 500 "expecting the model to have agents"
  | saveError                                -- run-step without session under an adapter: the state cannot be externalised
deriving DecidableEq, Repr

def Inst.fresh : Inst := { alive := true, knob := 1, sess := none, saved := none }

/-- apply a setting: to the object's own scenario, or to what all factory products share.
Returns (shared cell, own knob, the knob a simulation reads). -/
def applySetting (c : Cfg) (g : Int) (knob : Int) (setting : Option Int) : Int × Int × Int :=
  if c.instancesShareNothing then (g, setting.getD knob, setting.getD knob)
  else (setting.getD g, knob, setting.getD g)

/-- `_ensure_instance_exists`: an instance that is not in memory is restored from the adapter, if there is one
and it holds a state for the id: new factory product, saved session, settings re-applied / steps replayed. -/
def revive (c : Cfg) (ad : Bool) (g : Int) (x : Inst) : Int × Inst :=
  if x.alive then (g, x) else
  if ad then
    match x.saved with
    | some s => ((applySetting c g 1 s.sknob).1,
                 { x with alive := true, knob := (applySetting c g 1 s.sknob).2.1, sess := some s })
    | none => (g, x)
  else (g, x)

def orElse (a b : Option Int) : Option Int := match a with | some v => some v | none => b

/-- `run-step` on a live instance with session `s`. -/
def runStep (c : Cfg) (ad : Bool) (g : Int) (x : Inst) (s : Sess) (setting : Option Int) : Int × Inst × Resp :=
  let a := applySetting c g x.knob setting
  let s' : Sess := { clock := s.clock + 1, stock := s.stock + a.2.2, log := s.log ++ [(s.clock, s.stock)],
                     sknob := orElse setting s.sknob }
  (a.1, { x with knob := a.2.1, sess := some s', saved := if ad then some s' else x.saved },
   .stepped s.clock s.stock a.2.2)

/-- one request on one (existing) instance.  `g` is the process-wide cell, `ad`: an adapter is configured. -/
def stepInst (c : Cfg) (ad : Bool) (g : Int) (x : Inst) : Req → Int × Inst × Resp
  | .stop => (g, { x with alive := false, sess := none, saved := none }, .deleted)
  | .expire => (g, { x with alive := false, sess := none }, .swept)
  | .create => (g, x, .invalid)
  | .run _ => (g, x, .invalid)
  | .equations => (g, x, .invalid)
  | .agents => (g, x, .invalid)
  | .beginSession setting =>
      let r := revive c ad g x
      if r.2.alive then
        let a := applySetting c r.1 r.2.knob setting
        (a.1, { r.2 with knob := a.2.1, sess := some { clock := 0, stock := 0, log := [], sknob := setting } }, .started)
      else (r.1, r.2, .invalid)
  | .runStep setting =>
      let r := revive c ad g x
      if r.2.alive then
        (match r.2.sess with
         | none => (r.1, r.2, if ad then .saveError else .noData)
         | some s => runStep c ad r.1 r.2 s setting)
      else (r.1, r.2, .invalid)
  | .results =>
      let r := revive c ad g x
      if r.2.alive then (r.1, r.2, .results ((r.2.sess.map (·.log)).getD [])) else (r.1, r.2, .invalid)
  | .endSession =>
      let r := revive c ad g x
      if r.2.alive then (r.1, { r.2 with sess := none }, .ended) else (r.1, r.2, .invalid)
  | .keepAlive =>
      let r := revive c ad g x
      if r.2.alive then (r.1, r.2, .timerReset) else (r.1, r.2, .invalid)

/-- a request on the server-level bptk object -/
def stepOwn (c : Cfg) (g : Int) (x : Inst) : Req → Int × Inst × Resp
  | .run setting =>
      let a := applySetting c g x.knob setting
      (a.1, { x with knob := a.2.1 }, .ran a.2.2)
  | .equations => (g, x, .names)
  | .agents => (g, x, .noAgents)
  | _ => (g, x, .invalid)

def Req.serverLevel : Req → Bool
  | .run _ => true
  | .equations => true
  | .agents => true
  | _ => false

structure Server where
  g : Int
  ad : Bool
  own : Inst
  insts : Nat → Option Inst

def Server.initAd (k : Nat) (ad : Bool) : Server :=
  { g := 1, ad := ad, own := Inst.fresh, insts := fun i => if i < k then some Inst.fresh else none }

def Server.init (k : Nat) : Server := Server.initAd k false

def updFn {α : Type} (f : Nat → α) (k : Nat) (v : α) : Nat → α := fun x => if x = k then v else f x

/-- a request naming an id that never existed: `create` makes it; the instance handlers answer "expecting a valid
instance id", stop-instance answers "Instance deleted." all the same; a timeout of nothing is nothing. -/
def stepNone (s : Server) (i : Nat) : Req → Server × Option Resp
  | .create => ({ s with insts := updFn s.insts i (some Inst.fresh) }, some .created)
  | .expire => (s, none)
  | .stop => (s, some .deleted)
  | _ => (s, some .invalid)

/-- the handlers that call `_ensure_instance_exists` -/
def Req.ensures : Req → Bool
  | .beginSession _ => true
  | .runStep _ => true
  | .results => true
  | .endSession => true
  | .keepAlive => true
  | _ => false

/-- `reconstruct_instance` from the externalised state, if the store holds one for the id -/
def rebuild (c : Cfg) (g : Int) (x : Inst) : Inst :=
  match x.saved with
  | some s => { x with alive := true, knob := (applySetting c g 1 s.sknob).2.1, sess := some s }
  | none => x

def restoreAll (c : Cfg) (g : Int) (f : Nat → Option Inst) : Nat → Option Inst := fun j => (f j).map (rebuild c g)

/-- the id is not in memory: never existed, stopped or timed out -/
def absent (f : Nat → Option Inst) (i : Nat) : Bool :=
  match f i with
  | none => true
  | some x => !x.alive

/-- what `_ensure_instance_exists` does to the OTHER instances before the addressed one is looked at: nothing
(`restoreOnlyAddressed`), or — adapter configured, addressed id not in memory — every instance of the store is rebuilt. -/
def preRestore (c : Cfg) (s : Server) (op : Nat × Req) : Server :=
  if !c.restoreOnlyAddressed && s.ad && op.2.ensures && absent s.insts op.1 then
    { s with insts := restoreAll c s.g s.insts }
  else s

/-- a request; instance requests are addressed to instance `op.1`, server-level requests ignore it. -/
def step (c : Cfg) (s : Server) (op : Nat × Req) : Server × Option Resp :=
  if op.2.serverLevel then
    let r := stepOwn c s.g s.own op.2
    ({ s with g := r.1, own := r.2.1 }, some r.2.2)
  else
    let s := preRestore c s op
    match s.insts op.1 with
    | none => stepNone s op.1 op.2
    | some x =>
        let r := stepInst c s.ad s.g x op.2
        ({ s with g := r.1, insts := updFn s.insts op.1 (some r.2.1) }, some r.2.2)

/-- whom a request belongs to: an instance, or (`none`) the server-level object -/
def owner (op : Nat × Req) : Option Nat := if op.2.serverLevel then none else some op.1

/-- responses to a request sequence, each tagged with its owner. -/
def resps (c : Cfg) : Server → List (Nat × Req) → List (Option Nat × Option Resp)
  | _, [] => []
  | s, op :: rest => (owner op, (step c s op).2) :: resps c (step c s op).1 rest

def final (c : Cfg) : Server → List (Nat × Req) → Server
  | s, [] => s
  | s, op :: rest => final c (step c s op).1 rest

def proj (t : Option Nat) (ops : List (Nat × Req)) : List (Nat × Req) := ops.filter (fun o => owner o == t)

def respsOf (t : Option Nat) (l : List (Option Nat × Option Resp)) : List (Option Resp) :=
  (l.filter (fun o => o.1 == t)).map (·.2)

/-- the part of the server a target owns -/
def comp (t : Option Nat) (s : Server) : Option Inst :=
  match t with
  | some i => s.insts i
  | none => some s.own

end Bptk.C16
