/-
C19 — externalised instance state (`BPTK_Py.externalstateadapter`, `BPTK_Py.util.statecompression`,
`InstanceManager._get_instance_state / reconstruct_instance`, `bptk.run_step` logging).

Executable model, import-free.

* A step time is an `Int` (multiples of a fixed unit; the harness uses 1/1024 — start times and dt on
  a lattice where float arithmetic is exact, so the step keys of the Python logs are these numbers).
* The nested dictionaries `{manager: {scenario: {value_type: {name: value}}}}` (settings) and
  `{manager: {scenario: {equation: {step: value}}}}` (results) are flattened: a `Path` is the tuple of
  names (numbered by the harness), a `Row` is an association list path ↦ value (Python dict, insertion
  order).  Values are opaque strings (the harness sends the IEEE bit pattern).
* The compressed format is the one written by `compress_settings/compress_results` after the repair
  `C19-compression-keeps-steps`: `{"steps": [...], "values": columns}`; a settings column holds
  `[index, value]` pairs, a results column plain values.
-/
namespace Bptk.C19

abbrev Time := Int
abbrev Path := Nat
abbrev Val := String
abbrev Row := List (Path × Val)
abbrev Log := List (Time × Row)

/-- dictionary lookup -/
def lookup (p : Path) : Row → Option Val
  | [] => none
  | (q, v) :: r => if q = p then some v else lookup p r

/-- `if not name in d: d[name] = …` — first-seen order of the keys -/
def insertNew (acc : List Path) (p : Path) : List Path := if p ∈ acc then acc else acc ++ [p]

/-- all paths occurring in a log, in the order the nested loops of `compress_*` first meet them -/
def allPaths (log : Log) : List Path := (log.flatMap (fun e => e.2.map (·.1))).foldl insertNew []

/-- settings column of path `p`: `[index, value]` for every step whose settings contain `p` -/
def sparseCol (p : Path) : Nat → Log → List (Nat × Val)
  | _, [] => []
  | i, (_, row) :: rest =>
    match lookup p row with
    | some v => (i, v) :: sparseCol p (i + 1) rest
    | none => sparseCol p (i + 1) rest

/-- results column of path `p`: the values, one per step that reports `p` -/
def denseCol (p : Path) : Log → List Val
  | [] => []
  | (_, row) :: rest =>
    match lookup p row with
    | some v => v :: denseCol p rest
    | none => denseCol p rest

structure CSettings where
  steps : List Time
  cols : List (Path × List (Nat × Val))
deriving DecidableEq, Repr

structure CResults where
  steps : List Time
  cols : List (Path × List Val)
deriving DecidableEq, Repr

def compressSettings (log : Log) : CSettings :=
  { steps := log.map (·.1), cols := (allPaths log).map fun p => (p, sparseCol p 0 log) }

def compressResults (log : Log) : CResults :=
  { steps := log.map (·.1), cols := (allPaths log).map fun p => (p, denseCol p log) }

def lookupIdx (i : Nat) : List (Nat × Val) → Option Val
  | [] => none
  | (j, v) :: r => if j = i then some v else lookupIdx i r

def sparseEntry (i : Nat) (pc : Path × List (Nat × Val)) : Option (Path × Val) :=
  (lookupIdx i pc.2).map fun v => (pc.1, v)

def denseEntry (i : Nat) (pc : Path × List Val) : Option (Path × Val) :=
  (pc.2[i]?).map fun v => (pc.1, v)

/-- `result[steps[i]]` after all columns have been distributed -/
def rowOfSparse (cols : List (Path × List (Nat × Val))) (i : Nat) : Row := cols.filterMap (sparseEntry i)
def rowOfDense (cols : List (Path × List Val)) (i : Nat) : Row := cols.filterMap (denseEntry i)

/-- `for step in steps: result[step] = {}` followed by the distribution of the columns -/
def rebuild (rowAt : Nat → Row) : Nat → List Time → Log
  | _, [] => []
  | i, k :: ks => (k, rowAt i) :: rebuild rowAt (i + 1) ks

def decompressSettings (c : CSettings) : Log := rebuild (rowOfSparse c.cols) 0 c.steps
def decompressResults (c : CResults) : Log := rebuild (rowOfDense c.cols) 0 c.steps

/-! ### the session (`bptk.session_state`) -/

structure RunSpec where
  paths : List Path      -- requested results: manager × scenario × equation
  start : Time
  dt : Time
  stop : Time
deriving DecidableEq, Repr

structure Session where
  spec : RunSpec         -- scenario managers, scenarios, equations, starttime, stoptime, dt
  step : Time            -- the session clock
  settingsLog : Log
  resultsLog : Log
deriving DecidableEq, Repr

def begin (spec : RunSpec) : Session := { spec := spec, step := spec.start, settingsLog := [], resultsLog := [] }

/-- one `run_step`: `settings = none` is a request without body (logged as `{}` since the repair
`C19-none-settings`); `val` is what the simulation returns for each requested path. -/
structure StepOp where
  settings : Option Row
  val : Path → Val

def runStep (s : Session) (op : StepOp) : Session :=
  if s.step > s.spec.stop then s        -- "Stoptime reached": nothing is logged
  else { s with step := s.step + s.spec.dt
                settingsLog := s.settingsLog ++ [(s.step, op.settings.getD [])]
                resultsLog := s.resultsLog ++ [(s.step, s.spec.paths.map fun p => (p, op.val p))] }

def run (spec : RunSpec) (ops : List StepOp) : Session := ops.foldl runStep (begin spec)

/-- `session_results(index_by_time=False)`: per requested path the series step ↦ value -/
def series (p : Path) : Log → List (Time × Val)
  | [] => []
  | (k, row) :: rest =>
    match lookup p row with
    | some v => (k, v) :: series p rest
    | none => series p rest

def sessionResults (s : Session) : List (Path × List (Time × Val)) :=
  s.spec.paths.map fun p => (p, series p s.resultsLog)

/-! ### the adapter -/

/-- what `jsonpickle.dumps(state.state)` receives -/
inductive Stored where
  | plain (s : Session)
  | compressed (spec : RunSpec) (step : Time) (cs : CSettings) (cr : CResults)
deriving DecidableEq, Repr

def store (compress : Bool) (s : Session) : Stored :=
  if compress then .compressed s.spec s.step (compressSettings s.settingsLog) (compressResults s.resultsLog)
  else .plain s

def unstore : Stored → Session
  | .plain s => s
  | .compressed spec step cs cr =>
    { spec := spec, step := step, settingsLog := decompressSettings cs, resultsLog := decompressResults cr }

/-- `InstanceState` without the time stamp (re-created on load) -/
structure InstanceState where
  id : Nat
  timeout : Nat
  step : Time
  state : Session
deriving DecidableEq, Repr

/-- the FileAdapter envelope `{"data": {state, instance_id, time, timeout, step}}` -/
structure Envelope where
  id : Nat
  timeout : Nat
  step : Time
  stored : Stored
deriving DecidableEq, Repr

/-- jsonpickle inside jsonpickle, abstractly: any encoder with a decoder that inverts it
(the law is a hypothesis of the theorems, `Codec.Lawful`); `σ` is the type of file contents. -/
structure Codec (σ : Type) where
  enc : Envelope → σ
  dec : σ → Option Envelope

/-- the state directory: file name (instance id) ↦ content -/
abbrev Files (σ : Type) := Nat → Option σ

def saveInstance {σ : Type} (cd : Codec σ) (compress : Bool) (fs : Files σ) (st : InstanceState) : Files σ :=
  fun i => if i = st.id then some (cd.enc { id := st.id, timeout := st.timeout, step := st.step,
                                             stored := store compress st.state }) else fs i

def loadInstance {σ : Type} (cd : Codec σ) (fs : Files σ) (id : Nat) : Option InstanceState :=
  match (fs id).bind cd.dec with
  | some e => some { id := e.id, timeout := e.timeout, step := e.step, state := unstore e.stored }
  | none => none

/-- `save_state`: one file per instance -/
def saveState {σ : Type} (cd : Codec σ) (compress : Bool) (fs : Files σ) (sts : List InstanceState) : Files σ :=
  sts.foldl (saveInstance cd compress) fs

/-- `load_state` over a directory listing; unreadable files are skipped (repair `C20-load-skips-unreadable`) -/
def loadState {σ : Type} (cd : Codec σ) (fs : Files σ) (listing : List Nat) : List InstanceState :=
  listing.filterMap (loadInstance cd fs)

/-- `_get_instance_state` -/
def instanceState (id timeout : Nat) (s : Session) : InstanceState :=
  { id := id, timeout := timeout, step := s.step, state := s }

end Bptk.C19
