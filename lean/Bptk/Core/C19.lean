/-
C19 — externalised instance state (`BPTK_Py.externalstateadapter`, `BPTK_Py.util.statecompression`,
`InstanceManager._get_instance_state / reconstruct_instance`, `bptk.run_step` logging).

Executable model, import-free.

* A step time is an `Int` (multiples of a fixed unit; the harness uses 1/1024 — start times and dt on
  a lattice where float arithmetic is exact, so the step keys of the Python logs are these numbers).
* The nested dictionaries `{manager: {scenario: {value_type: {name: value}}}}` (settings) and
  `{manager: {scenario: {equation: {step: value}}}}` (results) are flattened: a `Path` is the tuple of
  names (numbered by the harness), a `Row` is an association list path ↦ value (Python dict, insertion
  order).  Values are opaque strings (the harness sends the IEEE bit pattern).
* The compressed format is the one written by `compress_settings/compress_results` after the repair
  `C19-compression-keeps-steps`: `{"steps": [...], "values": columns}`; a settings column holds
  `[index, value]` pairs, a results column plain values.
-/
namespace Bptk.C19

abbrev Time := Int
abbrev Path := Nat
abbrev Val := String
abbrev Row := List (Path × Val)
abbrev Log := List (Time × Row)

/-- dictionary lookup -/
def lookup (p : Path) : Row → Option Val
  | [] => none
  | (q, v) :: r => if q = p then some v else lookup p r

/-- `if not name in d: d[name] = …` — first-seen order of the keys -/
def insertNew (acc : List Path) (p : Path) : List Path := if p ∈ acc then acc else acc ++ [p]

/-- all paths occurring in a log, in the order the nested loops of `compress_*` first meet them -/
def allPaths (log : Log) : List Path := (log.flatMap (fun e => e.2.map (·.1))).foldl insertNew []

/-- settings column of path `p`: `[index, value]` for every step whose settings contain `p` -/
def sparseCol (p : Path) : Nat → Log → List (Nat × Val)
  | _, [] => []
  | i, (_, row) :: rest =>
    match lookup p row with
    | some v => (i, v) :: sparseCol p (i + 1) rest
    | none => sparseCol p (i + 1) rest

/-- results column of path `p`: the values, one per step that reports `p` -/
def denseCol (p : Path) : Log → List Val
  | [] => []
  | (_, row) :: rest =>
    match lookup p row with
    | some v => v :: denseCol p rest
    | none => denseCol p rest

structure CSettings where
  steps : List Time
  cols : List (Path × List (Nat × Val))
deriving DecidableEq, Repr

structure CResults where
  steps : List Time
  cols : List (Path × List Val)
deriving DecidableEq, Repr

def compressSettings (log : Log) : CSettings :=
  { steps := log.map (·.1), cols := (allPaths log).map fun p => (p, sparseCol p 0 log) }

def compressResults (log : Log) : CResults :=
  { steps := log.map (·.1), cols := (allPaths log).map fun p => (p, denseCol p log) }

def lookupIdx (i : Nat) : List (Nat × Val) → Option Val
  | [] => none
  | (j, v) :: r => if j = i then some v else lookupIdx i r

def sparseEntry (i : Nat) (pc : Path × List (Nat × Val)) : Option (Path × Val) :=
  (lookupIdx i pc.2).map fun v => (pc.1, v)

def denseEntry (i : Nat) (pc : Path × List Val) : Option (Path × Val) :=
  (pc.2[i]?).map fun v => (pc.1, v)

/-- `result[steps[i]]` after all columns have been distributed -/
def rowOfSparse (cols : List (Path × List (Nat × Val))) (i : Nat) : Row := cols.filterMap (sparseEntry i)
def rowOfDense (cols : List (Path × List Val)) (i : Nat) : Row := cols.filterMap (denseEntry i)

/-- `for step in steps: result[step] = {}` followed by the distribution of the columns -/
def rebuild (rowAt : Nat → Row) : Nat → List Time → Log
  | _, [] => []
  | i, k :: ks => (k, rowAt i) :: rebuild rowAt (i + 1) ks

def decompressSettings (c : CSettings) : Log := rebuild (rowOfSparse c.cols) 0 c.steps
def decompressResults (c : CResults) : Log := rebuild (rowOfDense c.cols) 0 c.steps

/-! ### the session (`bptk.session_state`) -/

structure RunSpec where
  paths : List Path      -- requested results: manager × scenario × equation
  start : Time
  dt : Time
  stop : Time
deriving DecidableEq, Repr

structure Session where
  spec : RunSpec         -- scenario managers, scenarios, equations, starttime, stoptime, dt
  step : Time            -- the session clock
  settingsLog : Log
  resultsLog : Log
deriving DecidableEq, Repr

def begin (spec : RunSpec) : Session := { spec := spec, step := spec.start, settingsLog := [], resultsLog := [] }

/-- one `run_step`: `settings = none` is a request without body (logged as `{}` since the repair
`C19-none-settings`); `val` is what the simulation returns for each requested path. -/
structure StepOp where
  settings : Option Row
  val : Path → Val

def runStep (s : Session) (op : StepOp) : Session :=
  if s.step > s.spec.stop then s        -- "Stoptime reached": nothing is logged
  else { s with step := s.step + s.spec.dt
                settingsLog := s.settingsLog ++ [(s.step, op.settings.getD [])]
                resultsLog := s.resultsLog ++ [(s.step, s.spec.paths.map fun p => (p, op.val p))] }

def run (spec : RunSpec) (ops : List StepOp) : Session := ops.foldl runStep (begin spec)

/-- `session_results(index_by_time=False)`: per requested path the series step ↦ value -/
def series (p : Path) : Log → List (Time × Val)
  | [] => []
  | (k, row) :: rest =>
    match lookup p row with
    | some v => (k, v) :: series p rest
    | none => series p rest

def sessionResults (s : Session) : List (Path × List (Time × Val)) :=
  s.spec.paths.map fun p => (p, series p s.resultsLog)

/-! ### the adapter -/

/-- what `jsonpickle.dumps(state.state)` receives -/
inductive Stored where
  | plain (s : Session)
  | compressed (spec : RunSpec) (step : Time) (cs : CSettings) (cr : CResults)
deriving DecidableEq, Repr

def store (compress : Bool) (s : Session) : Stored :=
  if compress then .compressed s.spec s.step (compressSettings s.settingsLog) (compressResults s.resultsLog)
  else .plain s

def unstore : Stored → Session
  | .plain s => s
  | .compressed spec step cs cr =>
    { spec := spec, step := step, settingsLog := decompressSettings cs, resultsLog := decompressResults cr }

/-- `InstanceState` without the time stamp (re-created on load) -/
structure InstanceState where
  id : Nat
  timeout : Nat
  step : Time
  state : Session
deriving DecidableEq, Repr

/-- the FileAdapter envelope `{"data": {state, instance_id, time, timeout, step}}` -/
structure Envelope where
  id : Nat
  timeout : Nat
  step : Time
  stored : Stored
deriving DecidableEq, Repr

/-- jsonpickle inside jsonpickle, abstractly: any encoder with a decoder that inverts it
(the law is a hypothesis of the theorems, `Codec.Lawful`); `σ` is the type of file contents. -/
structure Codec (σ : Type) where
  enc : Envelope → σ
  dec : σ → Option Envelope

/-- the state directory: file name (instance id) ↦ content -/
abbrev Files (σ : Type) := Nat → Option σ

def saveInstance {σ : Type} (cd : Codec σ) (compress : Bool) (fs : Files σ) (st : InstanceState) : Files σ :=
  fun i => if i = st.id then some (cd.enc { id := st.id, timeout := st.timeout, step := st.step,
                                             stored := store compress st.state }) else fs i

def loadInstance {σ : Type} (cd : Codec σ) (fs : Files σ) (id : Nat) : Option InstanceState :=
  match (fs id).bind cd.dec with
  | some e => some { id := e.id, timeout := e.timeout, step := e.step, state := unstore e.stored }
  | none => none

/-- `save_state`: one file per instance -/
def saveState {σ : Type} (cd : Codec σ) (compress : Bool) (fs : Files σ) (sts : List InstanceState) : Files σ :=
  sts.foldl (saveInstance cd compress) fs

/-- `load_state` over a directory listing; unreadable files are skipped (repair `C20-load-skips-unreadable`) -/
def loadState {σ : Type} (cd : Codec σ) (fs : Files σ) (listing : List Nat) : List InstanceState :=
  listing.filterMap (loadInstance cd fs)

/-- `_get_instance_state` -/
def instanceState (id timeout : Nat) (s : Session) : InstanceState :=
  { id := id, timeout := timeout, step := s.step, state := s }

/-! ### jsonpickle: object graphs and `py/id` back-references (wave 2)

`jsonpickle.dumps` walks the object graph depth first; every dict / list object gets the next number
(root = 0) when it is first met, and a later occurrence of the SAME object is written as
`{"py/id": n}`.  `jsonpickle.loads` numbers the objects it creates in the same order and resolves
`{"py/id": n}` to the n-th object.  `run_step` logs the settings object it was given
(`settings_log[step] = settings`, no copy), `run-steps` passes the one object of the request body to every
step, `copy.deepcopy` in `_get_instance_state` keeps the sharing — so the written state contains
back-references as soon as one settings object is logged for several steps. -/

/-- a scalar: string or number (dictionary keys, atoms) -/
inductive Sc where
  | str (s : String)
  | num (n : Int)
deriving DecidableEq, Repr

/-- object identity (two components so that disjoint families of objects need no arithmetic) -/
abbrev Addr := Nat × Nat

mutual
/-- a Python value as the pickler sees it -/
inductive PV where
  | atom (s : Sc)                                   -- None, bool, number, string: written by value
  | obj (a : Addr) (isList : Bool) (kids : Kids)    -- dict / list object with identity `a`
  | fresh (isList : Bool) (kids : Kids)             -- dict / list object that nothing else refers to
deriving DecidableEq, Repr
inductive Kids where
  | nil
  | cons (k : Sc) (v : PV) (rest : Kids)            -- list elements carry the key `num 0`
deriving DecidableEq, Repr
end

mutual
/-- the JSON text (as a tree); `ref n` is `{"py/id": n}` -/
inductive J where
  | atom (s : Sc)
  | obj (isList : Bool) (kids : JKids)
  | ref (n : Nat)
deriving DecidableEq, Repr
inductive JKids where
  | nil
  | cons (k : Sc) (v : J) (rest : JKids)
deriving DecidableEq, Repr
end

/-- pickler state: next object number, numbers of the identified objects met so far -/
structure ES where
  next : Nat
  tab : List (Addr × Nat)
deriving DecidableEq, Repr

def lk (a : Addr) : List (Addr × Nat) → Option Nat
  | [] => none
  | (b, n) :: r => if b = a then some n else lk a r

mutual
def enc : PV → ES → J × ES
  | .atom s, es => (.atom s, es)
  | .fresh l kids, es =>
    let r := encKids kids { next := es.next + 1, tab := es.tab }
    (.obj l r.1, r.2)
  | .obj a l kids, es =>
    match lk a es.tab with
    | some n => (.ref n, es)
    | none =>
      let r := encKids kids { next := es.next + 1, tab := (a, es.next) :: es.tab }
      (.obj l r.1, r.2)
def encKids : Kids → ES → JKids × ES
  | .nil, es => (.nil, es)
  | .cons k v rest, es =>
    let r1 := enc v es
    let r2 := encKids rest r1.2
    (.cons k r1.1 r2.1, r2.2)
end

/-- unpickler state: next object number, the objects completed so far -/
structure DS where
  next : Nat
  done : List (Nat × J)
deriving DecidableEq, Repr

def lkD (n : Nat) : List (Nat × J) → Option J
  | [] => none
  | (m, v) :: r => if m = n then some v else lkD n r

/-- what a reader that does not know `py/id` makes of a back-reference: a dictionary with that one key -/
def refAsDict (n : Nat) : J := .obj false (.cons (.str "py/id") (.atom (.num n)) .nil)

mutual
/-- `resolve = true`: `jsonpickle.loads`; `resolve = false`: a plain JSON reader (`json.loads`).
The result is the value as Python's `==` sees it (a tree without references). -/
def dec (resolve : Bool) : J → DS → Option (J × DS)
  | .atom s, ds => some (.atom s, ds)
  | .ref n, ds =>
    if resolve then (lkD n ds.done).map fun v => (v, ds) else some (refAsDict n, ds)
  | .obj l kids, ds =>
    match decKids resolve kids { next := ds.next + 1, done := ds.done } with
    | none => none
    | some r => some (.obj l r.1, { next := r.2.next, done := (ds.next, .obj l r.1) :: r.2.done })
def decKids (resolve : Bool) : JKids → DS → Option (JKids × DS)
  | .nil, ds => some (.nil, ds)
  | .cons k v rest, ds =>
    match dec resolve v ds with
    | none => none
    | some r1 =>
      match decKids resolve rest r1.2 with
      | none => none
      | some r2 => some (.cons k r1.1 r2.1, r2.2)
end

mutual
/-- the value without identities (what `==` compares) -/
def unfold : PV → J
  | .atom s => .atom s
  | .obj _ l kids => .obj l (unfoldKids kids)
  | .fresh l kids => .obj l (unfoldKids kids)
def unfoldKids : Kids → JKids
  | .nil => .nil
  | .cons k v rest => .cons k (unfold v) (unfoldKids rest)
end

def encode (t : PV) : J := (enc t { next := 0, tab := [] }).1
def decode (resolve : Bool) (j : J) : Option J := (dec resolve j { next := 0, done := [] }).map (·.1)

mutual
/-- no back-reference occurs in the text -/
def noRef : J → Bool
  | .atom _ => true
  | .ref _ => false
  | .obj _ kids => noRefKids kids
def noRefKids : JKids → Bool
  | .nil => true
  | .cons _ v rest => noRef v && noRefKids rest
end

/-! ### the settings part of a stored session as an object graph

`ident i` is the identity of the settings object logged by the i-th step (any aliasing pattern a client
can produce: `run-steps` gives `numberSteps` consecutive steps the same object, `bptk.run_step(settings=s)`
in a loop any pattern).  Aliased entries necessarily have the same content at save time, so the identity
used is the first index with the same `ident` AND the same content (`canon`) — consistent for every
`ident` whatsoever.  Values that are lists (`points` tables) are objects of their own. -/

/-- the hex of the JSON text of a value starts with `[` or `{` -/
def compound (v : Val) : Bool := v.startsWith "5b" || v.startsWith "7b"

def valPV (v : Val) : PV :=
  if compound v then .fresh true (.cons (.num 0) (.atom (.str v)) .nil) else .atom (.str v)

def rowKids : Row → Kids
  | [] => .nil
  | (p, v) :: r => .cons (.num p) (valPV v) (rowKids r)

/-- first index with the same identity and the same content -/
def canon {α : Type} [BEq α] (ident : Nat → Nat) (items : List α) (i : Nat) : Nat :=
  match (List.range (i + 1)).find? fun j => ident j == ident i && items[j]? == items[i]? with
  | some j => j
  | none => i

def logKids (ident : Nat → Nat) (rows : List Row) : Nat → Log → Kids
  | _, [] => .nil
  | i, (t, row) :: rest =>
    .cons (.num t) (.obj (0, canon ident rows i) false (rowKids row)) (logKids ident rows (i + 1) rest)

/-- `session_state["settings_log"]` in plain mode -/
def logPV (ident : Nat → Nat) (log : Log) : PV := .fresh false (logKids ident (log.map (·.2)) 0 log)

/-- the value of a column entry: a compound value is THE value object of the settings object it was read from -/
def cvalPV (c j : Nat) (v : Val) : PV :=
  if compound v then .obj (c + 1, j) true (.cons (.num 0) (.atom (.str v)) .nil) else .atom (.str v)

/-- the entries `[index, value]` of one column (`c` = position of the column, `k` = position of the entry) -/
def colKids (identAt : Nat → Nat) (c : Nat) (vals : List Val) : Nat → List (Nat × Val) → Kids
  | _, [] => .nil
  | k, (i, v) :: rest =>
    .cons (.num 0) (.fresh true (.cons (.num 0) (.atom (.num i)) (.cons (.num 0) (cvalPV c (canon identAt vals k) v) .nil)))
      (colKids identAt c vals (k + 1) rest)

def identAt (ident : Nat → Nat) (col : List (Nat × Val)) (k : Nat) : Nat := ident ((col[k]?.map (·.1)).getD 0)

def colsKids (ident : Nat → Nat) : Nat → List (Path × List (Nat × Val)) → Kids
  | _, [] => .nil
  | c, (p, col) :: rest =>
    .cons (.num p) (.fresh true (colKids (identAt ident col) c (col.map (·.2)) 0 col)) (colsKids ident (c + 1) rest)

/-- the `values` of a compressed settings log -/
def colsPV (ident : Nat → Nat) (cols : List (Path × List (Nat × Val))) : PV := .fresh false (colsKids ident 0 cols)

/-! reading the trees back -/

def valOfJ : J → Option Val
  | .atom (.str v) => some v
  | .obj true (.cons (.num 0) (.atom (.str v)) .nil) => some v
  | _ => none

def rowOfJ : JKids → Option Row
  | .nil => some []
  | .cons (.num p) v rest =>
    match valOfJ v, rowOfJ rest with
    | some x, some r => some ((p.toNat, x) :: r)
    | _, _ => none
  | .cons (.str _) _ _ => none          -- e.g. the key "py/id": not a settings dictionary

def logOfJK : JKids → Option Log
  | .nil => some []
  | .cons k v rest =>
    match k, v, logOfJK rest with
    | .num t, .obj false kids, some l => (rowOfJ kids).map fun row => (t, row) :: l
    | _, _, _ => none

def logOfTree : J → Option Log
  | .obj false kids => logOfJK kids
  | _ => none

def entryOfJ : J → Option (Nat × Val)
  | .obj true (.cons _ (.atom (.num i)) (.cons _ v .nil)) => (valOfJ v).map fun x => (i.toNat, x)
  | _ => none

def colOfJK : JKids → Option (List (Nat × Val))
  | .nil => some []
  | .cons _ e rest =>
    match entryOfJ e, colOfJK rest with
    | some x, some r => some (x :: r)
    | _, _ => none

def colsOfJK : JKids → Option (List (Path × List (Nat × Val)))
  | .nil => some []
  | .cons k v rest =>
    match k, v, colsOfJK rest with
    | .num p, .obj true kids, some l => (colOfJK kids).map fun col => (p.toNat, col) :: l
    | _, _, _ => none

def colsOfTree : J → Option (List (Path × List (Nat × Val)))
  | .obj false kids => colsOfJK kids
  | _ => none

/-! ### the FileAdapter with the concrete pickler for the settings part

The file content is the envelope with the settings part left blank (carried abstractly, as before) plus the
JSON tree of the settings part (plain mode: `settings_log`; compressed mode: the `values` columns) as
written by the pickler.  `resolve` = whether the adapter's reader resolves `py/id` (mechanism fact). -/

structure Cfg where
  decoderResolvesRefs : Bool
  saveAfterEveryStepRequest : Bool   -- wave 3: see `stepReq`
  restoreKeepsClock : Bool           -- wave 6: see `setState`
  compressIsPure : Bool              -- wave 8: see `saveSeq`
  loadInstallsStored : Bool          -- wave 9: see `loadStateI`
deriving DecidableEq, Repr

def Cfg.good (c : Cfg) : Bool :=
  c.decoderResolvesRefs && c.saveAfterEveryStepRequest && c.restoreKeepsClock && c.compressIsPure && c.loadInstallsStored

def settingsJ (ident : Nat → Nat) : Stored → J
  | .plain s => encode (logPV ident s.settingsLog)
  | .compressed _ _ cs _ => encode (colsPV ident cs.cols)

def blankS : Stored → Stored
  | .plain s => .plain { s with settingsLog := [] }
  | .compressed sp st cs cr => .compressed sp st { cs with cols := [] } cr

def fillS : Stored → J → Option Stored
  | .plain s, j => (logOfTree j).map fun l => .plain { s with settingsLog := l }
  | .compressed sp st cs cr, j => (colsOfTree j).map fun c => .compressed sp st { cs with cols := c } cr

def pickleCodec (c : Cfg) (ident : Nat → Nat) : Codec (Envelope × J) :=
  { enc := fun e => ({ e with stored := blankS e.stored }, settingsJ ident e.stored)
    dec := fun f => (decode c.decoderResolvesRefs f.2).bind fun t =>
      (fillS f.1.stored t).map fun s => { f.1 with stored := s } }

/-! ### wave 3: several sessions on one instance, and WHEN the instance is written

`begin-session` installs a new session (other scenario managers / scenarios / equations / settings, clock at its
start time) and writes nothing; `end-session` drops the session; every step-advancing request (`run-step`,
`run-steps`, `stream-steps`: any number of steps) is followed by `save_instance(_get_instance_state(id))`.
Mechanism fact `saveAfterEveryStepRequest`: that save is unconditional.  The defective variant remembers the
session clock it wrote last and skips the write when the clock is the same — but the clock does not identify
the session: a second session stepped to the same clock position is never written, the file keeps the old one. -/

inductive Req where
  | beginSession (spec : RunSpec)
  | endSession
  | steps (ops : List StepOp)

structure IState where
  session : Option Session      -- live (`bptk.session_state`)
  file : Option Session         -- what the state file of the instance holds
  savedStep : Option Time       -- the clock remembered at the last write (used by the defective variant only)

def IState.init : IState := { session := none, file := none, savedStep := none }

def stepReq (c : Cfg) (st : IState) : Req → IState
  | .beginSession spec => { st with session := some (begin spec) }
  | .endSession => { st with session := none }
  | .steps ops =>
    match st.session with
    | none => st
    | some s =>
      let s' := ops.foldl runStep s
      if c.saveAfterEveryStepRequest || st.savedStep != some s'.step then
        { session := some s', file := some s', savedStep := some s'.step }
      else { st with session := some s' }

def runReqs (c : Cfg) (reqs : List Req) : IState := reqs.foldl (stepReq c) IState.init

/-- wave 9: `POST /load-state` (and the load at start-up) for an instance whose state is stored: `reconstruct_instance` builds a
new bptk from the stored state and puts it in the instance's place — whatever the instance holds in memory at that moment
(its session may have been ended or begun anew since the save; neither writes the file).  Mechanism fact `loadInstallsStored`.
The defective variant skips a stored state whose instance is alive: the load answers 200 and the instance keeps what it has. -/
def loadStateI (c : Cfg) (st : IState) : IState :=
  match st.file with
  | none => st
  | some f => if c.loadInstallsStored then { st with session := some f } else st

/-! ### wave 6: what `reconstruct_instance → bptk._set_state` does with the decoded session

All three load paths (lazy per-instance load, `POST /load-state`, load at start-up) end in `_set_state`, which
installs the decoded dictionary as the session.  Mechanism fact `restoreKeepsClock`: it applies no function to the
session clock.  The defective variant "puts the clock back on the grid" with a normalisation whose hidden default
precision is two decimals: a clock such as 0.375 (dt 0.125, odd number of steps) comes back as 0.38. -/

/-- 0.01 in the harness's time unit 1/640000 -/
def centi : Time := 6400

/-- round to the nearest multiple of `q` (ties up) -/
def roundTo (q t : Time) : Time := ((2 * t + q) / (2 * q)) * q

def setState (c : Cfg) (s : Session) : Session :=
  if c.restoreKeepsClock then s else { s with step := roundTo centi s.step }

/-! ### wave 8: compress / decompress are functions of ONE log

The theorems above treat `compress_settings` as a pure function of the log it is given.  Mechanism fact
`compressIsPure`: nothing of an earlier call is in a later result.  The defective variant collects the
"dictionary without a value" entries `[step index, path]` in a process-level accumulator (a mutable default
argument): every compressed state stores ALL entries collected so far in the process, so the entries of one
session's log end up in the compressed state of every session saved afterwards — on load they create
dictionaries at that step index in the other session, or the index does not exist there and the load fails.
At the level of this model (rows = leaves) the extra empty dictionaries are invisible; what shows is the
failed load.  `own` = the step indices of the log's own such entries. -/

/-- the saves of one process in order (log, indices of its entries without a value) ↦ what each load returns -/
def saveSeq (pure : Bool) : List Nat → List (Log × List Nat) → List (Option Log)
  | _, [] => []
  | acc, (log, own) :: r =>
    let stored := if pure then own else acc ++ own
    (if stored.all (· < log.length) then some (decompressSettings (compressSettings log)) else none)
      :: saveSeq pure (acc ++ own) r

end Bptk.C19
