/-
C13 — `DataCollector.collect_agent_statistics` and the zero-filling flattening of
`HybridRunner.get_df_for_agent` / `run_scenario`.

Executable model, import-free, generic in the number carrier: the arithmetic the Python code performs
(`0 + v`, `total + v`, `min(cur, v)`, `max(cur, v)`) is a record `Ops α` of uninterpreted operations, so the
same definitions run on `Float` in the driver (bit-exact against CPython) and on `Int` in the theorems.
Agent types, states and property names are natural numbers (the harness maps its strings to numbers).

`collect` is the left fold of the Python loop over `agents`; per (type, state) group it keeps `count` and
per numeric property name `total, min, max` and the mean as the pair (total, count) *at the last update
of that property* — exactly what `mean = total / count` inside the loop leaves behind.
-/
namespace Bptk.C13

structure Ops (α : Type) where
  zero : α
  add : α → α → α
  lt : α → α → Bool

/-- Python `min(cur, v)`: `v` only if `v < cur`. -/
def pyMin (o : Ops α) (cur v : α) : α := if o.lt v cur then v else cur
/-- Python `max(cur, v)`: `v` only if `v > cur`. -/
def pyMax (o : Ops α) (cur v : α) : α := if o.lt cur v then v else cur

/-- one entry of `agent.properties`: name, is its "type" Integer/Double, value. -/
structure Entry (α : Type) where
  name : Nat
  numeric : Bool
  value : α

structure Agent (α : Type) where
  ty : Nat
  state : Nat
  props : List (Entry α)

structure PStat (α : Type) where
  total : α
  min : α
  max : α
  meanNum : α       -- mean = meanNum / meanDen
  meanDen : Nat

structure Group (α : Type) where
  count : Nat
  props : List (Nat × PStat α)

abbrev Stats (α : Type) := List ((Nat × Nat) × Group α)

/-- the update of one property record by one value, `c` = the group's count at that moment;
`none` = the record does not exist yet (`{"total": 0, "max": None, "min": None}` is created first). -/
def upd1 (o : Ops α) (c : Nat) (st : Option (PStat α)) (v : α) : PStat α :=
  match st with
  | none => { total := o.add o.zero v, min := v, max := v, meanNum := o.add o.zero v, meanDen := c }
  | some s => { total := o.add s.total v, min := pyMin o s.min v, max := pyMax o s.max v,
                meanNum := o.add s.total v, meanDen := c }

def lookupProp (ps : List (Nat × PStat α)) (p : Nat) : Option (PStat α) :=
  match ps with
  | [] => none
  | (n, s) :: rest => if n = p then some s else lookupProp rest p

/-- update-or-append in dict insertion order. -/
def updProp (o : Ops α) (c : Nat) (ps : List (Nat × PStat α)) (p : Nat) (v : α) : List (Nat × PStat α) :=
  match ps with
  | [] => [(p, upd1 o c none v)]
  | (n, s) :: rest => if n = p then (n, upd1 o c (some s) v) :: rest else (n, s) :: updProp o c rest p v

def updEntry (o : Ops α) (c : Nat) (ps : List (Nat × PStat α)) (e : Entry α) : List (Nat × PStat α) :=
  if e.numeric then updProp o c ps e.name e.value else ps

/-- one agent joins its group: count += 1, then every numeric property is folded in. -/
def procGroup (o : Ops α) (g : Group α) (a : Agent α) : Group α :=
  { count := g.count + 1, props := a.props.foldl (updEntry o (g.count + 1)) g.props }

def Group.empty : Group α := { count := 0, props := [] }

def lookupGroup (s : Stats α) (k : Nat × Nat) : Option (Group α) :=
  match s with
  | [] => none
  | (k', g) :: rest => if k' = k then some g else lookupGroup rest k

def procOpt (o : Ops α) (g : Option (Group α)) (a : Agent α) : Group α :=
  procGroup o (g.getD Group.empty) a

def addAgent (o : Ops α) (s : Stats α) (a : Agent α) : Stats α :=
  match s with
  | [] => [((a.ty, a.state), procOpt o none a)]
  | (k, g) :: rest =>
    if k = (a.ty, a.state) then (k, procOpt o (some g) a) :: rest else (k, g) :: addAgent o rest a

/-- `collect_agent_statistics(time, agents)`: the statistics of one time. -/
def collect (o : Ops α) (agents : List (Agent α)) : Stats α := agents.foldl (addAgent o) []

/-! ### what the runner reports (zero where the group does not exist) -/

inductive Agg where
  | total | min | max
deriving DecidableEq, Repr

def countCell (s : Stats α) (ty st : Nat) : Nat :=
  match lookupGroup s (ty, st) with
  | some g => g.count
  | none => 0

/-- total/min/max cell; `none` = no record: the frame is filled with 0 (`fillna(0)`). -/
def aggCell (s : Stats α) (ty st p : Nat) (which : Agg) : Option α :=
  match lookupGroup s (ty, st) with
  | none => none
  | some g =>
    match lookupProp g.props p with
    | none => none
    | some r => some (match which with | .total => r.total | .min => r.min | .max => r.max)

/-- mean cell as (numerator, denominator). -/
def meanCell (s : Stats α) (ty st p : Nat) : Option (α × Nat) :=
  match lookupGroup s (ty, st) with
  | none => none
  | some g => (lookupProp g.props p).map (fun r => (r.meanNum, r.meanDen))

/-! ### specification side: the agents of a group and the values of a property among them -/

def members (agents : List (Agent α)) (k : Nat × Nat) : List (Agent α) :=
  agents.filter (fun a => (a.ty, a.state) == k)

/-- the numeric values agent `a` carries under the name `p`. -/
def numericOf (a : Agent α) (p : Nat) : List α :=
  (a.props.filter (fun e => e.numeric && e.name == p)).map (·.value)

def valuesOf (ms : List (Agent α)) (p : Nat) : List α := ms.flatMap (fun a => numericOf a p)

/-! ### the runner: `HybridRunner.get_df_for_agent`, `run_scenario` / `run_scenario_step` (wave 2)

The statistics of a run are a dict `time ↦ statistics of that time`; it is modelled as an association list read
by first match (`lookupA`).  `get_stats_for` walks it and, per time at which the selected agent type has
agents, reads `states[state]["count"]` (count mode) or `states[state][property][aggregate]` (property mode) for
every occupied selected state; a missing property record is Python's `KeyError` (`Num.keyError`, the whole
call raises — `raises`).  `DataFrame(...).fillna(0)` and the zero columns added for never occupied states are
modelled by their cell semantics (`Frame.cell`: the value written for (time, column), else 0).  `run_scenario`
then copies the selected columns into the df / dict / json result (`runOut`); `readOut` is how a reader finds
a number in it (absent = 0). -/

inductive Agg4 where
  | total | min | max | mean
deriving DecidableEq, Repr

/-- a reported number: a count, a value, a mean as numerator / denominator, the 0 a frame is filled with, or
the `KeyError` raised when a selected property has no record in an occupied state. -/
inductive Num (α : Type) where
  | cnt (n : Nat)
  | val (v : α)
  | ratio (n : α) (d : Nat)
  | zero
  | keyError
deriving DecidableEq, Repr

def Num.isErr : Num α → Bool
  | .keyError => true
  | _ => false

def recCell (r : PStat α) : Agg4 → Num α
  | .total => .val r.total
  | .min => .val r.min
  | .max => .val r.max
  | .mean => .ratio r.meanNum r.meanDen

/-- a column of `get_df_for_agent`: `state` (count mode, `pa = none`) or `state_property_aggregate`. -/
structure Col where
  state : Nat
  pa : Option (Nat × Agg4)
deriving DecidableEq, Repr

structure Sel where
  agents : List Nat
  states : List Nat
  props : List Nat
  aggs : List Agg4

abbrev History (α : Type) := List (Nat × Stats α)

/-- dict read: first match. -/
def lookupA {κ β : Type} [DecidableEq κ] : List (κ × β) → κ → Option β
  | [], _ => none
  | (k', v) :: rest, k => if k' = k then some v else lookupA rest k

/-- `row[agent_name]`: the states of one agent type at one time, in dict order. -/
def statesOf (s : Stats α) (ag : Nat) : List (Nat × Group α) :=
  s.filterMap (fun x => if x.1.1 = ag then some (x.1.2, x.2) else none)

/-- `states[column][agent_property][property_type]`. -/
def readRec (g : Group α) (p : Nat) (a : Agg4) : Num α :=
  match lookupProp g.props p with
  | some r => recCell r a
  | none => .keyError

/-- the number a column reads from the record of its state. -/
def valOf (g : Group α) (c : Col) : Num α :=
  match c.pa with
  | none => .cnt g.count
  | some (p, a) => readRec g p a

/-- the keys `get_stats_for` writes into `counts` for one occupied selected state, in loop order. -/
def groupCols (props : List Nat) (aggs : List Agg4) (st : Nat) : List Col :=
  if props = [] then [⟨st, none⟩]
  else props.flatMap (fun p => aggs.map (fun a => (⟨st, some (p, a)⟩ : Col)))

def cellsOfGroup (props : List Nat) (aggs : List Agg4) (st : Nat) (g : Group α) : List (Col × Num α) :=
  (groupCols props aggs st).map (fun c => (c, valOf g c))

/-- `counts` of one time for one agent type. -/
def rowOf (sel : Sel) (aggs : List Agg4) (s : Stats α) (ag : Nat) : List (Col × Num α) :=
  (statesOf s ag).flatMap (fun x => if x.1 ∈ sel.states then cellsOfGroup sel.props aggs x.1 x.2 else [])

/-- every column a property-mode selection names (the repaired `get_df_for_agent` guarantees they exist). -/
def selCols (sel : Sel) (aggs : List Agg4) : List Col :=
  sel.states.flatMap (fun st => sel.props.flatMap (fun p => aggs.map (fun a => (⟨st, some (p, a)⟩ : Col))))

/-- the frame `get_df_for_agent` returns, by its cell semantics. -/
structure Frame (α : Type) where
  /-- times that have a row: the type has an agent in a selected state -/
  index : List Nat
  cols : List Col
  /-- value after `fillna(0)` -/
  cell : Col → Nat → Num α

def getDf (sel : Sel) (aggs : List Agg4) (data : History α) (ag : Nat) : Frame α :=
  { index := (data.filter (fun x => !(rowOf sel aggs x.2 ag).isEmpty)).map (·.1),
    cols := data.flatMap (fun x => (rowOf sel aggs x.2 ag).map (·.1)) ++ (if sel.props = [] then [] else selCols sel aggs),
    cell := fun c t => match lookupA data t with
      | none => .zero
      | some s => (lookupA (rowOf sel aggs s ag) c).getD .zero }

inductive Fmt where
  | df | dict | json
deriving DecidableEq, Repr

/-- `sorted(list(set(agent_property_types)))`, all four when none is given (dict / json only). -/
def effAggs (fmt : Fmt) (aggs : List Agg4) : List Agg4 :=
  match fmt with
  | .df => aggs
  | _ => if aggs = [] then [.max, .mean, .min, .total] else [Agg4.max, .mean, .min, .total].filter (fun a => a ∈ aggs)

def hasType (s : Stats α) (ag : Nat) : Bool := s.any (fun x => x.1.1 == ag)

/-- the call raises: no state selected (`output[t] = 0` has no `.items()`), or a selected property has no
record in an occupied selected state (`KeyError`). -/
def raises (sel : Sel) (aggs : List Agg4) (data : History α) : Bool :=
  (sel.states.isEmpty && data.any (fun x => sel.agents.any (fun ag => hasType x.2 ag))) ||
  data.any (fun x => sel.agents.any (fun ag => (rowOf sel aggs x.2 ag).any (fun y => y.2.isErr)))

/-- result of a run: (agent, column) ↦ series (time ↦ number). -/
abbrev Out (α : Type) := List ((Nat × Col) × List (Nat × Num α))

def outCols (sel : Sel) (aggs : List Agg4) (f : Frame α) : List Col :=
  if sel.props = [] then f.cols else selCols sel aggs

def series (f : Frame α) (idx : List Nat) (c : Col) : List (Nat × Num α) := idx.map (fun t => (t, f.cell c t))

/-- the (agent, column) keys of a result, in loop order. -/
def outKeys (sel : Sel) (aggs : List Agg4) (data : History α) : List (Nat × Col) :=
  sel.agents.flatMap (fun ag => (outCols sel aggs (getDf sel aggs data ag)).map (fun c => (ag, c)))

/-- df: `concat(axis=1).fillna(0)` — every column over the union of the row indices. -/
def outIndex (fmt : Fmt) (sel : Sel) (aggs : List Agg4) (data : History α) (ag : Nat) : List Nat :=
  match fmt with
  | .df => sel.agents.flatMap (fun ag' => (getDf sel aggs data ag').index)
  | _ => (getDf sel aggs data ag).index

/-- `run_scenario` / `run_scenario_step` after the simulation: df = one frame over the union of the row
indices, dict = one Series per selected cell over its own agent's index, json = the same through
`to_dict()`; the first write of a key wins (the result is read by first match). -/
def runOut (fmt : Fmt) (sel : Sel) (data : History α) : Option (Out α) :=
  let aggs := effAggs fmt sel.aggs
  if raises sel aggs data then none
  else if data.isEmpty then some []
  else some ((outKeys sel aggs data).map (fun k =>
    (k, series (getDf sel aggs data k.1) (outIndex fmt sel aggs data k.1) k.2)))

/-- how a number is found in a result: absent column / absent time = 0. -/
def readOut (out : Out α) (ag : Nat) (c : Col) (t : Nat) : Num α :=
  match lookupA out (ag, c) with
  | none => .zero
  | some ser => (lookupA ser t).getD .zero

/-- specification side: the number of one (agent type, column, time) read straight from the statistics. -/
def cellOf (s : Stats α) (ag : Nat) (c : Col) : Num α :=
  match lookupGroup s (ag, c.state) with
  | none => .zero
  | some g => valOf g c

def pointCell (data : History α) (ag : Nat) (c : Col) (t : Nat) : Num α :=
  match lookupA data t with
  | none => .zero
  | some s => cellOf s ag c

/-- the statistics history of a run: `collect` at every recorded time. -/
def histOf (o : Ops α) (pops : List (Nat × List (Agent α))) : History α := pops.map (fun x => (x.1, collect o x.2))

/-! ### wave 3: the population changes during a step

`SimultaneousScheduler.run_step` passes `model.agents` — read *after* `begin_round`, all `handle_events`/`act` and
`end_round` — to `collect_agent_statistics`.  What the callbacks do to the population is a list of operations in
execution order; the statistics of the time are those of the population after all of them. -/

/-- an entry of `model.agents`: the agent with its id. -/
structure IAgent (α : Type) where
  id : Nat
  agent : Agent α

inductive PopOp (α : Type) where
  | delete (ids : List Nat)            -- delete_agent / delete_agents: `model.agents` is rebound to the filtered list
  | create (a : IAgent α)              -- create_agent: appended
  | setState (id st : Nat)             -- agent.state = …
  | setValue (id p : Nat) (v : α)      -- agent.set_property_value(p, v) on an existing entry
  | clear                              -- configure_agents / reset: `model.agents = []`

def setEntry (p : Nat) (v : α) (es : List (Entry α)) : List (Entry α) :=
  es.map (fun e => if e.name = p then { e with value := v } else e)

def applyOp (pop : List (IAgent α)) : PopOp α → List (IAgent α)
  | .delete ids => pop.filter (fun x => !ids.contains x.id)
  | .create a => pop ++ [a]
  | .setState id st => pop.map (fun x => if x.id = id then { x with agent := { x.agent with state := st } } else x)
  | .setValue id p v =>
    pop.map (fun x => if x.id = id then { x with agent := { x.agent with props := setEntry p v x.agent.props } } else x)
  | .clear => []

/-- `model.agents` at the end of the step. -/
def endOfStep (pop : List (IAgent α)) (ops : List (PopOp α)) : List (IAgent α) := ops.foldl applyOp pop

/-- the statistics `run_step` records for the time of the step. -/
def collectStep (o : Ops α) (pop : List (IAgent α)) (ops : List (PopOp α)) : Stats α :=
  collect o ((endOfStep pop ops).map (·.agent))

/-! ### wave 7: the text of a column key

`get_stats_for` keys its per-time dictionary by the *string* `state + "_" + property + "_" + aggregate` (count mode:
the state name); the model keys by the structured `Col`.  The two agree exactly when the strings of the selected
columns are pairwise different — a condition on the NAMES in the request (`KeysDistinct`), probed per run. -/

def aggName : Agg4 → String
  | .total => "total" | .min => "min" | .max => "max" | .mean => "mean"

def renderKey (states props : List String) (c : Col) : String :=
  match c.pa with
  | none => states.getD c.state "?"
  | some (p, a) => states.getD c.state "?" ++ "_" ++ props.getD p "?" ++ "_" ++ aggName a

/-- all columns a request can name over `ns` states and `np` properties. -/
def allCols (ns np : Nat) : List Col :=
  (List.range ns).flatMap (fun st => (⟨st, none⟩ : Col) ::
    (List.range np).flatMap (fun p => [Agg4.total, .min, .max, .mean].map (fun a => (⟨st, some (p, a)⟩ : Col))))

/-- the key strings of these columns are pairwise different. -/
def keysDistinct (states props : List String) : Bool :=
  let ks := (allCols states.length props.length).map (renderKey states props)
  ks.eraseDups.length == ks.length

/-! ### wave 9: whose statistics a scenario reads — collectors as objects

Every scenario of a scenario manager owns a `DataCollector` object; `scenario.run()` resets *its* collector and
records into it, `scenario.statistics()` reads it.  Objects are modelled by identities (`Nat`); the store maps a
collector identity to the statistics history it holds. -/

abbrev Store (α : Type) := List (Nat × History α)

/-- `scenario.run()` of a scenario whose collector is `cid` and whose run produces the history `h`:
`data_collector.reset()`, then one record per step. -/
def writeRun (st : Store α) (cid : Nat) (h : History α) : Store α := (cid, h) :: st.filter (fun x => !decide (x.1 = cid))

/-- the scenarios (collector identity, history of their own run) simulated in the given order. -/
def runAll (runs : List (Nat × History α)) : Store α := runs.foldl (fun st x => writeRun st x.1 x.2) []

/-- `scenario.statistics()`. -/
def readStats (st : Store α) (cid : Nat) : History α := (lookupA st cid).getD []

/-- mechanism fact probed on every run: the collectors of the scenarios of one manager are pairwise different
objects, and none is the collector of the model the manager was registered with. -/
def collectorsDistinct (cids : List Nat) (modelCid : Option Nat) : Bool :=
  cids.eraseDups.length == cids.length && (match modelCid with | none => true | some c => !cids.contains c)

end Bptk.C13
