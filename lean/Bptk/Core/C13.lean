/-
C13 — `DataCollector.collect_agent_statistics` and the zero-filling flattening of
`HybridRunner.get_df_for_agent` / `run_scenario`.

Executable model, import-free, generic in the number carrier: the arithmetic the Python code performs
(`0 + v`, `total + v`, `min(cur, v)`, `max(cur, v)`) is a record `Ops α` of uninterpreted operations, so the
same definitions run on `Float` in the driver (bit-exact against CPython) and on `Int` in the theorems.
Agent types, states and property names are natural numbers (the harness maps its strings to numbers).

`collect` is the left fold of the Python loop over `agents`; per (type, state) group it keeps `count` and
per numeric property name `total, min, max` and the mean as the pair (total, count) *at the last update
of that property* — exactly what `mean = total / count` inside the loop leaves behind.
-/
namespace Bptk.C13

structure Ops (α : Type) where
  zero : α
  add : α → α → α
  lt : α → α → Bool

/-- Python `min(cur, v)`: `v` only if `v < cur`. -/
def pyMin (o : Ops α) (cur v : α) : α := if o.lt v cur then v else cur
/-- Python `max(cur, v)`: `v` only if `v > cur`. -/
def pyMax (o : Ops α) (cur v : α) : α := if o.lt cur v then v else cur

/-- one entry of `agent.properties`: name, is its "type" Integer/Double, value. -/
structure Entry (α : Type) where
  name : Nat
  numeric : Bool
  value : α

structure Agent (α : Type) where
  ty : Nat
  state : Nat
  props : List (Entry α)

structure PStat (α : Type) where
  total : α
  min : α
  max : α
  meanNum : α       -- mean = meanNum / meanDen
  meanDen : Nat

structure Group (α : Type) where
  count : Nat
  props : List (Nat × PStat α)

abbrev Stats (α : Type) := List ((Nat × Nat) × Group α)

/-- the update of one property record by one value, `c` = the group's count at that moment;
`none` = the record does not exist yet (`{"total": 0, "max": None, "min": None}` is created first). -/
def upd1 (o : Ops α) (c : Nat) (st : Option (PStat α)) (v : α) : PStat α :=
  match st with
  | none => { total := o.add o.zero v, min := v, max := v, meanNum := o.add o.zero v, meanDen := c }
  | some s => { total := o.add s.total v, min := pyMin o s.min v, max := pyMax o s.max v,
                meanNum := o.add s.total v, meanDen := c }

def lookupProp (ps : List (Nat × PStat α)) (p : Nat) : Option (PStat α) :=
  match ps with
  | [] => none
  | (n, s) :: rest => if n = p then some s else lookupProp rest p

/-- update-or-append in dict insertion order. -/
def updProp (o : Ops α) (c : Nat) (ps : List (Nat × PStat α)) (p : Nat) (v : α) : List (Nat × PStat α) :=
  match ps with
  | [] => [(p, upd1 o c none v)]
  | (n, s) :: rest => if n = p then (n, upd1 o c (some s) v) :: rest else (n, s) :: updProp o c rest p v

def updEntry (o : Ops α) (c : Nat) (ps : List (Nat × PStat α)) (e : Entry α) : List (Nat × PStat α) :=
  if e.numeric then updProp o c ps e.name e.value else ps

/-- one agent joins its group: count += 1, then every numeric property is folded in. -/
def procGroup (o : Ops α) (g : Group α) (a : Agent α) : Group α :=
  { count := g.count + 1, props := a.props.foldl (updEntry o (g.count + 1)) g.props }

def Group.empty : Group α := { count := 0, props := [] }

def lookupGroup (s : Stats α) (k : Nat × Nat) : Option (Group α) :=
  match s with
  | [] => none
  | (k', g) :: rest => if k' = k then some g else lookupGroup rest k

def procOpt (o : Ops α) (g : Option (Group α)) (a : Agent α) : Group α :=
  procGroup o (g.getD Group.empty) a

def addAgent (o : Ops α) (s : Stats α) (a : Agent α) : Stats α :=
  match s with
  | [] => [((a.ty, a.state), procOpt o none a)]
  | (k, g) :: rest =>
    if k = (a.ty, a.state) then (k, procOpt o (some g) a) :: rest else (k, g) :: addAgent o rest a

/-- `collect_agent_statistics(time, agents)`: the statistics of one time. -/
def collect (o : Ops α) (agents : List (Agent α)) : Stats α := agents.foldl (addAgent o) []

/-! ### what the runner reports (zero where the group does not exist) -/

inductive Agg where
  | total | min | max
deriving DecidableEq, Repr

def countCell (s : Stats α) (ty st : Nat) : Nat :=
  match lookupGroup s (ty, st) with
  | some g => g.count
  | none => 0

/-- total/min/max cell; `none` = no record: the frame is filled with 0 (`fillna(0)`). -/
def aggCell (s : Stats α) (ty st p : Nat) (which : Agg) : Option α :=
  match lookupGroup s (ty, st) with
  | none => none
  | some g =>
    match lookupProp g.props p with
    | none => none
    | some r => some (match which with | .total => r.total | .min => r.min | .max => r.max)

/-- mean cell as (numerator, denominator). -/
def meanCell (s : Stats α) (ty st p : Nat) : Option (α × Nat) :=
  match lookupGroup s (ty, st) with
  | none => none
  | some g => (lookupProp g.props p).map (fun r => (r.meanNum, r.meanDen))

/-! ### specification side: the agents of a group and the values of a property among them -/

def members (agents : List (Agent α)) (k : Nat × Nat) : List (Agent α) :=
  agents.filter (fun a => (a.ty, a.state) == k)

/-- the numeric values agent `a` carries under the name `p`. -/
def numericOf (a : Agent α) (p : Nat) : List α :=
  (a.props.filter (fun e => e.numeric && e.name == p)).map (·.value)

def valuesOf (ms : List (Agent α)) (p : Nat) : List α := ms.flatMap (fun a => numericOf a p)

end Bptk.C13
