import Bptk.Core.PyFrag
import Bptk.Core.PyWire
/-!
C03 — model of the XMILE equation pipeline of `BPTK_Py/sdcompiler`:

  source text --PEG--> IR tree --plugins--> IR tree --`parseExpression`--> Python text --eval--> value

* `X`      : equation trees (both the IR the PEG/visitor builds and the tree XMILE semantics assigns)
* `flat`   : in-order token sequence of a tree (parentheses exactly at `paren`/`notp`/call nodes)
* `XPrec`  : an XMILE operator table (binding power, operand demands, image under the token map);
             `xmilePrec` is the table of the XMILE specification restricted to what `grammar.py` accepts
* `xparse` : executable precedence-climbing parser for an `XPrec` (the reference reading of a source)
* `Cfg`    : what the probes extract from `py.py` on every run — operator templates, `()`/`not`
             templates, builtin templates (A1 `Tmpl`), identifier rendering, `unknownBuiltinRaises`
* `gen`    : what `parseExpression` emits for a tree (token-level substitution into the templates)
* `trans`  : the Python tree the emitted text is meant to denote
* `sanitize` : model of `plugins/sanitizeNames.sanitizeName` on code-point lists (ASCII domain)
* `okAt`, `validateFlat` : IFs in sentence positions; validation by token comparison alone
* `smthH`, `cascade` : the delay/smooth helper `smthn` of the generated class and its definition on the grid
-/
namespace Bptk.C03
open Bptk.Py

inductive XOp
  | or | and | lt | le | gt | ge | eq | ne | add | sub | mul | div | mod | pow
deriving DecidableEq, Repr, Inhabited

def allOps : List XOp :=
  [.or, .and, .lt, .le, .gt, .ge, .eq, .ne, .add, .sub, .mul, .div, .mod, .pow]

/-- XMILE tokens. `fn` = function name (identifier directly followed by `(`, or one of the
parameterless builtins TIME DT STARTTIME STOPTIME PI); numbers carry the canonical text of the float. -/
inductive XTok
  | num (s : String) | id (s : String) | fn (s : String) | op (k : XOp)
  | lp | rp | comma | knot | kif | kthen | kelse
deriving DecidableEq, Repr, Inhabited

inductive X
  | num (s : String) | id (s : String)
  | nnum (s : String)                 -- signed literal of the PEG's `NumericLiteral` (IR only): the float `-s`, printed `-s`
  | paren (e : X)
  | neg (e : X)
  | notp (e : X)                      -- `NOT ( e )` — the only form of NOT the grammar accepts
  | bin (k : XOp) (l r : X)
  | ite (c a b : X)                   -- IF c THEN a ELSE b
  | call (f : String) (args : List X)
  | nothing                           -- the PEG's empty atom (IR only): `-a` is `"" - a`, `a*-b` is `(a * "") - b`
deriving Repr, Inhabited

/-! ### Token sequence of a tree -/

mutual
def flat : X → List XTok
  | .num s => [.num s]
  | .id s => [.id s]
  | .nnum s => [.op .sub, .num s]
  | .paren e => .lp :: (flat e ++ [.rp])
  | .neg e => .op .sub :: flat e
  | .notp e => .knot :: .lp :: (flat e ++ [.rp])
  | .bin k l r => flat l ++ .op k :: flat r
  | .ite c a b => .kif :: (flat c ++ .kthen :: (flat a ++ .kelse :: flat b))
  | .call f [] => [.fn f]
  | .call f (a :: as) => .fn f :: .lp :: (flatArgs (a :: as) ++ [.rp])
  | .nothing => []
def flatArgs : List X → List XTok
  | [] => []
  | [e] => flat e
  | e :: e2 :: es => flat e ++ .comma :: flatArgs (e2 :: es)
end

/-! ### Operator tables -/

structure XPrec where
  img : XOp → BinOp          -- image under the token map (`^`→`**`, `=`→`==`, `<>`→`!=`, `mod`→`%`, …)
  bp : XOp → Nat             -- binding power (level of a node with this operator)
  ldem : XOp → Nat           -- level demanded of the left operand
  rdem : XOp → Nat           -- level demanded of the right operand (> bp: left assoc; < bp: right assoc)
  negLvl : Nat               -- level of a unary-minus node
  negDem : Nat               -- level demanded of the operand of unary minus
  notDem : Nat               -- level demanded of the (parenthesised) operand of NOT

/-- XMILE 1.0 §3.3.1 on the level scale of DESIGN Appendix A: `^` (right to left) above unary minus
above `* / MOD` above `+ -` above `< <= > >=` above `= <>` above AND above OR; comparisons are not
chained (both operands arithmetic), NOT applies to a parenthesised comparison. -/
def xmilePrec : XPrec where
  img
    | .or => .or | .and => .and | .lt => .lt | .le => .le | .gt => .gt | .ge => .ge | .eq => .eq
    | .ne => .ne | .add => .add | .sub => .sub | .mul => .mul | .div => .div | .mod => .mod | .pow => .pow
  bp
    | .or => 1 | .and => 2 | .eq | .ne => 3 | .lt | .le | .gt | .ge => 4
    | .add | .sub => 5 | .mul | .div | .mod => 6 | .pow => 8
  ldem
    | .or => 1 | .and => 2 | .eq | .ne | .lt | .le | .gt | .ge => 5
    | .add | .sub => 5 | .mul | .div | .mod => 6 | .pow => 100
  rdem
    | .or => 2 | .and => 3 | .eq | .ne | .lt | .le | .gt | .ge => 5
    | .add | .sub => 6 | .mul | .div | .mod => 7 | .pow => 7
  negLvl := 7
  negDem := 7
  notDem := 3

/-- Decidable agreement of an XMILE table with CPython's (A1 `bp`/`ldem`/`rbp`, unary minus 7, `not` 3)
under the token map: every level is mapped monotonically (a node is at least as tight in Python as
in XMILE, every operand position demands at most what XMILE demands) with the same associativity. -/
def opAgree (P : XPrec) (k : XOp) : Bool :=
  decide (Py.bp (P.img k) ≥ P.bp k) && decide (P.ldem k ≥ Py.ldem (P.img k))
    && decide (P.rdem k ≥ Py.rbp (P.img k))

/-- unary minus is printed with the `-` of subtraction (A1: `neg` prints `op .sub`) -/
def unaryAgree (P : XPrec) : Bool :=
  decide (P.img .sub = .sub) && decide (P.negLvl ≤ 7) && decide (P.negDem ≥ 7) && decide (P.notDem ≥ 3)

def precAgree (P : XPrec) : Bool := allOps.all (opAgree P) && unaryAgree P

def xlvl (P : XPrec) : X → Nat
  | .bin k _ _ => P.bp k
  | .neg _ => P.negLvl
  | .nnum _ => P.negLvl                -- a signed literal is a unary-minus operand, not a primary
  | .ite _ _ _ => 0
  | _ => 100

/-! ### What the probes extract from the generator -/

structure Cfg where
  opT : XOp → List Tok        -- `operators[k]` applied to placeholders
  notT : Tmpl                 -- `operators["not"]`
  fns : Table                 -- `operators["()"]` as ("()",1), `builtins[f]` per arity n as (f,n): ("if",3), …
  identT : List Tok           -- rendering of identifier `probe`
  identInitT : List Tok       -- rendering of `INIT(probe)` without the template's own tokens
  unknownBuiltinRaises : Bool -- an unknown function name raises (false: the text "0" is emitted)
  helperKeysNormalise : Bool := true  -- the delay/smooth helpers snap `t - dt` onto the time grid before using it
                                      -- as memo key and in `t <= self.starttime` (false: raw floats, the pinned tree)

def findFn (c : Cfg) (f : String) (n : Nat) : Option Tmpl :=
  c.fns.find? (fun t => t.cls == f && t.arity == n)

/-- text for a function; an unknown one gets the `"0"` of the pinned tree -/
def fnToks (c : Cfg) (f : String) (n : Nat) : List Tok := match findFn c f n with
  | some t => t.toks
  | none => [.num "0"]

def fnShape (c : Cfg) (f : String) (n : Nat) : Py := match findFn c f n with
  | some t => shapeOf t
  | none => .num "0"

/-- `self.memoize('name', t)`; inside INIT the time argument is `self.starttime` -/
def idToks (s : String) (init : Bool) : List Tok :=
  [.name "self", .dot, .name "memoize", .lp, .str s, .comma] ++
    ((if init then [.name "self", .dot, .name "starttime"] else [.name "t"]) ++ [.rp])

def idPy (s : String) (init : Bool) : Py :=
  .call (.attr (.name "self") "memoize")
    [.str s, if init then .attr (.name "self") "starttime" else .name "t"]

def sel2 {α} (a b : α) : Nat → α
  | 0 => a
  | _ => b

def sel3 {α} (a b c : α) : Nat → α
  | 0 => a
  | 1 => b
  | _ => c

/-- INIT switches its argument to start-time evaluation -/
def initMode (init : Bool) (f : String) : Bool := init || f == "init"

mutual
/-- the text `parseExpression` emits: operand texts formatted into the operator / builtin templates -/
def gen (c : Cfg) (init : Bool) : X → List Tok
  | .num s => [.num s]
  | .id s => idToks s init
  | .nnum s => [.op .sub, .num s]                   -- `str(-2.0)` as lexed
  | .paren e =>
    let g := gen c init e
    substToks (fun _ => g) (fnToks c "()" 1)
  | .neg e =>
    let g := gen c init e
    substToks (sel2 [] g) (c.opT .sub)            -- `operators["-"]("", e)`: the empty left operand
  | .notp e =>
    let g := gen c init e
    substToks (fun _ => g) c.notT.toks
  | .bin k l r =>
    let gl := gen c init l
    let gr := gen c init r
    substToks (sel2 gl gr) (c.opT k)
  | .ite cnd a b =>
    let gc := gen c init cnd
    let ga := gen c init a
    let gb := gen c init b
    substToks (sel3 gc ga gb) (fnToks c "if" 3)
  | .call f args =>
    let gs := genL c (initMode init f) args
    substToks (nthD [.name "MISSING"] gs) (fnToks c f args.length)
  | .nothing => []
def genL (c : Cfg) (init : Bool) : List X → List (List Tok)
  | [] => []
  | e :: es => gen c init e :: genL c init es
end

mutual
/-- the Python tree the text is meant to denote: operators by the token map, builtins by their shape
with every operand plugged in whole -/
def trans (c : Cfg) (P : XPrec) (init : Bool) : X → Py
  | .num s => .num s
  | .id s => idPy s init
  | .nnum s => .neg (.num s)
  | .paren e =>
    let t := trans c P init e
    subst (fun _ => t) (fnShape c "()" 1)
  | .neg e => .neg (trans c P init e)
  | .notp e =>
    let t := trans c P init e
    subst (fun _ => t) (shapeOf c.notT)
  | .bin k l r => .bin (P.img k) (trans c P init l) (trans c P init r)
  | .ite cnd a b =>
    let tc := trans c P init cnd
    let ta := trans c P init a
    let tb := trans c P init b
    subst (sel3 tc ta tb) (fnShape c "if" 3)
  | .call f args =>
    let ts := transL c P (initMode init f) args
    subst (nthD (.name "MISSING") ts) (fnShape c f args.length)
  | .nothing => .name "NOTHING"
def transL (c : Cfg) (P : XPrec) (init : Bool) : List X → List Py
  | [] => []
  | e :: es => trans c P init e :: transL c P init es
end

mutual
/-- every function used is in the probed table with that arity -/
def known (c : Cfg) : X → Bool
  | .num _ => true
  | .id _ => true
  | .nnum _ => true
  | .paren e => known c e
  | .neg e => known c e
  | .notp e => known c e
  | .bin _ l r => known c l && known c r
  | .ite cnd a b => known c cnd && known c a && known c b
  | .call f args => (findFn c f args.length).isSome && knownL c args
  | .nothing => true
def knownL (c : Cfg) : List X → Bool
  | [] => true
  | e :: es => known c e && knownL c es
end

mutual
/-- XMILE well-levelledness: the tree is the reading of its own token sequence under table `P`
(every operand binds at least as tightly as its position demands) -/
def XWL (P : XPrec) : X → Bool
  | .num _ => true
  | .id _ => true
  | .nnum _ => decide (100 ≥ P.negDem)      -- exactly when `neg (num s)` is well-levelled
  | .paren e => XWL P e
  | .neg e => XWL P e && decide (xlvl P e ≥ P.negDem)
  | .notp e => XWL P e && decide (xlvl P e ≥ P.notDem)
  | .bin k l r => XWL P l && XWL P r && decide (xlvl P l ≥ P.ldem k) && decide (xlvl P r ≥ P.rdem k)
  | .ite cnd a b => XWL P cnd && XWL P a && XWL P b
  | .call _ args => XWLL P args
  | .nothing => false                 -- never part of a reading
def XWLL (P : XPrec) : List X → Bool
  | [] => true
  | e :: es => XWL P e && XWLL P es
end

mutual
/-- IF-THEN-ELSE occurs in sentence positions only (whole equation, inside parentheses / `NOT( )`,
function arguments, the three parts of another IF) — there it extends to the end of its bracket
context, which is what makes the token sequence determine the emitted text. `sent` = the position
of the node itself is a sentence position. -/
def okAt (sent : Bool) : X → Bool
  | .ite cnd a b => sent && okAt true cnd && okAt true a && okAt true b
  | .paren e => okAt true e
  | .notp e => okAt true e
  | .neg e => okAt false e
  | .bin _ l r => okAt false l && okAt false r
  | .call _ args => okAtL args
  | _ => true
def okAtL : List X → Bool
  | [] => true
  | e :: es => okAt true e && okAtL es
end

/-- the compile step for one equation: `none` = an exception is raised -/
def compile (c : Cfg) (x : X) : Option (List Tok) :=
  if !known c x && c.unknownBuiltinRaises then none else some (gen c false x)

/-! ### Reference parser: precedence climbing for an arbitrary `XPrec` -/

mutual
def xparseExpr (P : XPrec) : Nat → Nat → List XTok → Option (X × List XTok)
  | 0, _, _ => none
  | fuel + 1, m, ts =>
    match xparsePre P fuel m ts with
    | some (l, r) => xparseLoop P fuel m l r
    | none => none
def xparsePre (P : XPrec) : Nat → Nat → List XTok → Option (X × List XTok)
  | 0, _, _ => none
  | fuel + 1, m, ts =>
    match ts with
    | .op .sub :: r =>
      if m ≤ P.negLvl then
        match xparseExpr P fuel P.negDem r with
        | some (e, r') => some (.neg e, r')
        | none => none
      else none
    | .num s :: r => some (.num s, r)
    | .id s :: r => some (.id s, r)
    | .lp :: r =>
      match xparseExpr P fuel 0 r with
      | some (e, .rp :: r') => some (.paren e, r')
      | _ => none
    | .knot :: .lp :: r =>
      match xparseExpr P fuel 0 r with
      | some (e, .rp :: r') => some (.notp e, r')
      | _ => none
    | .kif :: r =>
      if m = 0 then
        match xparseExpr P fuel 0 r with
        | some (cnd, .kthen :: r1) =>
          match xparseExpr P fuel 0 r1 with
          | some (a, .kelse :: r2) =>
            match xparseExpr P fuel 0 r2 with
            | some (b, r3) => some (.ite cnd a b, r3)
            | none => none
          | _ => none
        | _ => none
      else none
    | .fn f :: .lp :: r =>
      match xparseArgs P fuel r with
      | some (as, r') => some (.call f as, r')
      | none => none
    | .fn f :: r => some (.call f [], r)
    | _ => none
def xparseArgs (P : XPrec) : Nat → List XTok → Option (List X × List XTok)
  | 0, _ => none
  | fuel + 1, ts =>
    match xparseExpr P fuel 0 ts with
    | some (e, .rp :: r) => some ([e], r)
    | some (e, .comma :: r) =>
      match xparseArgs P fuel r with
      | some (es, r') => some (e :: es, r')
      | none => none
    | _ => none
def xparseLoop (P : XPrec) : Nat → Nat → X → List XTok → Option (X × List XTok)
  | 0, _, _, _ => none
  | fuel + 1, m, acc, ts =>
    match ts with
    | .op k :: r =>
      if P.bp k ≥ m then
        match xparseExpr P fuel (P.rdem k) r with
        | some (e, r') => xparseLoop P fuel m (.bin k acc e) r'
        | none => none
      else some (acc, ts)
    | _ => some (acc, ts)
end

def xparse (P : XPrec) (ts : List XTok) : Option X :=
  match xparseExpr P (4 * ts.length + 8) 0 ts with
  | some (e, []) => some e
  | _ => none

/-- the per-program validation the driver executes: the reference reading `x` of the source tokens
is well-levelled and prints back to them, the IR kept the token sequence, and the text emitted for
the IR is the text emitted for the reference reading. -/
def validate (c : Cfg) (P : XPrec) (ts : List XTok) (ir : X) : Option X :=
  match xparse P ts with
  | some x => if decide (flat x = ts) && XWL P x && decide (flat ir = ts) && decide (gen c false ir = gen c false x)
      then some x else none
  | none => none

/-- the per-program validation WITHOUT comparing emitted texts: the reference reading is well-levelled
and prints back to the source tokens, the IR kept the token sequence and has its IFs in sentence
positions.  `Props.C03.validate_of_flat` proves that this implies `validate`. -/
def validateFlat (P : XPrec) (ts : List XTok) (ir : X) : Option X :=
  match xparse P ts with
  | some x => if decide (flat x = ts) && XWL P x && decide (flat ir = ts) && okAt true ir then some x else none
  | none => none

/-! ### The delay / smooth helper `smthn` of the generated class (DELAY1/3/N, SMTH3/N)

`s['stock<y>'](t) = init if t <= starttime else mem('stock<y>', t-dt) + dt * mem('changeInStock<y>', t-dt)`,
`s['changeInStock<y>'](t) = (source(t) - mem('stock<y>', t)) / (averaging_time / n)` with source = the input stream for
the first stage and the previous stage otherwise; `mem` keeps a private memo keyed on its time argument. -/

/-- how the helper handles points in time: `prev t` = `t - dt` as computed, `gnorm` = `grid_time`,
`isStart t` = `t <= self.starttime` -/
structure HTime (T : Type) where
  prev : T → T
  gnorm : T → T
  isStart : T → Bool

/-- what `mem` does to its time argument (probed Cfg fact) -/
def HTime.norm {T : Type} (c : Cfg) (ht : HTime T) : T → T := if c.helperKeysNormalise then ht.gnorm else id

/-- the arithmetic of one stage, uninterpreted: `a + b`, `a - b`, `dt * x`, `x / (averaging_time / n)` -/
structure HArith (α : Type) where
  add : α → α → α
  sub : α → α → α
  mulDt : α → α
  divTau : α → α

/-- stage `y` (0-based) of the helper at time `t`, reached through `mem`; `inp` = `self.memoize(inputstream, ·)`,
`init` = the start value computed at the time on which the start test succeeded; memoisation does not change
values (the memo is private to one call and the equations are functions of time), so it is not modelled -/
def smthH {T α : Type} (nrm : T → T) (ht : HTime T) (A : HArith α) (inp init : T → α) : Nat → Nat → T → Option α
  | 0, _, _ => none
  | fuel + 1, y, t =>
    let tn := nrm t
    if ht.isStart tn then some (init tn) else
    let tp := ht.prev tn
    match smthH nrm ht A inp init fuel y tp, smthH nrm ht A inp init fuel y (nrm tp),
      (match y with
       | 0 => some (inp (nrm tp))
       | y' + 1 => smthH nrm ht A inp init fuel y' (nrm tp)) with
    | some s, some s2, some src => some (A.add s (A.mulDt (A.divTau (A.sub src s2))))
    | _, _, _ => none

/-- the definition on the time grid: a cascade of first-order stocks, each advanced once per interval -/
def cascade {α : Type} (A : HArith α) (inp : Nat → α) (init : α) : Nat → Nat → α
  | 0, _ => init
  | k + 1, y =>
    let s := cascade A inp init k y
    let src := match y with
      | 0 => inp k
      | y' + 1 => cascade A inp init k y'
    A.add s (A.mulDt (A.divTau (A.sub src s)))

/-! ### Name resolution in documents with modules (`plugins/makeAbsolute.py`, called from `parse_xmile`)

Every named `<model>` is a module; `makeExpressionAbsolute(model, tree)` walks the tree of an equation and rewrites — IN PLACE —
every identifier without a separator to `<sanitized model>.<name>` (the root model, whose name is empty, keeps bare names). -/

def isQual (s : String) : Bool := s.toList.contains '.'

/-- `.name`: a leading separator addresses the root model (as in `<connect from=".name">`) -/
def isRootRef (s : String) : Bool := s.toList.head? == some '.'

/-- `m` = the sanitized model name (`""` for the root model) -/
def resolveName (m s : String) : String :=
  if isRootRef s then String.ofList (s.toList.drop 1) else if isQual s || m = "" then s else m ++ "." ++ s

mutual
def makeAbs (m : String) : X → X
  | .id s => .id (resolveName m s)
  | .paren e => .paren (makeAbs m e)
  | .neg e => .neg (makeAbs m e)
  | .notp e => .notp (makeAbs m e)
  | .bin k l r => .bin k (makeAbs m l) (makeAbs m r)
  | .ite cnd a b => .ite (makeAbs m cnd) (makeAbs m a) (makeAbs m b)
  | .call f args => .call f (makeAbsL m args)
  | e => e
def makeAbsL (m : String) : List X → List X
  | [] => []
  | e :: es => makeAbs m e :: makeAbsL m es
end

mutual
/-- identifiers of a tree, in order of occurrence -/
def ids : X → List String
  | .id s => [s]
  | .paren e => ids e
  | .neg e => ids e
  | .notp e => ids e
  | .bin _ l r => ids l ++ ids r
  | .ite cnd a b => ids cnd ++ (ids a ++ ids b)
  | .call _ args => idsL args
  | _ => []
def idsL : List X → List String
  | [] => []
  | e :: es => ids e ++ idsL es
end

/-- one equation of a document: the (sanitized) name of its model, the heap cell that holds its tree object (what
`visitor.visit(grammar.parse(text))` returned to it), and the tree that parsing its text yields -/
structure Eqn where
  model : String
  cell : Nat
  tree : X

/-- `parse_xmile` visits the equations in document order; each visit absolutises the tree object found in the equation's cell
in place (a cell that was filled by an earlier equation — a shared tree — is absolutised again, on top of the first prefix) -/
def absStep (st : Nat → Option X) (e : Eqn) : Nat → Option X :=
  fun i => if i = e.cell then some (makeAbs e.model ((st i).getD e.tree)) else st i

def absAll (es : List Eqn) : Nat → Option X := es.foldl absStep (fun _ => none)

def distinctNats : List Nat → Bool
  | [] => true
  | n :: ns => !ns.contains n && distinctNats ns

/-- every equation owns its tree: no two equations hold the same tree object -/
def ownedOK (es : List Eqn) : Bool := distinctNats (es.map (·.cell))

/-! ### S-expression of an XMILE tree (for comparison with the harness's own parser) -/

def xopName : XOp → String
  | .or => "or" | .and => "and" | .lt => "<" | .le => "<=" | .gt => ">" | .ge => ">=" | .eq => "="
  | .ne => "<>" | .add => "+" | .sub => "-" | .mul => "*" | .div => "/" | .mod => "mod" | .pow => "^"

mutual
def xsexp : X → String
  | .num s => s!"(num {s})"
  | .id s => s!"(id {s})"
  | .nnum s => s!"(neg (num {s}))"
  | .paren e => xsexp e
  | .neg e => s!"(neg {xsexp e})"
  | .notp e => s!"(not {xsexp e})"
  | .bin k l r => s!"({xopName k} {xsexp l} {xsexp r})"
  | .ite c a b => s!"(if {xsexp c} {xsexp a} {xsexp b})"
  | .call f args => s!"(call {f}{xsexpL args})"
  | .nothing => "(nothing)"
def xsexpL : List X → String
  | [] => ""
  | e :: es => " " ++ xsexp e ++ xsexpL es
end

/-! ### Names: `sanitizeName` on code points (ASCII domain) -/

def lowerC (c : Nat) : Nat := if 65 ≤ c ∧ c ≤ 90 then c + 32 else c
def upperC (c : Nat) : Nat := if 97 ≤ c ∧ c ≤ 122 then c - 32 else c

/-- the chain of `str.replace`: newline and the two characters `\n` become a blank, `"` `-` `'`
vanish, blanks become `_`.  (92 = backslash, 110 = n, 10 = newline, 32 = blank, 95 = underscore) -/
def stage1 : List Nat → List Nat
  | [] => []
  | 92 :: 110 :: r => 95 :: stage1 r
  | c :: r =>
    if c = 10 ∨ c = 32 then 95 :: stage1 r
    else if c = 34 ∨ c = 45 ∨ c = 39 then stage1 r
    else c :: stage1 r

/-- `re.sub("_+", "_")` -/
def collapse (prevUs : Bool) : List Nat → List Nat
  | [] => []
  | c :: r =>
    if c = 95 then (if prevUs then collapse true r else 95 :: collapse true r)
    else c :: collapse false r

def stripDot : List Nat → List Nat
  | 46 :: r => r
  | l => l

/-- `''.join(w.capitalize() for w in s.split('_'))` in one pass -/
def camelAux (start : Bool) : List Nat → List Nat
  | [] => []
  | c :: r => if c = 95 then camelAux true r else (if start then upperC c else lowerC c) :: camelAux false r

def lowerFirst : List Nat → List Nat
  | [] => []
  | c :: r => lowerC c :: r

def sanL (l : List Nat) : List Nat := lowerFirst (camelAux true (stripDot (collapse false (stage1 l))))

def sanitize (s : String) : String := String.ofList ((sanL (s.toList.map Char.toNat)).map Char.ofNat)

/-! ### Wire format -/

def xopOfString : String → Option XOp
  | "or" => some .or | "and" => some .and | "<" => some .lt | "<=" => some .le | ">" => some .gt
  | ">=" => some .ge | "=" => some .eq | "<>" => some .ne | "+" => some .add | "-" => some .sub
  | "*" => some .mul | "/" => some .div | "mod" => some .mod | "^" => some .pow
  | _ => none

/-- one word ↦ one XMILE token:  N<text> I<name> F<name> O<op> ( ) , Knot Kif Kthen Kelse -/
def xtokOfWord (w : String) : Option XTok :=
  match w with
  | "(" => some .lp | ")" => some .rp | "," => some .comma
  | "Knot" => some .knot | "Kif" => some .kif | "Kthen" => some .kthen | "Kelse" => some .kelse
  | _ =>
    match w.toList with
    | 'N' :: r => some (.num (String.ofList r))
    | 'I' :: r => some (.id (String.ofList r))
    | 'F' :: r => some (.fn (String.ofList r))
    | 'O' :: r => (xopOfString (String.ofList r)).map .op
    | _ => none

mutual
/-- prefix words:  n <s> (a leading `-` makes it the signed literal `nnum`) | i <s> | e (nothing) | p e | g e | t e | b <op> l r | q c a b | c <f> <n> a1 … an -/
def readX : Nat → List String → Option (X × List String)
  | 0, _ => none
  | fuel + 1, ws =>
    match ws with
    | "n" :: s :: r =>
      match s.toList with
      | '-' :: cs => some (.nnum (String.ofList cs), r)
      | _ => some (.num s, r)
    | "i" :: s :: r => some (.id s, r)
    | "e" :: r => some (.nothing, r)
    | "p" :: r => match readX fuel r with
      | some (e, r') => some (.paren e, r')
      | none => none
    | "g" :: r => match readX fuel r with
      | some (e, r') => some (.neg e, r')
      | none => none
    | "t" :: r => match readX fuel r with
      | some (e, r') => some (.notp e, r')
      | none => none
    | "b" :: o :: r =>
      match xopOfString o with
      | some k =>
        match readX fuel r with
        | some (l, r1) =>
          match readX fuel r1 with
          | some (rr, r2) => some (.bin k l rr, r2)
          | none => none
        | none => none
      | none => none
    | "q" :: r =>
      match readX fuel r with
      | some (cnd, r1) =>
        match readX fuel r1 with
        | some (a, r2) =>
          match readX fuel r2 with
          | some (b, r3) => some (.ite cnd a b, r3)
          | none => none
        | none => none
      | none => none
    | "c" :: f :: n :: r =>
      match n.toNat? with
      | some n =>
        match readXs fuel n r with
        | some (as, r') => some (.call f as, r')
        | none => none
      | none => none
    | _ => none
def readXs : Nat → Nat → List String → Option (List X × List String)
  | 0, _, _ => none
  | _ + 1, 0, ws => some ([], ws)
  | fuel + 1, n + 1, ws =>
    match readX fuel ws with
    | some (e, r) =>
      match readXs fuel n r with
      | some (es, r') => some (e :: es, r')
      | none => none
    | none => none
end

def xOfWords (ws : List String) : Option X :=
  match readX (ws.length + 2) ws with
  | some (e, []) => some e
  | _ => none

end Bptk.C03
