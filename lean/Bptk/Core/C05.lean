/-
C05 — the simulated time grid (`BPTK_Py/util/floating_point.py`, `Model.memoize`, `SdSimulation.__simulate`,
`Element.plot`, `bptk.run_step`).

Executable model, import-free; times are core `Rat`.  Every floating-point operation of the code is
modelled as `fl (a ∘ b)` for a rounding function `fl : Rat → Rat` that is a *parameter* of the model:
the theorems (Props/C05) quantify over every `fl` with bounded relative error, the driver instantiates
`fl := id` (exact decimal arithmetic) and prints labels as the decimal strings Python's `repr` shows.

The four places that advance time:
* `timerange`  — `util.timerange`: `i = normalize(i+dt, base=dt, offset=start, precision=max(scale start, scale dt))`;
* `memoKey`    — `Model.memoize`: `normalize(arg, dt, starttime, max(scale starttime, scale dt))`;
* `simTimes` / `plotTimes` — the bound handed to `timerange` by `SdSimulation.__simulate` / `Element.plot`:
  inclusive `until` (repaired tree) or the bare float `until + dt` as exclusive bound (pinned tree);
* `sessionNext` — `bptk.run_step`: `normalize(step+dt, …)` (repaired) or bare `step + dt` (pinned).
`Cfg` records which variant the probes of the current run found.
-/
namespace Bptk.C05

structure Cfg where
  simBoundInclusive : Bool
  plotBoundInclusive : Bool
  stepClockNormalised : Bool
  /-- `begin_session` stores the EFFECTIVE start `max(argument, scenario start)` as the origin of the grid on which
  `run_step` snaps the clock (wave 3; the defective variant stores the `starttime` argument, default 0.0). -/
  sessionOriginEffective : Bool
  /-- the time grid of a batch run is generated from the run specs `Model.memoize` normalises with — `mod.dt` AFTER
  `change_runspecs` applied the scenario's run specs (wave 6; the defective variant generates it with the copy of the
  model's dt that `SdSimulation.__init__` took before). -/
  runGridUsesModelDt : Bool
deriving DecidableEq, Repr

def Cfg.good (c : Cfg) : Bool :=
  c.simBoundInclusive && c.plotBoundInclusive && c.stepClockNormalised && c.sessionOriginEffective &&
    c.runGridUsesModelDt

/-! ### `round` -/

def absQ (x : Rat) : Rat := if x < 0 then -x else x

/-- Python's `round(y)` (no digits): nearest integer, ties to even. -/
def rndHE (y : Rat) : Int :=
  let f := y.floor
  let r := y - (f : Rat)
  if r < 1/2 then f else if 1/2 < r then f + 1 else (if f % 2 = 0 then f else f + 1)

def pow10 (p : Nat) : Rat := ((10 ^ p : Nat) : Rat)

/-- the exact part of Python's `round(x, p)`: the multiple of `10^-p` nearest to `x`, ties to even
(CPython rounds the exact binary value correctly; the result is then `fl` of this). -/
def roundDec (p : Nat) (x : Rat) : Rat := ((rndHE (x * pow10 p) : Int) : Rat) / pow10 p

/-! ### `precision_and_scale` (numeric, exactly the steps of the code, in exact arithmetic) -/

/-- `int(math.log10(n))` for `n ≥ 1`: number of decimal digits minus one. -/
def ilog10 (n : Nat) : Nat := if n < 10 then 0 else ilog10 (n / 10) + 1
decreasing_by omega

/-- `while frac_digits % 10 == 0: frac_digits /= 10` (`frac_digits ≥ 1` always). -/
def stripZeros (n : Nat) : Nat := if n % 10 = 0 ∧ 0 < n then stripZeros (n / 10) else n
decreasing_by omega

def maxDigits : Nat := 14

def precisionAndScale (x : Rat) : Nat × Nat :=
  let ax := absQ x
  let ip := ax.floor.toNat
  let mag := if ip = 0 then 1 else ilog10 ip + 1
  if mag ≥ maxDigits then (mag, 0) else
  let frac := ax - (ip : Rat)
  let mult : Nat := 10 ^ (maxDigits - mag)
  let fd := mult + ((mult : Rat) * frac + 1/2).floor.toNat
  let sc := ilog10 (stripZeros fd)
  (mag + sc, sc)

def scale (x : Rat) : Nat := (precisionAndScale x).2

def precOf (start dt : Rat) : Nat := max (scale start) (scale dt)

/-! ### `normalize`, `timerange` -/

/-- `1.0*round(base * round((x-offset)/base)+offset, precision)` with every float operation rounded by `fl`. -/
def normalize (fl : Rat → Rat) (x base offset : Rat) (prec : Nat) : Rat :=
  fl (roundDec prec (fl (fl (base * ((rndHE (fl (fl (x - offset) / base)) : Int) : Rat)) + offset)))

/-- one evaluation of the loop body's last line. -/
def advance (fl : Rat → Rat) (start dt : Rat) (prec : Nat) (i : Rat) : Rat :=
  normalize fl (fl (i + dt)) dt start prec

/-- the `while i <= stoptime` loop; `none` when the fuel runs out (the Python loop would not have ended). -/
def timerangeLoop (fl : Rat → Rat) (start stop dt : Rat) (prec : Nat) (excl : Bool) :
    Nat → Rat → List Rat → Option (List Rat)
  | 0, _, _ => none
  | fuel + 1, i, acc =>
    if i ≤ stop then
      timerangeLoop fl start stop dt prec excl fuel (advance fl start dt prec i)
        (if i < stop ∨ excl = false then acc ++ [i] else acc)
    else some acc

def timerangeP (fl : Rat → Rat) (fuel : Nat) (start stop dt : Rat) (prec : Nat) (excl : Bool) : Option (List Rat) :=
  timerangeLoop fl start stop dt prec excl fuel start []

/-- `util.timerange(start, stop, dt, exclusive)` (precision computed as the code does). -/
def timerange (fl : Rat → Rat) (fuel : Nat) (start stop dt : Rat) (excl : Bool) : Option (List Rat) :=
  timerangeP fl fuel start stop dt (precOf start dt) excl

/-- argument normalisation of `Model.memoize`. -/
def memoKey (fl : Rat → Rat) (start dt : Rat) (prec : Nat) (x : Rat) : Rat := normalize fl x dt start prec

/-! ### the callers -/

/-- times visited by `SdSimulation.__simulate(start, until)`. -/
def simTimes (c : Cfg) (fl : Rat → Rat) (fuel : Nat) (start stop dt : Rat) (prec : Nat) : Option (List Rat) :=
  if c.simBoundInclusive then timerangeP fl fuel start stop dt prec false
  else timerangeP fl fuel start (fl (stop + dt)) dt prec true

/-- index of `Element.plot(starttime, stoptime, dt)`. -/
def plotTimes (c : Cfg) (fl : Rat → Rat) (fuel : Nat) (start stop dt : Rat) (prec : Nat) : Option (List Rat) :=
  if c.plotBoundInclusive then timerangeP fl fuel start stop dt prec false
  else timerangeP fl fuel start (fl (stop + dt)) dt prec true

/-- `bptk.run_step`: how the session clock moves on. -/
def sessionNext (c : Cfg) (fl : Rat → Rat) (start dt : Rat) (prec : Nat) (clock : Rat) : Rat :=
  if c.stepClockNormalised then normalize fl (fl (clock + dt)) dt start prec else fl (clock + dt)

/-- the clock values of the first `n` calls of `run_step` that are not answered "Stoptime reached"
(`if step > stoptime`), in order. -/
def sessionClocks (c : Cfg) (fl : Rat → Rat) (start stop dt : Rat) (prec : Nat) : Nat → Rat → List Rat
  | 0, _ => []
  | n + 1, clock =>
    if stop < clock then [] else clock :: sessionClocks c fl start stop dt prec n (sessionNext c fl start dt prec clock)

/-- keys of the result of one `run_step` at clock value `clock`:
`SdSimulation.start(start=clock, until=clock)` → `simTimes` with both ends `clock`, offset `clock`. -/
def sessionStepKeys (c : Cfg) (fl : Rat → Rat) (fuel : Nat) (dt : Rat) (precStep : Nat) (clock : Rat) : Option (List Rat) :=
  simTimes c fl fuel clock clock dt precStep

/-! ### elements that consume `t` directly (wave 2)

`Model.memoize(equation, arg)` normalises `arg` to the key and calls the equation **with the key**
(`self.equations[equation](normalized_arg)`), so an element that reads `t` — `TIME`, a threshold
`IF(TIME >= x)`, a stock's `t <= model.starttime` test and its `t - model.dt` recursion — sees the
decimal grid value whatever float the caller passed. -/

/-- the generated function of a DSL stock,
`init if t <= model.starttime else model.memoize(name, t - model.dt) + model.dt*(…)`, reduced to what
it does with time: the number of Euler steps between the start time and `t` (`none`: fuel exhausted —
the Python recursion would not have ended). -/
def stockDepth (fl : Rat → Rat) (start dt : Rat) (prec : Nat) : Nat → Rat → Option Nat
  | 0, _ => none
  | fuel + 1, t =>
    if t ≤ start then some 0
    else (stockDepth fl start dt prec fuel (memoKey fl start dt prec (fl (t - dt)))).map (· + 1)

/-- kinds of elements whose value depends on the time argument itself. -/
inductive Elem where
  | time                 -- converter `TIME`
  | thr (x : Rat)        -- converter `IF(TIME >= x, 1, 0)`
  | stock                -- a stock (value = a function of the number of steps taken)
deriving Repr

/-- `Model.memoize(e, arg)` on a fresh memo: the equation is evaluated at the normalised key. -/
def evalElem (fl : Rat → Rat) (fuel : Nat) (start dt : Rat) (prec : Nat) (e : Elem) (arg : Rat) : Option Rat :=
  let key := memoKey fl start dt prec arg
  match e with
  | .time => some key
  | .thr x => some (if x ≤ key then 1 else 0)
  | .stock => (stockDepth fl start dt prec fuel key).map (fun k => (k : Rat))

/-- `util.timerange(start, stop, dt, exclusive)` … and the callers with the precision the code computes
from its own float arguments (`max(scale(start), scale(dt))`). -/
def simTimesC (c : Cfg) (fl : Rat → Rat) (fuel : Nat) (start stop dt : Rat) : Option (List Rat) :=
  simTimes c fl fuel start stop dt (precOf start dt)

def plotTimesC (c : Cfg) (fl : Rat → Rat) (fuel : Nat) (start stop dt : Rat) : Option (List Rat) :=
  plotTimes c fl fuel start stop dt (precOf start dt)

def sessionClocksC (c : Cfg) (fl : Rat → Rat) (start stop dt : Rat) (calls : Nat) : List Rat :=
  sessionClocks c fl start stop dt (precOf start dt) calls start

/-- one `run_step` at clock value `clock`: `SdSimulation.start(start=clock, until=clock)` computes its
precision from the clock value itself. -/
def sessionStepKeysC (c : Cfg) (fl : Rat → Rat) (fuel : Nat) (dt clock : Rat) : Option (List Rat) :=
  sessionStepKeys c fl fuel dt (precOf clock dt) clock

/-- `begin_session(starttime=arg)` on a scenario starting at `start`: the first clock value. -/
def effStart (arg start : Rat) : Rat := if arg ≤ start then start else arg

/-- the origin `run_step` normalises the clock against (`session_state["starttime"]`). -/
def sessionOrigin (c : Cfg) (arg start : Rat) : Rat := if c.sessionOriginEffective then effStart arg start else arg

/-- the clock values of a session begun with the `starttime` argument `arg` (default `0.0`): the clock starts at the
effective start; origin and precision of the normalisation come from the stored origin. -/
def sessionClocksA (c : Cfg) (fl : Rat → Rat) (arg start stop dt : Rat) (calls : Nat) : List Rat :=
  sessionClocks c fl (sessionOrigin c arg start) stop dt (precOf (sessionOrigin c arg start) dt) calls (effStart arg start)

/-- the row labels of the FIRST run of a scenario whose run specs carry the step `dt` on a model that was built with
`dtOld`: `SdSimulation(model)` copies `dtOld`, `change_runspecs` sets `mod.dt := dt`, then the grid is generated. -/
def runTimesRS (c : Cfg) (fl : Rat → Rat) (fuel : Nat) (start stop dtOld dt : Rat) : Option (List Rat) :=
  simTimesC c fl fuel start stop (if c.runGridUsesModelDt then dt else dtOld)

def memoKeyC (fl : Rat → Rat) (start dt x : Rat) : Rat := memoKey fl start dt (precOf start dt) x

/-! ### decimal strings (what Python's `repr` prints for a float that is a short decimal) -/

def parseNatDigits (s : String) : Option Nat :=
  if s.isEmpty then none else if s.all Char.isDigit then s.toNat? else none

/-- `[-]ddd[.ddd][e[+-]dd]` → exact rational. -/
def parseDec (s0 : String) : Option Rat :=
  let neg := s0.startsWith "-"
  let s := if neg then (s0.drop 1).toString else s0
  let (mant, ex) : String × Option Int :=
    match s.splitOn "e" with
    | [m, e] =>
      let eneg := e.startsWith "-"
      let e' := if eneg || e.startsWith "+" then (e.drop 1).toString else e
      (m, (parseNatDigits e').map fun n => if eneg then -(n : Int) else (n : Int))
    | [m] => (m, some 0)
    | _ => ("", none)
  match ex with
  | none => none
  | some ex =>
    let parts := mant.splitOn "."
    let r : Option Rat :=
      match parts with
      | [ip] => (parseNatDigits ip).map fun n => (n : Rat)
      | [ip, fp] =>
        match parseNatDigits ip, parseNatDigits fp with
        | some a, some b => some ((a : Rat) + (b : Rat) / pow10 fp.length)
        | _, _ => none
      | _ => none
    r.map fun v =>
      let v := if ex < 0 then v / pow10 ex.natAbs else v * pow10 ex.natAbs
      if neg then -v else v

/-- digits of `n` (most significant first). -/
def natDigits (n : Nat) : List Char := (toString n).toList

/-- smallest `p ≤ bound` with `x·10^p` an integer. -/
def decPlaces (x : Rat) (bound : Nat) : Option Nat :=
  (List.range (bound + 1)).find? fun p => (x * pow10 p).den == 1

/-- Python `repr` of the double nearest to the finite decimal `x` (at most 15 significant digits:
then `repr` prints exactly that decimal — float_repr_style 'short'): positional for
`1e-4 ≤ |x| < 1e16`, else scientific with a two-digit exponent. `none` if `x` is not a short decimal. -/
def reprDec (x : Rat) : Option String :=
  match decPlaces x 40 with
  | none => none
  | some p =>
    let neg := x < 0
    let m : Nat := (absQ x * pow10 p).floor.toNat      -- |x| = m / 10^p, p minimal
    let sign := if neg then "-" else ""
    if m = 0 then some (sign ++ "0.0") else
    let ds := natDigits m
    let nd := ds.length
    if nd > 17 then none else
    -- decimal exponent of the leading digit
    let e10 : Int := (nd : Int) - 1 - (p : Int)
    if -4 ≤ e10 ∧ e10 < 16 then
      if p = 0 then some (sign ++ String.ofList ds ++ ".0")
      else
        let padded := List.replicate (p + 1 - nd) '0' ++ ds     -- at least p+1 digits
        let k := padded.length - p
        some (sign ++ String.ofList (padded.take k) ++ "." ++ String.ofList (padded.drop k))
    else
      -- scientific: strip trailing zeros of the digit string
      let ds' := (ds.reverse.dropWhile (· == '0')).reverse
      let mant := match ds' with
        | [] => "0"
        | [d] => String.singleton d
        | d :: rest => String.singleton d ++ "." ++ String.ofList rest
      let ea := e10.natAbs
      let es := (if ea < 10 then "0" else "") ++ toString ea
      some (sign ++ mant ++ "e" ++ (if e10 < 0 then "-" else "+") ++ es)

/-- exact value of an IEEE-754 double given by its bit pattern (`none` for inf/nan). -/
def ratOfBits (b : UInt64) : Option Rat :=
  let bn : Nat := b.toNat
  let sgn : Nat := bn / 2 ^ 63
  let ex : Nat := (bn / 2 ^ 52) % 2048
  let fr : Nat := bn % 2 ^ 52
  if ex = 2047 then none else
  let v : Rat :=
    if ex = 0 then (fr : Rat) / ((2 ^ 1074 : Nat) : Rat)
    else
      let m : Nat := 2 ^ 52 + fr
      if ex ≥ 1075 then ((m * 2 ^ (ex - 1075) : Nat) : Rat) else (m : Rat) / ((2 ^ (1075 - ex) : Nat) : Rat)
  some (if sgn = 1 then -v else v)

end Bptk.C05
