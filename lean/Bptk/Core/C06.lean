/-
C06 — scenarios of SD scenario managers, their cloned models and the base model as a heap machine.

Executable model, import-free.  Names (constants, graphical functions, managers, scenario slots) and
values (numbers, point lists) are natural numbers: the harness maps the strings / values it uses to
numbers; the numeric simulation is *not* modelled — a read returns the **effective settings it reads
through the heap** (`Eff`) together with the memo content it meets, and the simulated numbers are an
uninterpreted function of that (`Sim`, in Props).

What is a heap cell (mutable Python object reachable from several owners) and what is inline:
* `hp r`  — a `Model.points` dictionary,
* `he r`  — a `Model.equations` dictionary, recorded as the overrides written by `change_equation`,
* `hm r`  — a `Model.memo` dictionary, recorded as the list of (effective settings, step) under which
            its entries were computed,
* `hel r` — an `ArrayedEquation` table (`Element._elements`), opaque content.
`Model()` creates fresh `equations`/`memo` dictionaries, so a clone gets a fresh cell index `ref` for
both; where its `points` and `_elements` live is decided by `get_cloned_model` — the two mechanism
facts of `Cfg`, probed on every run.  The scenario object's own fields (`constants`, `points`,
`starttime/stoptime/dt`) are inline: they are dictionaries handed in by the caller (assumption: a
distinct dictionary object per scenario).

Cell 0 is the base model (the model object the managers were registered from).

Wave 2 — dictionary identity of the scenario-level settings.  A manager's `base_constants` / `base_points`
dictionaries live in the manager entry (`mgrs m`), which is also their identity.  `add_scenarios` merges them into
the scenario dictionary; when the scenario dictionary has no own `constants` (`points`) key the code creates a new
dictionary and fills it (`Cfg.mergeOwnsDict = true`), or — the defective mechanism, `setdefault(key, base)` — hands
the scenario the base dictionary object itself: `Scn.cShared` / `Scn.pShared`.  Every read of the scenario-level
settings (`scnConsts`, `scnPts`) and every in-place write (`configureScn`) goes through that identity, so that under
sharing a `configure` of one scenario is seen by its siblings, by the manager and by every scenario registered
later (whose merge reads the manager entry).
-/
namespace Bptk.C06

abbrev Store := List (Nat × Nat)

def Store.get (s : Store) (k : Nat) : Option Nat :=
  match s with
  | [] => none
  | (k', v) :: rest => if k' = k then some v else Store.get rest k

/-- `d[k] = v` on a Python dict: replace in place, else append. -/
def Store.set (s : Store) (k v : Nat) : Store :=
  match s with
  | [] => [(k, v)]
  | (k', v') :: rest => if k' = k then (k, v) :: rest else (k', v') :: Store.set rest k v

/-- `for k, v in src.items(): dst[k] = v` -/
def Store.update (dst src : Store) : Store := src.foldl (fun d kv => Store.set d kv.1 kv.2) dst

/-- `for k, v in src.items(): if k not in dst: dst[k] = v`  (base constants / base points) -/
def Store.fill (dst src : Store) : Store :=
  src.foldl (fun d kv => match Store.get d kv.1 with | some _ => d | none => d ++ [kv]) dst

structure RunSpec where
  start : Nat
  stop : Nat
  dt : Nat
deriving DecidableEq, Repr

/-- A scenario dictionary / settings dictionary: `constants`, `points`, `runspecs`. -/
structure Dict where
  consts : Store
  pts : Store
  start : Option Nat
  stop : Option Nat
  dt : Option Nat
deriving DecidableEq, Repr

def RunSpec.override (r : RunSpec) (d : Dict) : RunSpec :=
  { start := d.start.getD r.start, stop := d.stop.getD r.stop, dt := d.dt.getD r.dt }

/-- Effective settings a simulation reads: the equation overrides, the points table, the run specs of
the model object it runs on, and its arrayed-element table. -/
structure Eff where
  eqs : Store
  pts : Store
  rs : RunSpec
  elems : Nat
deriving DecidableEq, Repr

/-- one memo generation: settings under which entries were computed, and for which step
(`none` = a whole run from start to stop). -/
abbrev MemoEntry := Eff × Option Nat

structure Cfg where
  /-- `get_cloned_model` gives the clone its own copy of `model.points` (true) or the very same
  dictionary object (false; the pinned tree). -/
  cloneOwnsPoints : Bool
  /-- same question for `Element._elements` (false on the pinned tree; no scenario operation writes it). -/
  cloneOwnsElements : Bool
  /-- `add_scenarios` merging the manager's `base_constants` / `base_points` into a scenario dictionary that
  has no own `constants` / `points` key: a NEW dictionary is created and filled (true; the pinned tree), or the
  scenario receives the manager's base dictionary object itself (false: `setdefault(key, base)`), which then is
  one object for the manager and all such scenarios. -/
  mergeOwnsDict : Bool
  /-- `add_scenarios` for a scenario name that is already registered builds a NEW clone of the base model (true; the
  tree: `get_cloned_model(self.model)` on every registration), or hands the new scenario object the clone the old one
  had, after `reset_cache()` only (false): what earlier runs / steps wrote into that clone — equation overrides,
  points, run specs — survives a re-registration that no longer lists it. -/
  reregFreshClone : Bool
  /-- `begin_session` (and the replay of a restored session) applies the settings given for (manager, scenario) to exactly
  that scenario (true; `settings[manager][scenario]`), or merges the settings of all managers of the session into one
  dictionary keyed by the scenario NAME (false): settings addressed to `smA/base` are then also configured on `smB/base`. -/
  sessionAddressesPair : Bool
deriving DecidableEq, Repr

/-- The base model as built by the user. -/
structure Base where
  pts : Store
  rs : RunSpec
  elems : Nat
deriving DecidableEq, Repr

structure Scn where
  mgr : Nat
  consts : Store        -- SimulationScenario.constants
  pts : Store           -- SimulationScenario.points
  rs : RunSpec          -- SimulationScenario.starttime/stoptime/dt
  mrs : RunSpec         -- clone.starttime/stoptime/dt
  live : Bool           -- sd_simulation is not None
  ref : Nat             -- cell of clone.equations and clone.memo
  ptsRef : Nat          -- cell of clone.points
  elRef : Nat           -- cell of the clone's elements' `_elements`
  cShared : Bool        -- `SimulationScenario.constants` IS the `base_constants` dictionary of manager `mgr`
  pShared : Bool        -- `SimulationScenario.points` IS the `base_points` dictionary of manager `mgr`
deriving DecidableEq, Repr

structure State where
  mgrs : Nat → Option (Store × Store)     -- manager -> (base_constants, base_points)
  scns : Nat → Option Scn                 -- slot (manager, scenario name) -> scenario
  hp : Nat → Store
  he : Nat → Store
  hm : Nat → List MemoEntry
  hel : Nat → Nat
  next : Nat

def State.init (b : Base) : State :=
  { mgrs := fun _ => none, scns := fun _ => none,
    hp := fun r => if r = 0 then b.pts else [], he := fun _ => [], hm := fun _ => [],
    hel := fun r => if r = 0 then b.elems else 0, next := 1 }

inductive Op where
  | regMgr (m : Nat) (bc bp : Store)     -- register_scenario_manager({m: {"model": base, base_constants, base_points}})
  | add (i m : Nat) (d : Dict)           -- register_scenarios({name_i: d}, m)
  | run (i : Nat)                        -- SdRunner._run_scenarios for scenario i
  | configure (i : Nat) (d : Dict)       -- SimulationScenario.configure_settings / the REST `/run` settings block
  | reset (i : Nat)                      -- reset_scenario_cache
  | step (i : Nat) (d : Dict) (t : Nat)  -- SdRunner.run_scenario_step for scenario i at session step t with step settings d
  | evalBase                             -- base model evaluated directly (Element.__call__/plot, model.equation)
  | setup (i : Nat)                      -- `setup_constants` / `setup_points`: a manager loaded from scenario FILES writes the
                                         -- scenario's constants and points into its model as soon as the model is instantiated
deriving Repr

def updFn {α : Type} (f : Nat → α) (k : Nat) (v : α) : Nat → α := fun x => if x = k then v else f x

/-- what a simulation on scenario `s`'s model reads -/
def effOf (st : State) (s : Scn) : Eff :=
  { eqs := st.he s.ref, pts := st.hp s.ptsRef, rs := s.mrs, elems := st.hel s.elRef }

def baseEff (b : Base) (st : State) : Eff :=
  { eqs := st.he 0, pts := st.hp 0, rs := b.rs, elems := st.hel 0 }

/-- Dictionary identity of the scenario-level settings: the object `SimulationScenario.constants` is either the
scenario's own dictionary (inline in `Scn`) or — `cShared` — the `base_constants` dictionary of its manager, which
is stored in (and identified by) the manager entry.  Reads and writes go through that identity. -/
def mgrConsts (st : State) (m : Nat) : Store := match st.mgrs m with | some p => p.1 | none => []
def mgrPts (st : State) (m : Nat) : Store := match st.mgrs m with | some p => p.2 | none => []
def scnConsts (st : State) (s : Scn) : Store := if s.cShared then mgrConsts st s.mgr else s.consts
def scnPts (st : State) (s : Scn) : Store := if s.pShared then mgrPts st s.mgr else s.pts

/-- `SdRunner`: apply the scenario's settings to its model: `change_equation` for every constant,
`change_points` for every points entry, `change_runspecs`. -/
def applyScn (st : State) (s : Scn) : State × Scn :=
  ({ st with he := updFn st.he s.ref (Store.update (st.he s.ref) (scnConsts st s))
             hp := updFn st.hp s.ptsRef (Store.update (st.hp s.ptsRef) (scnPts st s)) },
   { s with mrs := s.rs })

/-- `SimulationScenario.configure_settings`: `self.constants[k] = v`, `self.points[k] = v` IN PLACE on whichever
dictionary object the scenario holds, run specs on the scenario object. -/
def configureScn (st : State) (i : Nat) (s : Scn) (d : Dict) : State :=
  let s1 := { s with consts := if s.cShared then s.consts else Store.update s.consts d.consts,
                     pts := if s.pShared then s.pts else Store.update s.pts d.pts,
                     rs := s.rs.override d }
  if s.cShared || s.pShared then
    { st with scns := updFn st.scns i (some s1)
              mgrs := updFn st.mgrs s.mgr ((st.mgrs s.mgr).map fun p =>
                        (if s.cShared then Store.update p.1 d.consts else p.1,
                         if s.pShared then Store.update p.2 d.pts else p.2)) }
  else { st with scns := updFn st.scns i (some s1) }

/-- `SimulationScenario.setup_constants` / `setup_points` (file-loaded managers, `instantiate_model`): the scenario's
constants and points are written into its model; run specs and memo are not touched. -/
def setupScn (st : State) (s : Scn) : State :=
  { st with he := updFn st.he s.ref (Store.update (st.he s.ref) (scnConsts st s))
            hp := updFn st.hp s.ptsRef (Store.update (st.hp s.ptsRef) (scnPts st s)) }

/-- evaluate: the memo cell receives a generation computed under the effective settings -/
def simulate (st : State) (s : Scn) (t : Option Nat) : State :=
  { st with hm := updFn st.hm s.ref (st.hm s.ref ++ [(effOf st s, t)]) }

/-- the clone a re-registration would reuse (defective mechanism only) -/
def reuseOf (c : Cfg) (st : State) (i : Nat) : Option Scn := if c.reregFreshClone then none else st.scns i

/-- re-registration on the previous clone: memo cleared (`reset_cache`), equations / points / run specs of the model
object as they are; `SimulationScenario.__init__` takes its default run specs from that model and merges listed
points into a new table built from the clone's current one. -/
def addReuse (c : Cfg) (st : State) (i m : Nat) (d : Dict) (bc bp : Store) (old : Scn) : State :=
  let consts := Store.fill d.consts bc
  let pts := Store.fill d.pts bp
  let shC := !c.mergeOwnsDict && d.consts.isEmpty && !bc.isEmpty
  let shP := !c.mergeOwnsDict && d.pts.isEmpty && !bp.isEmpty
  let s : Scn := { mgr := m, consts := consts, pts := pts, rs := old.mrs.override d, mrs := old.mrs, live := false,
                   ref := old.ref, ptsRef := if pts.isEmpty then old.ptsRef else old.ref, elRef := old.elRef,
                   cShared := shC, pShared := shP }
  { st with scns := updFn st.scns i (some s)
            hm := updFn st.hm old.ref []
            hp := if pts.isEmpty then st.hp else updFn st.hp old.ref (Store.update (st.hp old.ptsRef) pts) }

def step (c : Cfg) (b : Base) (st : State) : Op → State
  | .regMgr m bc bp =>
      match st.mgrs m with
      | some _ => st                                      -- "already exists. Will not change"
      | none => { st with mgrs := updFn st.mgrs m (some (bc, bp)) }
  | .add i m d =>
      match st.mgrs m with
      | none => st                                        -- "Scenario manager not found"
      | some (bc, bp) =>
        match reuseOf c st i with
        | some old => addReuse c st i m d bc bp old
        | none =>
          let consts := Store.fill d.consts bc
          let pts := Store.fill d.pts bp
          let r := st.next
          -- get_cloned_model: new Model (fresh equations/memo), points and _elements copied or shared
          let pr := if c.cloneOwnsPoints then r else 0
          let er := if c.cloneOwnsElements then r else 0
          -- SimulationScenario.__init__: model.points = {**model.points, **points}: always a new table
          let pr' := if pts.isEmpty then pr else r
          let tbl := if pts.isEmpty then st.hp 0 else Store.update (st.hp 0) pts
          -- the merge of the base values: own dictionary, or (defective) the manager's base dictionary itself
          let shC := !c.mergeOwnsDict && d.consts.isEmpty && !bc.isEmpty
          let shP := !c.mergeOwnsDict && d.pts.isEmpty && !bp.isEmpty
          let s : Scn := { mgr := m, consts := consts, pts := pts, rs := b.rs.override d, mrs := b.rs,
                           live := false, ref := r, ptsRef := pr', elRef := er, cShared := shC, pShared := shP }
          { st with scns := updFn st.scns i (some s)
                    he := updFn st.he r []
                    hm := updFn st.hm r []
                    hp := updFn st.hp r tbl
                    hel := updFn st.hel r (st.hel 0)
                    next := r + 1 }
  | .run i =>
      match st.scns i with
      | none => st
      | some s =>
          let (st1, s1) := applyScn st s
          let st2 := { st1 with scns := updFn st1.scns i (some s1) }
          simulate st2 s1 none
  | .configure i d =>
      match st.scns i with
      | none => st
      | some s => configureScn st i s d
  | .reset i =>
      match st.scns i with
      | none => st
      | some s => { st with scns := updFn st.scns i (some { s with live := false }), hm := updFn st.hm s.ref [] }
  | .step i d t =>
      match st.scns i with
      | none => st
      | some s =>
          let (st1, s1) := if s.live then (st, s) else applyScn st s
          let s2 := { s1 with live := true }
          let st2 := { st1 with he := updFn st1.he s2.ref (Store.update (st1.he s2.ref) d.consts)
                                hp := updFn st1.hp s2.ptsRef (Store.update (st1.hp s2.ptsRef) d.pts)
                                scns := updFn st1.scns i (some s2) }
          simulate st2 s2 (some t)
  | .evalBase => { st with hm := updFn st.hm 0 (st.hm 0 ++ [(baseEff b st, none)]) }
  | .setup i =>
      match st.scns i with
      | none => st
      | some s => setupScn st s

def exec (c : Cfg) (b : Base) (ops : List Op) : State := ops.foldl (step c b) (State.init b)

/-! ### Calls: composite API calls and the operations they are made of

`begin_session(scenarios, scenario_managers, settings)` is one call that configures and resets several scenarios.  A slot is a
(manager, scenario-name) pair: slot `i` has name `i % ns` when every manager has `ns` names.  `lower` is what the code does,
`intent` what the call says: settings addressed to a pair are applied to that pair. -/

inductive Call where
  | op (o : Op)
  | session (ns : Nat) (slots : List Nat) (sets : List (Nat × Dict))   -- slots in loop order; settings per addressed slot, managers in call order
deriving Repr

def pickPair (sets : List (Nat × Dict)) (i : Nat) : Option Dict := (sets.find? (fun p => p.1 == i)).map (·.2)

/-- `scenario_settings.update(settings.get(manager))` over the managers of the session: the last entry with the NAME wins -/
def pickName (ns : Nat) (sets : List (Nat × Dict)) (i : Nat) : Option Dict :=
  ((sets.filter (fun p => p.1 % ns == i % ns)).getLast?).map (·.2)

def sessionOps (byPair : Bool) (ns : Nat) (slots : List Nat) (sets : List (Nat × Dict)) : List Op :=
  slots.flatMap fun i =>
    (match (if byPair then pickPair sets i else pickName ns sets i) with
     | some d => [Op.configure i d]
     | none => []) ++ [Op.reset i]

def lower (c : Cfg) : Call → List Op
  | .op o => [o]
  | .session ns slots sets => sessionOps c.sessionAddressesPair ns slots sets

def intent : Call → List Op
  | .op o => [o]
  | .session ns slots sets => sessionOps true ns slots sets

/-! ### The heap-free reference: one scenario alone with a freshly built model -/

structure Solo where
  mgr : Nat
  consts : Store
  pts : Store
  rs : RunSpec
  mrs : RunSpec
  live : Bool
  meqs : Store
  mpts : Store
  memo : List MemoEntry
  elems : Nat
deriving DecidableEq, Repr

structure SoloSt where
  mgrs : Nat → Option (Store × Store)
  s : Option Solo

def Solo.eff (s : Solo) : Eff := { eqs := s.meqs, pts := s.mpts, rs := s.mrs, elems := s.elems }

def Solo.apply (s : Solo) : Solo :=
  { s with meqs := Store.update s.meqs s.consts, mpts := Store.update s.mpts s.pts, mrs := s.rs }

def Solo.setup (s : Solo) : Solo :=
  { s with meqs := Store.update s.meqs s.consts, mpts := Store.update s.mpts s.pts }

def Solo.simulate (s : Solo) (t : Option Nat) : Solo := { s with memo := s.memo ++ [(s.eff, t)] }

def Solo.configure (s : Solo) (d : Dict) : Solo :=
  { s with consts := Store.update s.consts d.consts, pts := Store.update s.pts d.pts, rs := s.rs.override d }

def Solo.reset (s : Solo) : Solo := { s with live := false, memo := [] }

def Solo.prepare (s : Solo) : Solo := if s.live then s else s.apply

def Solo.stepSet (s : Solo) (d : Dict) : Solo :=
  { s with live := true, meqs := Store.update s.meqs d.consts, mpts := Store.update s.mpts d.pts }

def Solo.step (s : Solo) (d : Dict) (t : Nat) : Solo := (s.prepare.stepSet d).simulate (some t)

def Solo.run (s : Solo) : Solo := s.apply.simulate none

def Solo.fresh (b : Base) (m : Nat) (bc bp : Store) (d : Dict) : Solo :=
  { mgr := m, consts := Store.fill d.consts bc, pts := Store.fill d.pts bp, rs := b.rs.override d,
    mrs := b.rs, live := false, meqs := [],
    mpts := if (Store.fill d.pts bp).isEmpty then b.pts else Store.update b.pts (Store.fill d.pts bp),
    memo := [], elems := b.elems }

/-- the scenario `i` alone: every operation addressed to it acts on a model built freshly from the
base model's own settings `b`; nothing else exists. -/
def soloStep (b : Base) (i : Nat) (ss : SoloSt) : Op → SoloSt
  | .regMgr m bc bp =>
      match ss.mgrs m with
      | some _ => ss
      | none => { ss with mgrs := updFn ss.mgrs m (some (bc, bp)) }
  | .add j m d =>
      if j = i then
        match ss.mgrs m with
        | none => ss
        | some (bc, bp) => { ss with s := some (Solo.fresh b m bc bp d) }
      else ss
  | .run j => if j = i then { ss with s := ss.s.map Solo.run } else ss
  | .configure j d => if j = i then { ss with s := ss.s.map (Solo.configure · d) } else ss
  | .reset j => if j = i then { ss with s := ss.s.map Solo.reset } else ss
  | .step j d t => if j = i then { ss with s := ss.s.map (Solo.step · d t) } else ss
  | .evalBase => ss
  | .setup j => if j = i then { ss with s := ss.s.map Solo.setup } else ss

def soloExec (b : Base) (i : Nat) (ops : List Op) : SoloSt :=
  ops.foldl (soloStep b i) { mgrs := fun _ => none, s := none }

/-- dereference scenario slot `i` of the shared machine -/
def deref (st : State) (s : Scn) : Solo :=
  { mgr := s.mgr, consts := scnConsts st s, pts := scnPts st s, rs := s.rs, mrs := s.mrs, live := s.live,
    meqs := st.he s.ref, mpts := st.hp s.ptsRef, memo := st.hm s.ref, elems := st.hel s.elRef }

def view (st : State) (i : Nat) : Option Solo := (st.scns i).map (deref st)

/-- what the base model looks like to a direct evaluation -/
structure BaseView where
  eff : Eff
  memo : List MemoEntry
deriving DecidableEq, Repr

def baseView (b : Base) (st : State) : BaseView := { eff := baseEff b st, memo := st.hm 0 }

def isEvalBase : Op → Bool
  | .evalBase => true
  | _ => false

/-- the base model alone: its own settings, and one memo generation per direct evaluation -/
def Base.eff (b : Base) : Eff := { eqs := [], pts := b.pts, rs := b.rs, elems := b.elems }

def baseAlone (b : Base) (ops : List Op) : BaseView :=
  { eff := b.eff, memo := (ops.filter isEvalBase).map (fun _ => (b.eff, none)) }

end Bptk.C06
