import Bptk.Core.PyFrag
/-!
C10 — arrayed equations of the SD DSL (`BPTK_Py/sddsl/element.py`, `operators.py`).

Executable model of the expansion `Element._handle_arrayed` performs when an operator over arrayed
operands is assigned to a (converter) element: constructor checks (`BinaryOperator.__init__`,
`DotOperator.__init__`), `resolve_dimensions`, `is_named` / `index_to_string`, `clone_with_index` +
`term` per index, `DotOperator.term` in all its forms, and the aggregate operators
(`_array_resolve`, `_matrix_element_to_string`, `ArrayRankOperator`, `ArraySizeOperator`).

The output is, per result element, the Python expression as a `Bptk.Py.Py` tree WITH the parentheses
the code emits (so `pr` of it is, token for token, the function string of that element), or `none`
where the code raises.  Operands are numbers, scalar elements and arrayed elements (vector / matrix,
indexed or named).  Modelled is the behaviour of the tree with the two C10 repairs applied
(`fixes/C10-number-times-array.patch`: NumericalMultiplicationOperator indexes whichever operand is the
array and knows `el1_arrayed` from its constructor; `fixes/C10-dot-nested-operand-index.patch` concerns
operator operands of `dot`, which are outside this flat model and covered by the reference check).

Keys.  Sub-elements are stored under `str(key)`.  `Key.i n` is the integer index `n` (stored as its
decimal string), `Key.s a` a name.  `Key.same` is equality of the `str` images: two integer keys are
compared as numbers (decimal notation is injective), everything else as strings.
-/
namespace Bptk.C10
open Bptk.Py

inductive Key
  | i (n : Nat)
  | s (a : String)
deriving DecidableEq, Repr, Inhabited

def Key.str : Key → String
  | .i n => toString n
  | .s a => a

def Key.same : Key → Key → Bool
  | .i a, .i b => a == b
  | a, b => a.str == b.str

/-- An element as the arrayed code sees it: `keys` = `_elements.equations` (creation order; `[]` = not
arrayed), `inner` = the keys of every row (`[]` = vector; rows are uniform — `matrix_size` raises
otherwise and named matrices with differing row keys are outside the model), `named` = `named_arrayed`. -/
structure Elem where
  name : String
  keys : List Key
  inner : List Key
  named : Bool
deriving Repr, Inhabited

def rangeKeys (n : Nat) : List Key := (List.range n).map Key.i

def Elem.scalar (nm : String) : Elem := { name := nm, keys := [], inner := [], named := false }
def Elem.vec (nm : String) (m : Nat) : Elem := { name := nm, keys := rangeKeys m, inner := [], named := false }
def Elem.mat (nm : String) (m n : Nat) : Elem :=
  { name := nm, keys := rangeKeys m, inner := rangeKeys n, named := false }

inductive Operand
  | num (neg : Bool) (lit : String)      -- a Python number: `str(x)` is `lit` or `-lit`
  | el (e : Elem)
deriving Repr, Inhabited

/-- `-1`, a list `[m]`, a list `[m, n]` (a vector element reports `[m, 0]`) -/
inductive Dims
  | val
  | d1 (m : Nat)
  | d2 (m n : Nat)
deriving DecidableEq, Repr, Inhabited

def Elem.arrayed (e : Elem) : Bool := !e.keys.isEmpty

/-- `_get_element_dimensions` -/
def elemDims (e : Elem) : Dims := if e.arrayed then .d2 e.keys.length e.inner.length else .val

def Operand.dims : Operand → Dims
  | .num _ _ => .val
  | .el e => elemDims e

def Operand.arrayed : Operand → Bool
  | .num _ _ => false
  | .el e => e.arrayed

/-- `len(dim) == 1 or dim[1] == 0` -/
def Dims.isVec : Dims → Bool
  | .d1 _ => true
  | .d2 _ 0 => true
  | _ => false

/-! ### Element references -/

def pathStr : List Key → String
  | [] => ""
  | k :: ks => "[" ++ k.str ++ "]" ++ pathStr ks

/-- `Element.term("t")` of the sub-element `name[k1][k2]…` -/
def ref (nm : String) (path : List Key) : Py :=
  .call (.attr (.name "model") "memoize") [.str (nm ++ pathStr path), .name "t"]

def findKey (ks : List Key) (k : Key) : Option Key := ks.find? (fun x => Key.same k x)

/-- `cur = element; for i in index: cur = cur[i]` — the stored keys along the path, or `none` when
`__getitem__` raises ("Element is not arrayed" / "Arrayed equation … does not exist"). -/
def Elem.path (e : Elem) : List Key → Option (List Key)
  | [] => some []
  | [k] => if e.arrayed then (findKey e.keys k).map fun k' => [k'] else none
  | [k, l] =>
    if e.arrayed then
      match findKey e.keys k with
      | some k' =>
        if e.inner.isEmpty then none
        else (findKey e.inner l).map fun l' => [k', l']
      | none => none
    else none
  | _ => none

def Elem.sub (e : Elem) (idx : List Key) : Option Py := (e.path idx).map (ref e.name)

def numPy (neg : Bool) (lit : String) : Py := if neg then .neg (.num lit) else .num lit

/-- `operand.term("t")` without indexing (a number, or the element's own reference) -/
def Operand.term : Operand → Py
  | .num n l => numPy n l
  | .el e => ref e.name []

/-- the operand at result index `idx`: arrayed elements are indexed, everything else is broadcast -/
def Operand.at (o : Operand) (idx : List Key) : Option Py :=
  match o with
  | .el e => if e.arrayed then e.sub idx else some (ref e.name [])
  | .num n l => some (numPy n l)

/-! ### Operator forms -/

inductive EwOp | add | sub | mul | div
deriving DecidableEq, Repr, Inhabited

/-- `nmul a b` is `NumericalMultiplicationOperator(element_1 = a, element_2 = b)`: Python `x * A` with a
number `x` builds `nmul x A`, `-A` builds `nmul A (-1)`. -/
inductive Form
  | ew (o : EwOp)
  | nmul
  | dot
deriving DecidableEq, Repr, Inhabited

def EwOp.bin : EwOp → BinOp
  | .add => .add | .sub => .sub | .mul => .mul | .div => .div

/-- the text each element-wise operator class emits for operand texts `x`, `y`
(`"({} + {})"`, `"({} - {})"`, `"({}) * ({})"`, `"({}) / ({})"`) -/
def ewTmpl (o : EwOp) (x y : Py) : Py :=
  match o with
  | .add => .paren (.bin .add x y)
  | .sub => .paren (.bin .sub x y)
  | .mul => .bin .mul (.paren x) (.paren y)
  | .div => .bin .div (.paren x) (.paren y)

/-- `BinaryOperator.__init__` check for two arrayed elements (not for `dot`) -/
def sameIndex (a b : Elem) : Bool :=
  a.keys.length == b.keys.length && a.named == b.named &&
  a.keys.all fun k => b.keys.any fun k' => k.str == k'.str

def ctorOK (f : Form) (a b : Operand) : Bool :=
  match f, a, b with
  | .dot, _, _ =>
    (match a with | .el e => !(e.arrayed && e.named) | _ => true) &&
    (match b with | .el e => !(e.arrayed && e.named) | _ => true)
  | _, .el x, .el y => if x.arrayed && y.arrayed then sameIndex x y else true
  | _, _, _ => true

/-- `resolve_dimensions` of `+ - * /` and of NumericalMultiplication -/
def resolveEw (a b : Operand) : Option Dims :=
  let d1 := a.dims
  let d2 := b.dims
  if d1 ≠ .val ∧ d2 ≠ .val then (if d1 = d2 then some d1 else none)
  else if d1 ≠ .val then some d1 else some d2

/-- `DotOperator.resolve_dimensions` -/
def resolveDot (a b : Operand) : Option Dims :=
  match a.dims, b.dims with
  | .val, .val => none
  | .val, d => some d
  | d, .val => some d
  | .d2 m n, .d2 m' n' =>
    if n = 0 then
      if n' = 0 then (if m = m' then some .val else none)          -- vector · vector
      else (if m = m' then some (.d1 n') else none)                -- vector · matrix
    else if n' = 0 then (if n = m' then some (.d1 m) else none)    -- matrix · vector
    else (if n = m' then some (.d2 m n') else none)                -- matrix · matrix
  | _, _ => none        -- elements never report `[m]`

def resolve (f : Form) (a b : Operand) : Option Dims :=
  match f with
  | .dot => resolveDot a b
  | _ => resolveEw a b

/-- `is_named()`; `none` = AttributeError (`named_arrayed` asked of a wrapped number) -/
def isNamed (f : Form) (a b : Operand) : Option Bool :=
  match f with
  | .dot => some false
  | .ew _ => (match a with | .el e => some e.named | _ => none)
  | .nmul =>
    if a.arrayed then (match a with | .el e => some e.named | _ => none)
    else (match b with | .el e => some e.named | _ => none)

/-- `index_to_string(i)` in the cases in which `_handle_arrayed` calls it (`is_named()` true) -/
def indexKey (f : Form) (a b : Operand) (i : Nat) : Option Key :=
  let keysOf : Operand → List Key := fun o => match o with | .el e => e.keys | _ => []
  match f with
  | .nmul => if a.arrayed then (keysOf a)[i]? else (keysOf b)[i]?
  | _ => (keysOf a)[i]?

/-! ### `term` with an index -/

/-- left-nested chain `x1 op x2 op … op xn` as Python parses the joined text -/
def chain (k : BinOp) : List Py → Option Py
  | [] => none
  | x :: xs => some (xs.foldl (fun acc y => .bin k acc y) x)

def prodTerm (x y : Py) : Py := .bin .mul (.paren x) (.paren y)

def optAll {α} : List (Option α) → Option (List α)
  | [] => some []
  | none :: _ => none
  | some x :: xs => (optAll xs).map (x :: ·)

def pairProd : Option Py × Option Py → Option Py
  | (some x, some y) => some (prodTerm x y)
  | _ => none

/-- `"(" + "(a1) * (b1) + (a2) * (b2) + …" + ")"` -/
def dotChain (xs : List (Option Py × Option Py)) : Option Py :=
  match optAll (xs.map pairProd) with
  | some ps => (chain .add ps).map .paren
  | none => none

def elemOf : Operand → Option Elem
  | .el e => some e
  | _ => none

def subOf (o : Operand) (idx : List Key) : Option Py :=
  match o with
  | .el e => e.sub idx
  | .num _ _ => none

def keyNat : Key → Option Nat
  | .i n => some n
  | .s _ => none

/-- `DotOperator.term` with `self.index = idx` -/
def dotTerm (a b : Operand) (idx : List Key) : Option Py :=
  match a.dims, b.dims with
  | .val, .val => none
  | .val, _ => (subOf b idx).map fun y => prodTerm a.term y
  | _, .val => (subOf a idx).map fun x => prodTerm x b.term
  | .d2 m n, .d2 m' n' =>
    if n = 0 then
      if n' = 0 then
        if m = m' then dotChain ((List.range m).map fun k => (subOf a [.i k], subOf b [.i k])) else none
      else
        if m = m' then
          match idx with
          | j :: _ =>
            (match keyNat j with
             | some jn => if jn ≥ n' then none
                          else dotChain ((List.range m').map fun k => (subOf a [.i k], subOf b [.i k, j]))
             | none => none)
          | [] => none
        else none
    else if n' = 0 then
      if n = m' then
        match idx with
        | i :: _ =>
          (match keyNat i with
           | some iN => if iN ≥ m then none
                        else dotChain ((List.range n).map fun k => (subOf a [i, .i k], subOf b [.i k]))
           | none => none)
        | [] => none
      else none
    else
      match idx with
      | [i, j] =>
        (match keyNat i, keyNat j with
         | some iN, some jN =>
           if iN ≥ m ∨ jN ≥ n' then none
           else dotChain ((List.range n).map fun k => (subOf a [i, .i k], subOf b [.i k, j]))
         | _, _ => none)
      | _ => none
  | _, _ => none

/-- `DotOperator.term` with `self.index == None` (the equation of a non-arrayed element) -/
def dotTermNoIndex (a b : Operand) : Option Py :=
  match a.dims, b.dims with
  | .d2 m 0, .d2 m' 0 =>
    if m = m' then dotChain ((List.range m).map fun k => (subOf a [.i k], subOf b [.i k])) else none
  | .d2 _ 0, .d2 _ _ => some (.num "0.0")
  | .d2 _ 0, _ => none                    -- `len(-1)` raises TypeError
  | .d2 _ _, _ => some (.num "0.0")
  | _, _ => none                          -- `len(-1)` raises TypeError

/-- `term()` of the clone carrying index `idx` -/
def termAt (f : Form) (a b : Operand) (idx : List Key) : Option Py :=
  match f with
  | .ew o =>
    (match a.at idx, b.at idx with
     | some x, some y => some (ewTmpl o x y)
     | _, _ => none)
  | .nmul =>
    -- `"({}) * ({})".format(element_2…, element_1…)`, the arrayed one indexed
    (match b.at idx, a.at idx with
     | some y, some x => some (prodTerm y x)
     | _, _ => none)
  | .dot => dotTerm a b idx

/-- `term()` with no index (equation of a non-arrayed element; only reached when no operand is an
arrayed element, or for `dot`) -/
def termNoIndex (f : Form) (a b : Operand) : Option Py :=
  match f with
  | .ew o => some (ewTmpl o a.term b.term)
  | .nmul => some (prodTerm b.term a.term)
  | .dot => dotTermNoIndex a b

/-! ### `_handle_arrayed` -/

inductive Result
  | scalar (p : Py)
  | vector (named : Bool) (es : List (Key × Py))
  | matrix (rows : List (List Py))
deriving Repr, Inhabited

def vecEntries (f : Form) (a b : Operand) (named : Bool) (m : Nat) : Option (List (Key × Py)) :=
  optAll ((List.range m).map fun i =>
    if named then
      match indexKey f a b i with
      | some k => (termAt f a b [k]).map fun p => (k, p)
      | none => none
    else (termAt f a b [.i i]).map fun p => (Key.i i, p))

def matEntries (f : Form) (a b : Operand) (m n : Nat) : Option (List (List Py)) :=
  optAll ((List.range m).map fun i => optAll ((List.range n).map fun j => termAt f a b [.i i, .i j]))

def Dims.rows : Dims → Nat
  | .val => 0
  | .d1 m => m
  | .d2 m _ => m

/-- the arrayed branch of `_handle_arrayed` for resolved dimensions `d ≠ -1` -/
def expandArr (f : Form) (a b : Operand) (d : Dims) : Option Result :=
  if d.isVec then
    match isNamed f a b with
    | none => none
    | some nm => (vecEntries f a b nm d.rows).map (.vector nm)
  else
    match d with
    | .d2 m n => (matEntries f a b m n).map .matrix
    | _ => none

/-- What assigning `f a b` to a fresh converter produces: its per-element equations, or `none` where
the code raises. -/
def expand (f : Form) (a b : Operand) : Option Result :=
  if !ctorOK f a b then none
  else if !(a.arrayed || b.arrayed) then (termNoIndex f a b).map .scalar
  else
    match resolve f a b with
    | none => none
    | some .val => (termNoIndex f a b).map .scalar
    | some d => expandArr f a b d

/-! ### Aggregates -/

inductive Agg
  | sum | prod | mean | median | std | size
  | rank (neg : Bool) (k : Nat)          -- `arr_rank(k)` / `arr_rank(-k)`
deriving DecidableEq, Repr, Inhabited

/-- the sub-element references in the order `_array_resolve` / `_matrix_element_to_string` visit them:
row by row -/
def Elem.rows (e : Elem) : List (List Py) :=
  if e.inner.isEmpty then e.keys.map fun k => [ref e.name [k]]
  else e.keys.map fun k => e.inner.map fun l => ref e.name [k, l]

def Elem.rowMajor (e : Elem) : List Py := e.rows.flatten

/-- `_matrix_element_to_string(element, time)` (nested list display) -/
def Elem.display (e : Elem) : Py :=
  if e.inner.isEmpty then .list e.rowMajor else .list (e.rows.map .list)

def npCall (fn : String) (arg : Py) : Py := .call (.attr (.name "np") fn) [arg]

def natPy (n : Nat) : Py := .num (toString n)

/-- `({count}-1 if ({rank} < 0 or {rank} > {count}) else {rank}-1)` -/
def rankIndexPy (neg : Bool) (k count : Nat) : Py :=
  let r := numPy neg (toString k)
  .paren (.ite (.bin .sub (natPy count) (.num "1"))
               (.paren (.bin .or (.bin .lt r (.num "0")) (.bin .gt r (natPy count))))
               (.bin .sub r (.num "1")))

/-- the index the rank expression selects from the descending sort, with Python's index semantics
still to be applied (`-1` = last) -/
def rankIndex (k : Int) (count : Nat) : Int :=
  if k < 0 ∨ k > count then (count : Int) - 1 else k - 1

/-- aggregate of a non-arrayed element -/
def aggScalar (g : Agg) (e : Elem) : Py :=
  match g with
  | .sum => .paren (ref e.name [])
  | .prod => .paren (ref e.name [])
  | .mean => .num "0.0"
  | .median => .num "0.0"
  | .std => .num "0.0"
  | .size => .num "0.0"
  | .rank _ _ => .num "0.0"

def Elem.count (e : Elem) : Nat := e.keys.length * (if e.inner.isEmpty then 1 else e.inner.length)

def sortedCall (e : Elem) : Py := .call (.name "sorted") [.list e.rowMajor, .kw "reverse" (.name "True")]

/-- aggregate of an arrayed element -/
def aggArr (g : Agg) (e : Elem) : Option Py :=
  match g with
  | .sum => (chain .add e.rowMajor).map .paren
  | .prod => (chain .mul e.rowMajor).map .paren
  | .mean => some (npCall "mean" e.display)
  | .median => some (npCall "median" e.display)
  | .std => some (npCall "std" e.display)
  | .size => some (natPy e.keys.length)
  | .rank neg k => some (.index (sortedCall e) (rankIndexPy neg k e.count))

def aggTerm (g : Agg) (e : Elem) : Option Py :=
  if e.arrayed then aggArr g e else some (aggScalar g e)

/-! ## Wave 2: operator operands (nesting), any time argument, Stock targets

`Ex` is the operand tree the DSL builds: a wrapped number (`UnaryOperator`), an element, or a binary
operator over two such operands.  `Ex.term tm x I` is `x.term(time)` of the clone of `x` that
`clone_with_index(I)` produces (`I = none`: the operator as built, index `None`), with `time` printed as
`tm` (`t` for converters, `t-model.dt` inside a stock).  After `fixes/C10-dot-nested-operand-index`
`Operator.arrayed_term(index)` is `clone_with_index(index).term(time)`, i.e. `Ex.term tm x (some index)`:
every level of a compound operand carries the index the dot product asks for. -/

def tNow : Py := .name "t"
/-- `t-model.dt` -/
def tPrev : Py := .bin .sub (.name "t") (.attr (.name "model") "dt")

def refT (tm : Py) (nm : String) (path : List Key) : Py :=
  .call (.attr (.name "model") "memoize") [.str (nm ++ pathStr path), tm]

def Elem.subT (tm : Py) (e : Elem) (idx : List Key) : Option Py := (e.path idx).map (refT tm e.name)

/-! aggregates with any sub-element reference `mk path` (`ref e.name` at time `t`, `refT tm e.name` in general):
`_array_resolve` / `_matrix_element_to_string` call `element.term(time)` of every leaf -/
def Elem.rowsM (mk : List Key → Py) (e : Elem) : List (List Py) :=
  if e.inner.isEmpty then e.keys.map fun k => [mk [k]]
  else e.keys.map fun k => e.inner.map fun l => mk [k, l]

def Elem.displayM (mk : List Key → Py) (e : Elem) : Py :=
  if e.inner.isEmpty then .list (e.rowsM mk).flatten else .list ((e.rowsM mk).map .list)

def aggArrM (mk : List Key → Py) (g : Agg) (e : Elem) : Option Py :=
  match g with
  | .sum => (chain .add (e.rowsM mk).flatten).map .paren
  | .prod => (chain .mul (e.rowsM mk).flatten).map .paren
  | .mean => some (npCall "mean" (e.displayM mk))
  | .median => some (npCall "median" (e.displayM mk))
  | .std => some (npCall "std" (e.displayM mk))
  | .size => some (natPy e.keys.length)
  | .rank neg k =>
    some (.index (.call (.name "sorted") [.list (e.rowsM mk).flatten, .kw "reverse" (.name "True")])
                 (rankIndexPy neg k e.count))

def aggScalarM (r : Py) (g : Agg) : Py :=
  match g with
  | .sum => .paren r
  | .prod => .paren r
  | _ => .num "0.0"

/-- the aggregate's text with the time argument `tm` -/
def aggTermT (tm : Py) (g : Agg) (e : Elem) : Option Py :=
  if e.arrayed then aggArrM (refT tm e.name) g e else some (aggScalarM (refT tm e.name []) g)

/-- `agg g e`: an aggregate operator (`e.arr_sum()`, …) as operand — an `Operator` that is not arrayed, resolves to
`-1`, whose clone ignores the index and whose text is the aggregate's expansion (wave 6) -/
inductive Ex
  | num (neg : Bool) (lit : String)
  | el (e : Elem)
  | op (f : Form) (a b : Ex)
  | agg (g : Agg) (e : Elem)
deriving Repr, Inhabited

def Ex.ofOperand : Operand → Ex
  | .num n l => .num n l
  | .el e => .el e

/-- `isinstance(x, Element) and x._elements.vector_size() > 0` -/
def Ex.arrEl : Ex → Bool
  | .el e => e.arrayed
  | _ => false

/-- `_is_arrayed(x)` / `is_any_subelement_arrayed()`: an arrayed element anywhere below -/
def Ex.anyArr : Ex → Bool
  | .num _ _ => false
  | .el e => e.arrayed
  | .op _ a b => a.anyArr || b.anyArr
  | .agg _ _ => false

def Ex.namedArr : Ex → Bool
  | .el e => e.arrayed && e.named
  | _ => false

/-- the constructor checks: only two arrayed ELEMENTS are compared; `dot` refuses named arrayed elements -/
def ctorE (f : Form) (a b : Ex) : Bool :=
  match f, a, b with
  | .dot, _, _ => !a.namedArr && !b.namedArr
  | _, .el x, .el y => if x.arrayed && y.arrayed then sameIndex x y else true
  | _, _, _ => true

/-- every operator of the tree could be constructed -/
def Ex.wf : Ex → Bool
  | .op f a b => a.wf && b.wf && ctorE f a b
  | _ => true

/-- `dim[1]` -/
def Dims.snd : Dims → Nat
  | .d2 _ n => n
  | _ => 0

/-- `resolve_dimensions` of `+ - * /` and NumericalMultiplication on the operands' dimensions
(Python list equality: `[m] != [m, 0]`) -/
def resolveEwD (d1 d2 : Dims) : Option Dims :=
  if d1 ≠ .val ∧ d2 ≠ .val then (if d1 = d2 then some d1 else none)
  else if d1 ≠ .val then some d1 else some d2

/-- `DotOperator.resolve_dimensions` on the operands' dimensions, including the one-element lists `[m]`
that only operator operands report -/
def resolveDotD (d1 d2 : Dims) : Option Dims :=
  if d1 = .val then (if d2 = .val then none else some d2)
  else if d2 = .val then some d1
  else if d1.isVec then
    if d2.isVec then (if d1.rows = d2.rows then some .val else none)
    else (if d1.rows = d2.rows then some (.d1 d2.snd) else none)
  else if d2.isVec then (if d1.snd = d2.rows then some (.d1 d1.rows) else none)
  else (if d1.snd = d2.rows then some (.d2 d1.rows d2.snd) else none)

/-- `_get_element_dimensions(x)`; `none` = the nested `resolve_dimensions` raises -/
def Ex.dims : Ex → Option Dims
  | .num _ _ => some .val
  | .el e => some (elemDims e)
  | .op f a b =>
    match a.dims, b.dims with
    | some d1, some d2 => (match f with | .dot => resolveDotD d1 d2 | _ => resolveEwD d1 d2)
    | _, _ => none
  | .agg _ _ => some .val

/-- `cur = x; for i in idx: cur = cur[i]; cur.term(time)` — only elements can be subscripted -/
def Ex.subEl (tm : Py) (x : Ex) (idx : List Key) : Option Py :=
  match x with
  | .el e => e.subT tm idx
  | _ => none

def opt2 (f : Py → Py → Py) : Option Py → Option Py → Option Py
  | some x, some y => some (f x y)
  | _, _ => none

/-- `x.term(time)` of the clone with index `I` -/
def Ex.term (tm : Py) : Ex → Option (List Key) → Option Py
  | .num n l, _ => some (numPy n l)
  | .el e, _ => some (refT tm e.name [])
  | .agg g e, _ => aggTermT tm g e
  | .op (.ew o) a b, I =>
    if a.arrEl || b.arrEl then                       -- `self.arrayed`
      match I with
      | none => some (.num "0.0")
      | some idx =>
        opt2 (ewTmpl o) (if a.arrEl then a.subEl tm idx else a.term tm I)
                        (if b.arrEl then b.subEl tm idx else b.term tm I)
    else opt2 (ewTmpl o) (a.term tm I) (b.term tm I)
  | .op .nmul a b, I =>
    if a.arrEl || b.arrEl then
      match I with
      | none => some (.num "0.0")
      | some idx =>
        opt2 prodTerm (if b.arrEl then b.subEl tm idx else b.term tm I)
                      (if a.arrEl then a.subEl tm idx else a.term tm I)
    else opt2 prodTerm (b.term tm I) (a.term tm I)
  | .op .dot a b, I =>
    -- `_get_sub_element_term`: elements are subscripted, operators re-cloned with the asked index
    let subA : List Key → Option Py := fun ix => match a with | .el e => e.subT tm ix | _ => a.term tm (some ix)
    let subB : List Key → Option Py := fun ix => match b with | .el e => e.subT tm ix | _ => b.term tm (some ix)
    match a.dims, b.dims with
    | some d1, some d2 =>
      (match I with
       | none =>
         if d1 = .val then none                                   -- `len(-1)`
         else if d1.isVec then
           if d2 = .val then none
           else if d2.isVec then
             if d1.rows = d2.rows then
               dotChain ((List.range d1.rows).map fun k => (a.subEl tm [.i k], b.subEl tm [.i k]))
             else none
           else some (.num "0.0")
         else some (.num "0.0")
       | some idx =>
         if d1 = .val then
           if d2 = .val then none else opt2 prodTerm (a.term tm I) (b.subEl tm idx)
         else if d2 = .val then opt2 prodTerm (a.subEl tm idx) (b.term tm I)
         else if d1.isVec then
           if d2.isVec then
             if d1.rows = d2.rows then
               dotChain ((List.range d1.rows).map fun k => (a.subEl tm [.i k], b.subEl tm [.i k]))
             else none
           else if d1.rows = d2.rows then
             (match idx with
              | j :: _ =>
                (match keyNat j with
                 | some jn => if jn ≥ d2.snd then none
                              else dotChain ((List.range d2.rows).map fun k => (subA [.i k], subB [.i k, j]))
                 | none => none)
              | [] => none)
           else none
         else if d2.isVec then
           if d1.snd = d2.rows then
             (match idx with
              | i :: _ =>
                (match keyNat i with
                 | some iN => if iN ≥ d1.rows then none
                              else dotChain ((List.range d1.snd).map fun k => (subA [i, .i k], subB [.i k]))
                 | none => none)
              | [] => none)
           else none
         else
           (match idx with
            | [i, j] =>
              (match keyNat i, keyNat j with
               | some iN, some jN =>
                 if iN ≥ d1.rows ∨ jN ≥ d2.snd then none
                 else dotChain ((List.range d1.snd).map fun k => (subA [i, .i k], subB [.i k, j]))
               | _, _ => none)
            | _ => none))
    | _, _ => none

/-- `.named_arrayed` of an operand; `none` = AttributeError (wrapped numbers and operators have none) -/
def Ex.namedOf : Ex → Option Bool
  | .el e => some e.named
  | _ => none

def isNamedE (f : Form) (a b : Ex) : Option Bool :=
  match f with
  | .dot => some false
  | .ew _ => a.namedOf
  | .nmul => if a.arrEl then a.namedOf else b.namedOf

def Ex.keysOf : Ex → List Key
  | .el e => e.keys
  | _ => []

def indexKeyE (f : Form) (a b : Ex) (i : Nat) : Option Key :=
  match f with
  | .nmul => if a.arrEl then a.keysOf[i]? else b.keysOf[i]?
  | _ => a.keysOf[i]?

/-- the index list `_handle_arrayed` walks for resolved vector dimensions: names or `0..m-1` -/
def vecIndexE (f : Form) (a b : Ex) (named : Bool) (i : Nat) : Option Key :=
  if named then indexKeyE f a b i else some (.i i)

def vecEntriesE (tm : Py) (f : Form) (a b : Ex) (named : Bool) (m : Nat) : Option (List (Key × Py)) :=
  optAll ((List.range m).map fun i =>
    match vecIndexE f a b named i with
    | some k => ((Ex.op f a b).term tm (some [k])).map fun p => (k, p)
    | none => none)

def matEntriesE (tm : Py) (x : Ex) (m n : Nat) : Option (List (List Py)) :=
  optAll ((List.range m).map fun i => optAll ((List.range n).map fun j => x.term tm (some [.i i, .i j])))

/-- What assigning the operator tree `x` to a fresh converter (`tm = t`) produces: `_handle_arrayed`
(generic branch), or the plain scalar equation when the resolved dimensions are `-1`. -/
def expandE (tm : Py) (x : Ex) : Option Result :=
  match x with
  | .op f a b =>
    if !x.wf then none
    else if !x.anyArr then (x.term tm none).map .scalar
    else
      match x.dims with
      | none => none
      | some .val => (x.term tm none).map .scalar
      | some d =>
        if d.isVec then
          match isNamedE f a b with
          | none => none
          | some nm => (vecEntriesE tm f a b nm d.rows).map (.vector nm)
        else
          match d with
          | .d2 m n => (matEntriesE tm x m n).map .matrix
          | _ => none
  | _ => none

/-! ### Stock targets -/

/-- the function string `Stock.build_function_string` emits for the (sub-)stock `nm`:
`( (init) if (t <= model.starttime) else (model.memoize('nm',t-model.dt))+ model.dt*(flow) )` -/
def stockFs (nm : String) (init : Py) (flow : Option Py) : Py :=
  let prev := Py.paren (refT tPrev nm [])
  .paren (.ite (.paren init) (.paren (.bin .le (.name "t") (.attr (.name "model") "starttime")))
    (match flow with
     | none => prev
     | some p => .bin .add prev (.bin .mul (.attr (.name "model") "dt") (.paren p))))

/-- The Stock branch of `_handle_arrayed`: the ARRAYED stock `s` is assigned the operator tree `x`.
Result: the sub-stocks (stored key path; `[]` = the stock itself) that receive an equation, each with its
flow term (printed at `t-model.dt`); sub-stocks not listed keep what they had. `none` = raises. -/
def stockAssign (s : Elem) (x : Ex) : Option (List (List Key × Py)) :=
  match x with
  | .op f a b =>
    if !x.wf || !s.arrayed then none
    else if !x.anyArr then (x.term tPrev none).map fun p => [([], p)]
    else
      match x.dims with
      | none => none
      | some .val => (x.term tPrev none).map fun p => [([], p)]
      | some d =>
        if d.isVec then
          match isNamedE f a b with
          | none => none
          | some nm =>
            optAll ((List.range d.rows).map fun i =>
              match vecIndexE f a b nm i with
              | some k =>
                (match findKey s.keys k, x.term tPrev (some [k]) with
                 | some k', some p => some ([k'], p)
                 | _, _ => none)
              | none => none)
        else
          match d with
          | .d2 m n =>
            (optAll ((List.range m).map fun i => optAll ((List.range n).map fun j =>
              match s.path [.i i, .i j], x.term tPrev (some [.i i, .i j]) with
              | some pth, some p => some (pth, p)
              | _, _ => none))).map List.flatten
          | _ => none
  | _ => none

/-- `S.equation = E` for an arrayed stock `S` and an arrayed ELEMENT `E` (first branch): sub-stock by
sub-stock, recursively through the rows; the flow of sub-stock `k` is the reference to `E[k]`.  The branch
reports "not an arrayed equation", so the setter also stores `E` as the equation of `S` itself (and of every
row stock that is assigned a row): those get the reference to the arrayed parent as their flow. -/
def stockAssignEl (s e : Elem) : Option (List (List Key × Py)) :=
  if !s.arrayed || !e.arrayed then none
  else if s.keys.length ≠ e.keys.length then none
  else
    let outer : List Key := if e.named then s.keys else rangeKeys s.keys.length
    (optAll (outer.map fun k =>
      match findKey s.keys k, findKey e.keys k with
      | some sk, some ek =>
        if !s.inner.isEmpty && !e.inner.isEmpty then
          -- the row stock is arrayed and is assigned an arrayed row: same rule one level down
          if s.inner.length ≠ e.inner.length then none
          else
            let inn : List Key := if e.named then s.inner else rangeKeys s.inner.length
            (optAll (inn.map fun l =>
              match findKey s.inner l, findKey e.inner l with
              | some sl, some el' => some ([sk, sl], refT tPrev e.name [ek, el'])
              | _, _ => none)).map fun leaves => leaves ++ [([sk], refT tPrev e.name [ek])]
        else some [([sk], refT tPrev e.name [ek])]
      | _, _ => none)).map fun rows => rows.flatten ++ [([], refT tPrev e.name [])]

/-! ### `arr_sum(dimension)` / `arr_prod(dimension)` with an explicit dimension

`_array_resolve` descends until `dimensions == depth` and then contributes nothing: with a depth smaller
than the depth of the leaves the text is empty (the equation cannot be compiled — rejected); from the depth
of the leaves on (and for the default `"*"`) it is the chain over all entries. -/
def Elem.depth (e : Elem) : Nat := if e.inner.isEmpty then 1 else 2

def aggDim (g : Agg) (dim : Nat) (e : Elem) : Option Py :=
  match g with
  | .sum | .prod =>
    if !e.arrayed then aggTerm g e            -- a leaf is returned before the depth is looked at
    else if dim < e.depth then none else aggTerm g e
  | _ => none

/-! ## Wave 3: re-shape histories on ONE model

Elements are set up, used as operands, set up again with another shape and used again.  The set-up methods
only ever ADD member keys (`ArrayedEquation.__setitem__` appends a key that is not there yet; nothing removes
one) and set `arrayed` / `named_arrayed`; what an equation sees is `_elements.equations` of the element and of
its rows AT THE TIME OF USE — nothing is remembered from earlier uses.  `Store` = the current description of
every element; `use` = `expandE` / `aggTerm` of the current descriptions and leaves the store alone. -/

/-- append the keys that are not present yet (by `str`), in order -/
def addKeys (ks new : List Key) : List Key :=
  new.foldl (fun acc k => if acc.any (fun x => Key.same k x) then acc else acc ++ [k]) ks

/-- `setup_vector(n, …)` -/
def Elem.setupVector (e : Elem) (n : Nat) : Elem := { e with keys := addKeys e.keys (rangeKeys n) }
/-- `setup_matrix([m, n], …)`: rows `0..m-1` get the columns `0..n-1` (the harness only sends histories in which
all rows keep the same columns — `matrix_size` refuses the others) -/
def Elem.setupMatrix (e : Elem) (m n : Nat) : Elem :=
  { e with keys := addKeys e.keys (rangeKeys m), inner := addKeys e.inner (rangeKeys n) }
/-- `setup_named_vector({name: …})` -/
def Elem.setupNamed (e : Elem) (names : List String) : Elem :=
  { e with keys := addKeys e.keys (names.map Key.s), named := true }

abbrev Store := List (String × Elem)

def Store.get (st : Store) (nm : String) : Elem :=
  match st.find? (fun p => p.1 == nm) with
  | some p => p.2
  | none => Elem.scalar nm

def Store.set (st : Store) (nm : String) (e : Elem) : Store :=
  (nm, e) :: st.filter (fun p => !(p.1 == nm))

/-- operand tree over element NAMES, resolved against the store when used -/
inductive RefEx
  | num (neg : Bool) (lit : String)
  | ref (nm : String)
  | op (f : Form) (a b : RefEx)
deriving Repr, Inhabited

def RefEx.resolve (st : Store) : RefEx → Ex
  | .num n l => .num n l
  | .ref nm => .el (st.get nm)
  | .op f a b => .op f (a.resolve st) (b.resolve st)

inductive HOp
  | setupVec (nm : String) (n : Nat)
  | setupMat (nm : String) (m n : Nat)
  | setupNamed (nm : String) (names : List String)
  | use (x : RefEx)                     -- `R.equation = x` on a fresh converter R
  | agg (g : Agg) (nm : String)         -- `R.equation = nm.arr_…()`
deriving Repr, Inhabited

inductive Reply
  | res (r : Option Result)
  | term (p : Option Py)
deriving Repr, Inhabited

def HOp.isSetup : HOp → Bool
  | .use _ => false
  | .agg _ _ => false
  | _ => true

def stepStore (st : Store) : HOp → Store
  | .setupVec nm n => st.set nm ((st.get nm).setupVector n)
  | .setupMat nm m n => st.set nm ((st.get nm).setupMatrix m n)
  | .setupNamed nm names => st.set nm ((st.get nm).setupNamed names)
  | .use _ => st
  | .agg _ _ => st

def stepReply (st : Store) : HOp → Option Reply
  | .use x => some (.res (expandE tNow (x.resolve st)))
  | .agg g nm => some (.term (aggTerm g (st.get nm)))
  | _ => none

/-- run a history: the final store and the replies of its uses, in order -/
def runHist (st : Store) : List HOp → Store × List Reply
  | [] => (st, [])
  | o :: os =>
    let r := runHist (stepStore st o) os
    (r.1, match stepReply st o with | some x => x :: r.2 | none => r.2)

/-! ## Wave 5: the re-indexing mechanism of `arrayed_term` as a probed fact

`Operator.arrayed_term(index)` is `clone_with_index(index).term(time)`: the asked index is pushed into EVERY nested
operator (`reindexAll = true`).  The variant that only switches `self.index` of the operand in place
(`self.index = index; self.term(time)`) leaves the nested operators with the index they were cloned with — the
outer result index (`reindexAll = false`).  `Ex.termC c tm x own kids` is `x.term(time)` where the operator `x`
itself carries the index `own` and every operator below it the index `kids`. -/
structure Cfg where
  reindexAll : Bool
deriving DecidableEq, Repr, Inhabited

def Ex.termC (c : Cfg) (tm : Py) : Ex → Option (List Key) → Option (List Key) → Option Py
  | .num n l, _, _ => some (numPy n l)
  | .el e, _, _ => some (refT tm e.name [])
  | .agg g e, _, _ => aggTermT tm g e
  | .op (.ew o) a b, I, K =>
    if a.arrEl || b.arrEl then
      match I with
      | none => some (.num "0.0")
      | some idx =>
        opt2 (ewTmpl o) (if a.arrEl then a.subEl tm idx else a.termC c tm K K)
                        (if b.arrEl then b.subEl tm idx else b.termC c tm K K)
    else opt2 (ewTmpl o) (a.termC c tm K K) (b.termC c tm K K)
  | .op .nmul a b, I, K =>
    if a.arrEl || b.arrEl then
      match I with
      | none => some (.num "0.0")
      | some idx =>
        opt2 prodTerm (if b.arrEl then b.subEl tm idx else b.termC c tm K K)
                      (if a.arrEl then a.subEl tm idx else a.termC c tm K K)
    else opt2 prodTerm (b.termC c tm K K) (a.termC c tm K K)
  | .op .dot a b, I, K =>
    -- `_get_sub_element_term(operand, ix)`: the operand itself gets `ix`; what is below it gets `ix` too when
    -- the operand is re-cloned, and keeps `K` when only `self.index` is switched
    let subA : List Key → Option Py := fun ix =>
      match a with | .el e => e.subT tm ix | _ => a.termC c tm (some ix) (if c.reindexAll then some ix else K)
    let subB : List Key → Option Py := fun ix =>
      match b with | .el e => e.subT tm ix | _ => b.termC c tm (some ix) (if c.reindexAll then some ix else K)
    match a.dims, b.dims with
    | some d1, some d2 =>
      (match I with
       | none =>
         if d1 = .val then none
         else if d1.isVec then
           if d2 = .val then none
           else if d2.isVec then
             if d1.rows = d2.rows then
               dotChain ((List.range d1.rows).map fun k => (a.subEl tm [.i k], b.subEl tm [.i k]))
             else none
           else some (.num "0.0")
         else some (.num "0.0")
       | some idx =>
         if d1 = .val then
           if d2 = .val then none else opt2 prodTerm (a.termC c tm K K) (b.subEl tm idx)
         else if d2 = .val then opt2 prodTerm (a.subEl tm idx) (b.termC c tm K K)
         else if d1.isVec then
           if d2.isVec then
             if d1.rows = d2.rows then
               dotChain ((List.range d1.rows).map fun k => (a.subEl tm [.i k], b.subEl tm [.i k]))
             else none
           else if d1.rows = d2.rows then
             (match idx with
              | j :: _ =>
                (match keyNat j with
                 | some jn => if jn ≥ d2.snd then none
                              else dotChain ((List.range d2.rows).map fun k => (subA [.i k], subB [.i k, j]))
                 | none => none)
              | [] => none)
           else none
         else if d2.isVec then
           if d1.snd = d2.rows then
             (match idx with
              | i :: _ =>
                (match keyNat i with
                 | some iN => if iN ≥ d1.rows then none
                              else dotChain ((List.range d1.snd).map fun k => (subA [i, .i k], subB [.i k]))
                 | none => none)
              | [] => none)
           else none
         else
           (match idx with
            | [i, j] =>
              (match keyNat i, keyNat j with
               | some iN, some jN =>
                 if iN ≥ d1.rows ∨ jN ≥ d2.snd then none
                 else dotChain ((List.range d1.snd).map fun k => (subA [i, .i k], subB [.i k, j]))
               | _, _ => none)
            | _ => none))
    | _, _ => none

/-- `clone_with_index(I).term(time)` (`I = none`: the operator as built) under the probed mechanism -/
def Ex.termI (c : Cfg) (tm : Py) (x : Ex) (I : Option (List Key)) : Option Py := x.termC c tm I I

def vecEntriesC (c : Cfg) (tm : Py) (f : Form) (a b : Ex) (named : Bool) (m : Nat) : Option (List (Key × Py)) :=
  optAll ((List.range m).map fun i =>
    match vecIndexE f a b named i with
    | some k => ((Ex.op f a b).termI c tm (some [k])).map fun p => (k, p)
    | none => none)

def matEntriesC (c : Cfg) (tm : Py) (x : Ex) (m n : Nat) : Option (List (List Py)) :=
  optAll ((List.range m).map fun i => optAll ((List.range n).map fun j => x.termI c tm (some [.i i, .i j])))

/-- `expandE` under the probed mechanism -/
def expandEC (c : Cfg) (tm : Py) (x : Ex) : Option Result :=
  match x with
  | .op f a b =>
    if !x.wf then none
    else if !x.anyArr then (x.termI c tm none).map .scalar
    else
      match x.dims with
      | none => none
      | some .val => (x.termI c tm none).map .scalar
      | some d =>
        if d.isVec then
          match isNamedE f a b with
          | none => none
          | some nm => (vecEntriesC c tm f a b nm d.rows).map (.vector nm)
        else
          match d with
          | .d2 m n => (matEntriesC c tm x m n).map .matrix
          | _ => none
  | _ => none

/-! ## Wave 6: the rejection of mismatching shapes as a probed fact

`checkEw`: `resolve_dimensions` of `+ - * /` and number*array compares the operands' dimensions when both are arrays.
The variant that returns the first arrayed operand's dimensions without looking at the other one (`checkEw = false`)
accepts `2x2 + 2x3`. -/
structure DimCfg where
  checkEw : Bool
deriving DecidableEq, Repr, Inhabited

def Ex.dimsC (c : DimCfg) : Ex → Option Dims
  | .num _ _ => some .val
  | .el e => some (elemDims e)
  | .agg _ _ => some .val
  | .op f a b =>
    match f with
    | .dot =>
      (match a.dimsC c, b.dimsC c with
       | some d1, some d2 => resolveDotD d1 d2
       | _, _ => none)
    | _ =>
      if c.checkEw then
        (match a.dimsC c, b.dimsC c with
         | some d1, some d2 => resolveEwD d1 d2
         | _, _ => none)
      else
        (match a.dimsC c with
         | some d1 => if d1 ≠ .val then some d1 else b.dimsC c      -- the other operand is not even asked
         | none => none)

/-- operands of the probe table: a leaf of shape m×n (`0 0` scalar, `m 0` vector), the sum of two such leaves,
matrix(m×k)·vector(k) (reports the one-element list `[m]`) -/
inductive OpCode
  | leaf (m n : Nat)
  | sum (m n : Nat)
  | mv (m k : Nat)
deriving DecidableEq, Repr, Inhabited

def leafEx (nm : String) (m n : Nat) : Ex :=
  .el (if m = 0 then Elem.scalar nm else if n = 0 then Elem.vec nm m else Elem.mat nm m n)

def OpCode.toEx (nm : String) : OpCode → Ex
  | .leaf m n => leafEx nm m n
  | .sum m n => .op (.ew .add) (leafEx (nm ++ "1") m n) (leafEx (nm ++ "2") m n)
  | .mv m k => .op .dot (leafEx (nm ++ "1") m k) (leafEx (nm ++ "2") k 0)

def formOfNat : Nat → Form
  | 0 => .ew .add | 1 => .ew .sub | 2 => .ew .mul | 3 => .ew .div | 4 => .nmul | _ => .dot

/-- one probed row: operator class, operands, "constructor and resolve_dimensions() both succeed" -/
def rowOK (c : DimCfg) (row : Nat × OpCode × OpCode × Bool) : Bool :=
  let x := Ex.op (formOfNat row.1) (row.2.1.toEx "A") (row.2.2.1.toEx "B")
  (x.wf && (x.dimsC c).isSome) == row.2.2.2

/-! ## Wave 7: the target of an arrayed equation that already has sub-elements

`resetTarget`: `_handle_arrayed` (generic branch) forgets the sub-elements and index names an earlier arrayed
equation left on the target before it distributes the new per-index equations.  Without that the set-up methods
only ADD keys: a 3-vector assigned a 2-vector keeps a third, stale entry. -/
structure TgtCfg where
  resetTarget : Bool
  /-- the reset also happens when the target already has the LAYOUT of the new equation (same number of rows and
  columns, same named/indexed flag) — a reset conditioned on the layout alone keeps stale index NAMES -/
  resetSameLayout : Bool
deriving DecidableEq, Repr, Inhabited

/-- the description an arrayed result gives a FRESH target -/
def Result.descr (nm : String) : Result → Elem
  | .scalar _ => Elem.scalar nm
  | .vector named es => { name := nm, keys := es.map (·.1), inner := [], named := named }
  | .matrix rows => Elem.mat nm rows.length (rows.headD []).length

/-- `_has_layout`: the target already consists of as many rows / columns as the result, with the same kind of index -/
def sameLayout (old : Elem) (r : Result) : Bool :=
  let d := r.descr old.name
  old.arrayed && old.named == d.named && old.keys.length == d.keys.length && old.inner.length == d.inner.length

/-- the description of the target `old` after it was assigned an equation with result `r` -/
def targetAfter (c : TgtCfg) (old : Elem) (r : Result) : Elem :=
  let doReset := c.resetTarget && (c.resetSameLayout || !sameLayout old r)
  match r with
  | .scalar _ => old                        -- a scalar equation does not touch the sub-elements
  | .vector named es =>
    if doReset then r.descr old.name
    else { old with keys := addKeys old.keys (es.map (·.1)), named := old.named || named }
  | .matrix rows =>
    if doReset then r.descr old.name
    else { old with keys := addKeys old.keys (rangeKeys rows.length),
                    inner := addKeys old.inner (rangeKeys (rows.headD []).length) }

def Result.isArr : Result → Bool
  | .scalar _ => false
  | _ => true

/-! ### target kinds (wave 7)

A converter, a stock (through its flow term) and a flow hold the per-index equation they are assigned.  A Constant
"can only contain floating point values": its setter tests `equation == None`, which for an operator builds a (truthy)
comparison operator, so the operator is DROPPED without an error and the entry keeps the `0` of the set-up
(`constantKeepsEquation = false`). -/
inductive TKind
  | converter | stock | constant
deriving DecidableEq, Repr, Inhabited

structure KindCfg where
  constantKeepsEquation : Bool
deriving DecidableEq, Repr, Inhabited

/-- what an entry of a target of kind `k` evaluates to when the assigned per-index equation evaluates to `v` -/
def targetEntry {α : Type} (c : KindCfg) (zero : α) : TKind → α → α
  | .constant, v => if c.constantKeepsEquation then v else zero
  | _, v => v

end Bptk.C10
