import Bptk.Core.PyFrag
/-!
C10 — arrayed equations of the SD DSL (`BPTK_Py/sddsl/element.py`, `operators.py`).

Executable model of the expansion `Element._handle_arrayed` performs when an operator over arrayed
operands is assigned to a (converter) element: constructor checks (`BinaryOperator.__init__`,
`DotOperator.__init__`), `resolve_dimensions`, `is_named` / `index_to_string`, `clone_with_index` +
`term` per index, `DotOperator.term` in all its forms, and the aggregate operators
(`_array_resolve`, `_matrix_element_to_string`, `ArrayRankOperator`, `ArraySizeOperator`).

The output is, per result element, the Python expression as a `Bptk.Py.Py` tree WITH the parentheses
the code emits (so `pr` of it is, token for token, the function string of that element), or `none`
where the code raises.  Operands are numbers, scalar elements and arrayed elements (vector / matrix,
indexed or named).  Modelled is the behaviour of the tree with the two C10 repairs applied
(`fixes/C10-number-times-array.patch`: NumericalMultiplicationOperator indexes whichever operand is the
array and knows `el1_arrayed` from its constructor; `fixes/C10-dot-nested-operand-index.patch` concerns
operator operands of `dot`, which are outside this flat model and covered by the reference check).

Keys.  Sub-elements are stored under `str(key)`.  `Key.i n` is the integer index `n` (stored as its
decimal string), `Key.s a` a name.  `Key.same` is equality of the `str` images: two integer keys are
compared as numbers (decimal notation is injective), everything else as strings.
-/
namespace Bptk.C10
open Bptk.Py

inductive Key
  | i (n : Nat)
  | s (a : String)
deriving DecidableEq, Repr, Inhabited

def Key.str : Key → String
  | .i n => toString n
  | .s a => a

def Key.same : Key → Key → Bool
  | .i a, .i b => a == b
  | a, b => a.str == b.str

/-- An element as the arrayed code sees it: `keys` = `_elements.equations` (creation order; `[]` = not
arrayed), `inner` = the keys of every row (`[]` = vector; rows are uniform — `matrix_size` raises
otherwise and named matrices with differing row keys are outside the model), `named` = `named_arrayed`. -/
structure Elem where
  name : String
  keys : List Key
  inner : List Key
  named : Bool
deriving Repr, Inhabited

def rangeKeys (n : Nat) : List Key := (List.range n).map Key.i

def Elem.scalar (nm : String) : Elem := { name := nm, keys := [], inner := [], named := false }
def Elem.vec (nm : String) (m : Nat) : Elem := { name := nm, keys := rangeKeys m, inner := [], named := false }
def Elem.mat (nm : String) (m n : Nat) : Elem :=
  { name := nm, keys := rangeKeys m, inner := rangeKeys n, named := false }

inductive Operand
  | num (neg : Bool) (lit : String)      -- a Python number: `str(x)` is `lit` or `-lit`
  | el (e : Elem)
deriving Repr, Inhabited

/-- `-1`, a list `[m]`, a list `[m, n]` (a vector element reports `[m, 0]`) -/
inductive Dims
  | val
  | d1 (m : Nat)
  | d2 (m n : Nat)
deriving DecidableEq, Repr, Inhabited

def Elem.arrayed (e : Elem) : Bool := !e.keys.isEmpty

/-- `_get_element_dimensions` -/
def elemDims (e : Elem) : Dims := if e.arrayed then .d2 e.keys.length e.inner.length else .val

def Operand.dims : Operand → Dims
  | .num _ _ => .val
  | .el e => elemDims e

def Operand.arrayed : Operand → Bool
  | .num _ _ => false
  | .el e => e.arrayed

/-- `len(dim) == 1 or dim[1] == 0` -/
def Dims.isVec : Dims → Bool
  | .d1 _ => true
  | .d2 _ 0 => true
  | _ => false

/-! ### Element references -/

def pathStr : List Key → String
  | [] => ""
  | k :: ks => "[" ++ k.str ++ "]" ++ pathStr ks

/-- `Element.term("t")` of the sub-element `name[k1][k2]…` -/
def ref (nm : String) (path : List Key) : Py :=
  .call (.attr (.name "model") "memoize") [.str (nm ++ pathStr path), .name "t"]

def findKey (ks : List Key) (k : Key) : Option Key := ks.find? (fun x => Key.same k x)

/-- `cur = element; for i in index: cur = cur[i]` — the stored keys along the path, or `none` when
`__getitem__` raises ("Element is not arrayed" / "Arrayed equation … does not exist"). -/
def Elem.path (e : Elem) : List Key → Option (List Key)
  | [] => some []
  | [k] => if e.arrayed then (findKey e.keys k).map fun k' => [k'] else none
  | [k, l] =>
    if e.arrayed then
      match findKey e.keys k with
      | some k' =>
        if e.inner.isEmpty then none
        else (findKey e.inner l).map fun l' => [k', l']
      | none => none
    else none
  | _ => none

def Elem.sub (e : Elem) (idx : List Key) : Option Py := (e.path idx).map (ref e.name)

def numPy (neg : Bool) (lit : String) : Py := if neg then .neg (.num lit) else .num lit

/-- `operand.term("t")` without indexing (a number, or the element's own reference) -/
def Operand.term : Operand → Py
  | .num n l => numPy n l
  | .el e => ref e.name []

/-- the operand at result index `idx`: arrayed elements are indexed, everything else is broadcast -/
def Operand.at (o : Operand) (idx : List Key) : Option Py :=
  match o with
  | .el e => if e.arrayed then e.sub idx else some (ref e.name [])
  | .num n l => some (numPy n l)

/-! ### Operator forms -/

inductive EwOp | add | sub | mul | div
deriving DecidableEq, Repr, Inhabited

/-- `nmul a b` is `NumericalMultiplicationOperator(element_1 = a, element_2 = b)`: Python `x * A` with a
number `x` builds `nmul x A`, `-A` builds `nmul A (-1)`. -/
inductive Form
  | ew (o : EwOp)
  | nmul
  | dot
deriving DecidableEq, Repr, Inhabited

def EwOp.bin : EwOp → BinOp
  | .add => .add | .sub => .sub | .mul => .mul | .div => .div

/-- the text each element-wise operator class emits for operand texts `x`, `y`
(`"({} + {})"`, `"({} - {})"`, `"({}) * ({})"`, `"({}) / ({})"`) -/
def ewTmpl (o : EwOp) (x y : Py) : Py :=
  match o with
  | .add => .paren (.bin .add x y)
  | .sub => .paren (.bin .sub x y)
  | .mul => .bin .mul (.paren x) (.paren y)
  | .div => .bin .div (.paren x) (.paren y)

/-- `BinaryOperator.__init__` check for two arrayed elements (not for `dot`) -/
def sameIndex (a b : Elem) : Bool :=
  a.keys.length == b.keys.length && a.named == b.named &&
  a.keys.all fun k => b.keys.any fun k' => k.str == k'.str

def ctorOK (f : Form) (a b : Operand) : Bool :=
  match f, a, b with
  | .dot, _, _ =>
    (match a with | .el e => !(e.arrayed && e.named) | _ => true) &&
    (match b with | .el e => !(e.arrayed && e.named) | _ => true)
  | _, .el x, .el y => if x.arrayed && y.arrayed then sameIndex x y else true
  | _, _, _ => true

/-- `resolve_dimensions` of `+ - * /` and of NumericalMultiplication -/
def resolveEw (a b : Operand) : Option Dims :=
  let d1 := a.dims
  let d2 := b.dims
  if d1 ≠ .val ∧ d2 ≠ .val then (if d1 = d2 then some d1 else none)
  else if d1 ≠ .val then some d1 else some d2

/-- `DotOperator.resolve_dimensions` -/
def resolveDot (a b : Operand) : Option Dims :=
  match a.dims, b.dims with
  | .val, .val => none
  | .val, d => some d
  | d, .val => some d
  | .d2 m n, .d2 m' n' =>
    if n = 0 then
      if n' = 0 then (if m = m' then some .val else none)          -- vector · vector
      else (if m = m' then some (.d1 n') else none)                -- vector · matrix
    else if n' = 0 then (if n = m' then some (.d1 m) else none)    -- matrix · vector
    else (if n = m' then some (.d2 m n') else none)                -- matrix · matrix
  | _, _ => none        -- elements never report `[m]`

def resolve (f : Form) (a b : Operand) : Option Dims :=
  match f with
  | .dot => resolveDot a b
  | _ => resolveEw a b

/-- `is_named()`; `none` = AttributeError (`named_arrayed` asked of a wrapped number) -/
def isNamed (f : Form) (a b : Operand) : Option Bool :=
  match f with
  | .dot => some false
  | .ew _ => (match a with | .el e => some e.named | _ => none)
  | .nmul =>
    if a.arrayed then (match a with | .el e => some e.named | _ => none)
    else (match b with | .el e => some e.named | _ => none)

/-- `index_to_string(i)` in the cases in which `_handle_arrayed` calls it (`is_named()` true) -/
def indexKey (f : Form) (a b : Operand) (i : Nat) : Option Key :=
  let keysOf : Operand → List Key := fun o => match o with | .el e => e.keys | _ => []
  match f with
  | .nmul => if a.arrayed then (keysOf a)[i]? else (keysOf b)[i]?
  | _ => (keysOf a)[i]?

/-! ### `term` with an index -/

/-- left-nested chain `x1 op x2 op … op xn` as Python parses the joined text -/
def chain (k : BinOp) : List Py → Option Py
  | [] => none
  | x :: xs => some (xs.foldl (fun acc y => .bin k acc y) x)

def prodTerm (x y : Py) : Py := .bin .mul (.paren x) (.paren y)

def optAll {α} : List (Option α) → Option (List α)
  | [] => some []
  | none :: _ => none
  | some x :: xs => (optAll xs).map (x :: ·)

def pairProd : Option Py × Option Py → Option Py
  | (some x, some y) => some (prodTerm x y)
  | _ => none

/-- `"(" + "(a1) * (b1) + (a2) * (b2) + …" + ")"` -/
def dotChain (xs : List (Option Py × Option Py)) : Option Py :=
  match optAll (xs.map pairProd) with
  | some ps => (chain .add ps).map .paren
  | none => none

def elemOf : Operand → Option Elem
  | .el e => some e
  | _ => none

def subOf (o : Operand) (idx : List Key) : Option Py :=
  match o with
  | .el e => e.sub idx
  | .num _ _ => none

def keyNat : Key → Option Nat
  | .i n => some n
  | .s _ => none

/-- `DotOperator.term` with `self.index = idx` -/
def dotTerm (a b : Operand) (idx : List Key) : Option Py :=
  match a.dims, b.dims with
  | .val, .val => none
  | .val, _ => (subOf b idx).map fun y => prodTerm a.term y
  | _, .val => (subOf a idx).map fun x => prodTerm x b.term
  | .d2 m n, .d2 m' n' =>
    if n = 0 then
      if n' = 0 then
        if m = m' then dotChain ((List.range m).map fun k => (subOf a [.i k], subOf b [.i k])) else none
      else
        if m = m' then
          match idx with
          | j :: _ =>
            (match keyNat j with
             | some jn => if jn ≥ n' then none
                          else dotChain ((List.range m').map fun k => (subOf a [.i k], subOf b [.i k, j]))
             | none => none)
          | [] => none
        else none
    else if n' = 0 then
      if n = m' then
        match idx with
        | i :: _ =>
          (match keyNat i with
           | some iN => if iN ≥ m then none
                        else dotChain ((List.range n).map fun k => (subOf a [i, .i k], subOf b [.i k]))
           | none => none)
        | [] => none
      else none
    else
      match idx with
      | [i, j] =>
        (match keyNat i, keyNat j with
         | some iN, some jN =>
           if iN ≥ m ∨ jN ≥ n' then none
           else dotChain ((List.range n).map fun k => (subOf a [i, .i k], subOf b [.i k, j]))
         | _, _ => none)
      | _ => none
  | _, _ => none

/-- `DotOperator.term` with `self.index == None` (the equation of a non-arrayed element) -/
def dotTermNoIndex (a b : Operand) : Option Py :=
  match a.dims, b.dims with
  | .d2 m 0, .d2 m' 0 =>
    if m = m' then dotChain ((List.range m).map fun k => (subOf a [.i k], subOf b [.i k])) else none
  | .d2 _ 0, .d2 _ _ => some (.num "0.0")
  | .d2 _ 0, _ => none                    -- `len(-1)` raises TypeError
  | .d2 _ _, _ => some (.num "0.0")
  | _, _ => none                          -- `len(-1)` raises TypeError

/-- `term()` of the clone carrying index `idx` -/
def termAt (f : Form) (a b : Operand) (idx : List Key) : Option Py :=
  match f with
  | .ew o =>
    (match a.at idx, b.at idx with
     | some x, some y => some (ewTmpl o x y)
     | _, _ => none)
  | .nmul =>
    -- `"({}) * ({})".format(element_2…, element_1…)`, the arrayed one indexed
    (match b.at idx, a.at idx with
     | some y, some x => some (prodTerm y x)
     | _, _ => none)
  | .dot => dotTerm a b idx

/-- `term()` with no index (equation of a non-arrayed element; only reached when no operand is an
arrayed element, or for `dot`) -/
def termNoIndex (f : Form) (a b : Operand) : Option Py :=
  match f with
  | .ew o => some (ewTmpl o a.term b.term)
  | .nmul => some (prodTerm b.term a.term)
  | .dot => dotTermNoIndex a b

/-! ### `_handle_arrayed` -/

inductive Result
  | scalar (p : Py)
  | vector (named : Bool) (es : List (Key × Py))
  | matrix (rows : List (List Py))
deriving Repr, Inhabited

def vecEntries (f : Form) (a b : Operand) (named : Bool) (m : Nat) : Option (List (Key × Py)) :=
  optAll ((List.range m).map fun i =>
    if named then
      match indexKey f a b i with
      | some k => (termAt f a b [k]).map fun p => (k, p)
      | none => none
    else (termAt f a b [.i i]).map fun p => (Key.i i, p))

def matEntries (f : Form) (a b : Operand) (m n : Nat) : Option (List (List Py)) :=
  optAll ((List.range m).map fun i => optAll ((List.range n).map fun j => termAt f a b [.i i, .i j]))

def Dims.rows : Dims → Nat
  | .val => 0
  | .d1 m => m
  | .d2 m _ => m

/-- the arrayed branch of `_handle_arrayed` for resolved dimensions `d ≠ -1` -/
def expandArr (f : Form) (a b : Operand) (d : Dims) : Option Result :=
  if d.isVec then
    match isNamed f a b with
    | none => none
    | some nm => (vecEntries f a b nm d.rows).map (.vector nm)
  else
    match d with
    | .d2 m n => (matEntries f a b m n).map .matrix
    | _ => none

/-- What assigning `f a b` to a fresh converter produces: its per-element equations, or `none` where
the code raises. -/
def expand (f : Form) (a b : Operand) : Option Result :=
  if !ctorOK f a b then none
  else if !(a.arrayed || b.arrayed) then (termNoIndex f a b).map .scalar
  else
    match resolve f a b with
    | none => none
    | some .val => (termNoIndex f a b).map .scalar
    | some d => expandArr f a b d

/-! ### Aggregates -/

inductive Agg
  | sum | prod | mean | median | std | size
  | rank (neg : Bool) (k : Nat)          -- `arr_rank(k)` / `arr_rank(-k)`
deriving DecidableEq, Repr, Inhabited

/-- the sub-element references in the order `_array_resolve` / `_matrix_element_to_string` visit them:
row by row -/
def Elem.rows (e : Elem) : List (List Py) :=
  if e.inner.isEmpty then e.keys.map fun k => [ref e.name [k]]
  else e.keys.map fun k => e.inner.map fun l => ref e.name [k, l]

def Elem.rowMajor (e : Elem) : List Py := e.rows.flatten

/-- `_matrix_element_to_string(element, time)` (nested list display) -/
def Elem.display (e : Elem) : Py :=
  if e.inner.isEmpty then .list e.rowMajor else .list (e.rows.map .list)

def npCall (fn : String) (arg : Py) : Py := .call (.attr (.name "np") fn) [arg]

def natPy (n : Nat) : Py := .num (toString n)

/-- `({count}-1 if ({rank} < 0 or {rank} > {count}) else {rank}-1)` -/
def rankIndexPy (neg : Bool) (k count : Nat) : Py :=
  let r := numPy neg (toString k)
  .paren (.ite (.bin .sub (natPy count) (.num "1"))
               (.paren (.bin .or (.bin .lt r (.num "0")) (.bin .gt r (natPy count))))
               (.bin .sub r (.num "1")))

/-- the index the rank expression selects from the descending sort, with Python's index semantics
still to be applied (`-1` = last) -/
def rankIndex (k : Int) (count : Nat) : Int :=
  if k < 0 ∨ k > count then (count : Int) - 1 else k - 1

/-- aggregate of a non-arrayed element -/
def aggScalar (g : Agg) (e : Elem) : Py :=
  match g with
  | .sum => .paren (ref e.name [])
  | .prod => .paren (ref e.name [])
  | .mean => .num "0.0"
  | .median => .num "0.0"
  | .std => .num "0.0"
  | .size => .num "0.0"
  | .rank _ _ => .num "0.0"

def Elem.count (e : Elem) : Nat := e.keys.length * (if e.inner.isEmpty then 1 else e.inner.length)

def sortedCall (e : Elem) : Py := .call (.name "sorted") [.list e.rowMajor, .kw "reverse" (.name "True")]

/-- aggregate of an arrayed element -/
def aggArr (g : Agg) (e : Elem) : Option Py :=
  match g with
  | .sum => (chain .add e.rowMajor).map .paren
  | .prod => (chain .mul e.rowMajor).map .paren
  | .mean => some (npCall "mean" e.display)
  | .median => some (npCall "median" e.display)
  | .std => some (npCall "std" e.display)
  | .size => some (natPy e.keys.length)
  | .rank neg k => some (.index (sortedCall e) (rankIndexPy neg k e.count))

def aggTerm (g : Agg) (e : Elem) : Option Py :=
  if e.arrayed then aggArr g e else some (aggScalar g e)

end Bptk.C10
