/-
C12 — `SimultaneousScheduler.run` / `run_step`, `Model.run` / `Model.run_step`, the data-collection
switch and `HybridRunner.run_scenario`'s skip rule (`scheduler.progress < 1.0`).

Executable model, import-free.  Agents are their ids (creation order = id order).  What the user
code does to the population inside the four callbacks is a *program*: arbitrary functions from the
position (round, step, agent id) to a list of population actions (`create_agent`, `delete_agents`).

Iteration semantics of `for agent in model.agents:` (CPython list iterator over the list object bound
at loop entry): `create_agent` appends to `model.agents`, i.e. to the iterated object as long as it is
still the same object (`aliased`), so such an agent handles/acts in the very same step;
`delete_agents` always *rebinds* `model.agents` to a fresh list, so from then on the iterated object
is frozen: agents deleted in this step still act if their turn had not come, agents created after
the deletion act from the next step on.  A program that keeps creating agents that create agents
never leaves the loop in Python; the model has `fuel` and reports `stuck`.

`Cfg.progressBySpan` is the mechanism fact probed on every run: progress is computed as
done-steps / total-steps of the start..stop span with a guard for an empty span (true, the repaired
code) or as `current_time / model.stoptime` (false, the pinned tree: ZeroDivisionError for stop = 0,
final progress < 1 for stop < 0).
-/
namespace Bptk.C12

structure Cfg where
  progressBySpan : Bool
deriving DecidableEq, Repr

inductive Act where
  | create                       -- model.create_agent(type, props)
  | delete (ids : List Nat)      -- model.delete_agents(ids) / delete_agent(i)
deriving DecidableEq, Repr

/-- What the four callbacks do to the population, as functions of round, step (and agent id). -/
structure Prog where
  beginRound : Int → Nat → List Act
  handle : Int → Nat → Nat → List Act
  act : Int → Nat → Nat → List Act
  endRound : Int → Nat → List Act

/-- `model.agents` (ids in list order) and `model.next_agent_id`. -/
structure Pop where
  agents : List Nat
  next : Nat
deriving DecidableEq, Repr

def Pop.create (p : Pop) : Pop := { agents := p.agents ++ [p.next], next := p.next + 1 }

def Pop.delete (p : Pop) (ids : List Nat) : Pop :=
  { p with agents := p.agents.filter (fun a => !ids.contains a) }

def Pop.apply (p : Pop) : Act → Pop
  | .create => p.create
  | .delete ids => p.delete ids

inductive Call where
  | beginRound
  | handle (a : Nat)
  | act (a : Nat)
  | endRound
  | collect (pop : List Nat)     -- collect_agent_statistics(time, model.agents): ids it was given
deriving DecidableEq, Repr

/-- One entry of the call log. The time label of the entry is `round + step * dt` (`timeNum`). -/
structure Ev where
  round : Int
  step : Nat
  call : Call
deriving DecidableEq, Repr

/-- Run specs: `starttime`, `stoptime`, `n = round(1/dt)`, the `collect_data` flag; `fuel` bounds the
agent loop of one step (model only). -/
structure Spec where
  start : Int
  stop : Int
  n : Nat
  collectOn : Bool
  fuel : Nat
deriving Repr

/-- numerator of the time label over the common denominator `n`:  round + step/n = timeNum / n. -/
def timeNum (n : Nat) (p : Int × Nat) : Int := p.1 * n + p.2

/-! ### the agent loop -/

structure LoopSt where
  todo : List Nat        -- rest of the iterated list object
  aliased : Bool         -- the iterated object is still `model.agents`
  pop : Pop

def loopAct (l : LoopSt) : Act → LoopSt
  | .create => { todo := if l.aliased then l.todo ++ [l.pop.next] else l.todo
                 aliased := l.aliased, pop := l.pop.create }
  | .delete ids => { todo := l.todo, aliased := false, pop := l.pop.delete ids }

/-- returns (agents that handled+acted, in that order; final loop state; stuck). -/
def agentLoop (P : Prog) (r : Int) (s : Nat) : Nat → LoopSt → List Nat → List Nat × LoopSt × Bool
  | 0, l, acc => (acc, l, !l.todo.isEmpty)
  | f + 1, l, acc =>
    match l.todo with
    | [] => (acc, l, false)
    | a :: rest =>
      agentLoop P r s f ((P.handle r s a ++ P.act r s a).foldl loopAct { l with todo := rest }) (acc ++ [a])

def agentCalls (r : Int) (s : Nat) (a : Nat) : List Ev := [⟨r, s, .handle a⟩, ⟨r, s, .act a⟩]

structure StepOut where
  pop : Pop
  acted : List Nat
  entry : Pop            -- population when the agent loop is entered (after begin_round)
  events : List Ev
  stuck : Bool

/-- the `collect_data` rule of `run_step`. -/
def collects (sp : Spec) (r : Int) (s : Nat) : Bool :=
  sp.collectOn || (r == sp.stop && s + 1 == sp.n)

/-- body of `SimultaneousScheduler.run_step` after the progress computation. -/
def stepOut (P : Prog) (sp : Spec) (pop : Pop) (r : Int) (s : Nat) : StepOut :=
  let pop1 := (P.beginRound r s).foldl Pop.apply pop
  let res := agentLoop P r s sp.fuel { todo := pop1.agents, aliased := true, pop := pop1 } []
  let pop2 := (P.endRound r s).foldl Pop.apply res.2.1.pop
  let coll : List Ev := if collects sp r s then [⟨r, s, .collect pop2.agents⟩] else []
  { pop := pop2, acted := res.1, entry := pop1, stuck := res.2.2
    events := [⟨r, s, .beginRound⟩] ++ res.1.flatMap (agentCalls r s) ++ [⟨r, s, .endRound⟩] ++ coll }

/-! ### progress -/

/-- progress as the fraction num/den (den ≠ 0). -/
structure Frac where
  num : Int
  den : Int
deriving DecidableEq, Repr

/-- `progress < 1.0` -/
def Frac.lt1 (f : Frac) : Bool := if f.den > 0 then f.num < f.den else f.num > f.den

/-- `none` = the expression raises ZeroDivisionError. -/
def progressOf (c : Cfg) (sp : Spec) (r : Int) (s : Nat) : Option Frac :=
  if c.progressBySpan then
    let total : Int := (sp.stop - sp.start + 1) * sp.n
    let done : Int := (r - sp.start) * sp.n + s + 1
    if total > 0 then some ⟨done, total⟩ else some ⟨1, 1⟩
  else
    if sp.stop = 0 then none else some ⟨r * sp.n + s, sp.n * sp.stop⟩

/-! ### scheduler state, single step, whole run -/

structure St where
  pop : Pop
  log : List Ev
  progress : Frac
  crashed : Bool         -- an exception left `run_step` (and therefore `run`)
  stuck : Bool           -- some agent loop ran out of fuel (Python: never returns)

def St.init (pop : Pop) : St :=
  { pop := pop, log := [], progress := ⟨0, 1⟩, crashed := false, stuck := false }

/-- `SimultaneousScheduler.run_step(model, r, s, None, collect)`; `Model.run_step(s)` is `r = 0`. -/
def runStep (c : Cfg) (P : Prog) (sp : Spec) (st : St) (r : Int) (s : Nat) : St :=
  if st.crashed then st else
  match progressOf c sp r s with
  | none => { st with crashed := true }
  | some p =>
    let o := stepOut P sp st.pop r s
    { pop := o.pop, log := st.log ++ o.events, progress := p, crashed := false
      stuck := st.stuck || o.stuck }

/-- inner loop `for step in range(round(1/dt))`. -/
def runRound (c : Cfg) (P : Prog) (sp : Spec) (st : St) (r : Int) : St :=
  (List.range sp.n).foldl (fun st s => runStep c P sp st r s) st

/-- `range(model.starttime, model.stoptime + 1)`. -/
def rounds (sp : Spec) : List Int :=
  (List.range (sp.stop + 1 - sp.start).toNat).map (fun (k : Nat) => sp.start + (k : Int))

/-- `SimultaneousScheduler.run` (= `Model.run`): progress := 0, collector reset, the double loop. -/
def run (c : Cfg) (P : Prog) (sp : Spec) (pop0 : Pop) : St :=
  (rounds sp).foldl (runRound c P sp) (St.init pop0)

/-- `HybridRunner.run_scenario`: `if scenario.scheduler.progress < 1.0: continue`. -/
def skipped (st : St) : Bool := st.progress.lt1

/-- the specified step sequence: rounds start..stop, steps 0..n-1, in this order. -/
def grid (sp : Spec) : List (Int × Nat) :=
  (rounds sp).flatMap (fun r => (List.range sp.n).map (fun s => (r, s)))

def pos (e : Ev) : Int × Nat := (e.round, e.step)

def isBegin : Call → Bool | .beginRound => true | _ => false
def isEnd : Call → Bool | .endRound => true | _ => false
def isCollect : Call → Bool | .collect _ => true | _ => false

/-- positions (round, step) of the log entries of one kind, in log order. -/
def positionsOf (k : Call → Bool) (log : List Ev) : List (Int × Nat) :=
  (log.filter (fun e => k e.call)).map pos

/-! ### wave 2: cancellation (`scheduler.running`)

`Scheduler.__init__` sets `running = True`; `SimultaneousScheduler.run` tests it before every round and before
every step (`else: break`) and never sets it.  It is a public attribute: a callback (or another thread) that
clears it cancels the run after the step in progress.  Modelled per position: `cancel r s` = some callback of
step (r, s) clears the flag (the harness does it in `begin_round` / `end_round`, which always run). -/

/-- one iteration of the inner loop: `if self.running: self.run_step(...) else: break`. -/
def stepC (c : Cfg) (P : Prog) (sp : Spec) (cancel : Int → Nat → Bool) (x : St × Bool) (r : Int) (s : Nat) : St × Bool :=
  if x.2 then (runStep c P sp x.1 r s, !cancel r s) else x

/-- one iteration of the outer loop: `if self.running: for step in …` `else: break`. -/
def roundC (c : Cfg) (P : Prog) (sp : Spec) (cancel : Int → Nat → Bool) (x : St × Bool) (r : Int) : St × Bool :=
  if x.2 then (List.range sp.n).foldl (fun x s => stepC c P sp cancel x r s) x else x

/-- `SimultaneousScheduler.run` with the flag: (final state, final `scheduler.running`). -/
def runC (c : Cfg) (P : Prog) (sp : Spec) (cancel : Int → Nat → Bool) (pop0 : Pop) (running0 : Bool) : St × Bool :=
  (rounds sp).foldl (roundC c P sp cancel) (St.init pop0, running0)

/-- the positions up to and including the first one at which the flag is cleared. -/
def cut (f : Int × Nat → Bool) : List (Int × Nat) → List (Int × Nat)
  | [] => []
  | p :: ps => p :: (if f p then [] else cut f ps)

/-- number of `create_agent` calls in an action list. -/
def creates (acts : List Act) : Nat := (acts.filter (fun a => a == Act.create)).length

/-! ### wave 3: one scheduler object, several calls with changing run specs

`Model.run_specs(start, stop, dt)` may be called between runs / externally driven steps on the same model and
scheduler.  `SchedCfg.stepsFromSpecs` is the mechanism fact probed on every run: every call works out
`round(1/model.dt)` from the run specs in force (true, the code) or keeps the value it computed first
(false: a cache that is never invalidated — the loop bound, the progress and the "final step" test of the
collect rule then use the old number of steps per round). -/

structure SchedCfg where
  stepsFromSpecs : Bool
deriving DecidableEq, Repr

/-- what survives between calls: the population and (defective mechanism only) the cached steps per round. -/
structure Sched where
  pop : Pop
  cache : Option Nat

/-- the number of steps per round a call under run specs `sp` works with. -/
def stepsUsed (h : SchedCfg) (sc : Sched) (sp : Spec) : Nat :=
  if h.stepsFromSpecs then sp.n else sc.cache.getD sp.n

def effSpec (h : SchedCfg) (sc : Sched) (sp : Spec) : Spec := { sp with n := stepsUsed h sc sp }

def cacheAfter (h : SchedCfg) (sc : Sched) (sp : Spec) : Option Nat :=
  if h.stepsFromSpecs then none else some (stepsUsed h sc sp)

/-- a call on the scheduler, with the run specs in force at that moment. -/
inductive SCall where
  | run (sp : Spec)                          -- model.run_specs(…); model.run()
  | step (sp : Spec) (r : Int) (s : Nat)     -- model.run_specs(…); scheduler.run_step(model, r, s)

/-- the scheduler after the call, and what the call did (its own log / progress / crash flag). -/
def callOn (c : Cfg) (h : SchedCfg) (P : Prog) (sc : Sched) : SCall → Sched × St
  | .run sp =>
    let st := run c P (effSpec h sc sp) sc.pop
    ({ pop := st.pop, cache := cacheAfter h sc sp }, st)
  | .step sp r s =>
    let st := runStep c P (effSpec h sc sp) (St.init sc.pop) r s
    ({ pop := st.pop, cache := cacheAfter h sc sp }, st)

/-- a history of calls; returns the final scheduler and the outcome of every call. -/
def historyOn (c : Cfg) (h : SchedCfg) (P : Prog) : Sched → List SCall → Sched × List St
  | sc, [] => (sc, [])
  | sc, call :: rest =>
    let x := callOn c h P sc call
    let y := historyOn c h P x.1 rest
    (y.1, x.2 :: y.2)

/-- the same call on a scheduler that has never run anything, with the same population. -/
def freshCall (c : Cfg) (P : Prog) (pop : Pop) : SCall → St
  | .run sp => run c P sp pop
  | .step sp r s => runStep c P sp (St.init pop) r s

end Bptk.C12
