import Bptk.Core.PyFrag
/-! Wire format of tokens and expression trees for the line-protocol drivers (C02, C10, C03, C01). -/
namespace Bptk.Py

def hexVal (c : Char) : Option Nat :=
  if '0' ≤ c ∧ c ≤ '9' then some (c.toNat - '0'.toNat)
  else if 'a' ≤ c ∧ c ≤ 'f' then some (c.toNat - 'a'.toNat + 10)
  else none

def unhex : List Char → Option (List Char)
  | [] => some []
  | a :: b :: rest => do
    let x ← hexVal a
    let y ← hexVal b
    let r ← unhex rest
    some (Char.ofNat (16 * x + y) :: r)
  | _ => none

def hexDigit (n : Nat) : Char := if n < 10 then Char.ofNat (48 + n) else Char.ofNat (87 + n)

def hexStr (s : String) : String :=
  String.ofList (s.toList.flatMap fun c => [hexDigit (c.toNat / 16 % 16), hexDigit (c.toNat % 16)])

def opOfString : String → Option BinOp
  | "or" => some .or | "and" => some .and | "<" => some .lt | "<=" => some .le | ">" => some .gt
  | ">=" => some .ge | "==" => some .eq | "!=" => some .ne | "+" => some .add | "-" => some .sub
  | "*" => some .mul | "/" => some .div | "%" => some .mod | "**" => some .pow
  | _ => none

/-- one word ↦ one token:  N<text> I<text> S<hex> H<i> O<op> Knot Kif Kelse ( ) [ ] , . = -/
def tokOfWord (w : String) : Option Tok :=
  match w with
  | "(" => some .lp | ")" => some .rp | "[" => some .lb | "]" => some .rb
  | "," => some .comma | "." => some .dot | "=" => some .assign
  | "Knot" => some .knot | "Kif" => some .kif | "Kelse" => some .kelse
  | _ =>
    match w.toList with
    | 'N' :: r => some (.num (String.ofList r))
    | 'I' :: r => some (.name (String.ofList r))
    | 'S' :: r => (unhex r).map fun cs => .str (String.ofList cs)
    | 'H' :: r => (String.ofList r).toNat?.map .hole
    | 'O' :: r => (opOfString (String.ofList r)).map .op
    | _ => none

def wordOfTok : Tok → String
  | .num s => "N" ++ s | .name s => "I" ++ s | .str s => "S" ++ hexStr s | .hole i => s!"H{i}"
  | .op k => "O" ++ opName k | .knot => "Knot" | .kif => "Kif" | .kelse => "Kelse"
  | .lp => "(" | .rp => ")" | .lb => "[" | .rb => "]" | .comma => "," | .dot => "." | .assign => "="

def toksOfWords (ws : List String) : Option (List Tok) := ws.mapM tokOfWord

def wordsOfToks (ts : List Tok) : String := " ".intercalate (ts.map wordOfTok)

mutual
/-- `L n w1 … wn` (leaf given by its tokens) | `N k a child1 … childa` -/
def readTree : Nat → List String → Option (E × List String)
  | 0, _ => none
  | fuel + 1, ws =>
    match ws with
    | "L" :: n :: rest =>
      match n.toNat? with
      | some n =>
        match toksOfWords (rest.take n) with
        | some ts =>
          if (rest.take n).length = n then
            match parse ts with
            | some p => some (.leaf p, rest.drop n)
            | none => none
          else none
        | none => none
      | none => none
    | "N" :: k :: a :: rest =>
      match k.toNat?, a.toNat? with
      | some k, some a =>
        match readTrees fuel a rest with
        | some (cs, r) => some (.node k cs, r)
        | none => none
      | _, _ => none
    | _ => none
def readTrees : Nat → Nat → List String → Option (List E × List String)
  | 0, _, _ => none
  | _ + 1, 0, ws => some ([], ws)
  | fuel + 1, n + 1, ws =>
    match readTree fuel ws with
    | some (c, r) =>
      match readTrees fuel n r with
      | some (cs, r') => some (c :: cs, r')
      | none => none
    | none => none
end

def treeOfWords (ws : List String) : Option E :=
  match readTree (ws.length + 2) ws with
  | some (e, []) => some e
  | _ => none

/-- why a template fails `tmplOK` (diagnostic for evidence / replay files) -/
def tmplDiag (L : Nat) (t : Tmpl) : String :=
  match parse t.toks with
  | none => "parse-fail"
  | some s =>
    if pr s ≠ t.toks then "print-differs"
    else if !WLb L s then "operand-position-too-tight"
    else if lvlH L s < L then s!"exposes-level-{lvlH L s}"
    else if !holesBelow t.arity t.toks then "hole-index"
    else "ok"

end Bptk.Py
