/-
C18 — step-advancing requests on one server instance (`run-step`, `run-steps`, `stream-steps` of
`BPTK_Py/server/bptkServer.py`, `bptk.run_step / lock / unlock / is_locked / try_lock` of `BPTK_Py/bptk.py`)
under an adversarial scheduler (A5 interleaving semantics).  Import-free, executable.

A request is a *thread*: a small program counter machine whose transitions are the accesses to the state
that the requests of one instance share (`session_state["lock"]`, `session_state["step"]`, the simulation
call, the chunks handed to the client).  Everything between two such accesses is thread-local in the
handlers (Flask's request context, local variables) and is not a transition of its own.
A schedule is a list of `(thread id, event)`; `event` is the scheduler's choice for that thread's next
action: `go` (perform it), `fail` (the simulation call of `run_step` raises), `gone` (the client of a
stream closes the response while the stream is suspended at a `yield`).

`Cfg` are the mechanism facts probed on every run:
* `lockIsTestAndSet`     — the handlers acquire through the atomic `try_lock()` (true) or through
                           `is_locked()` … `lock()` on separate lines (false: pinned tree);
* `runStepTakesLock`     — `run-step` holds the lock for its single step (false: it only tests it);
* `streamUnlocksOnDone`  — a stream that runs to completion releases the lock (false: `unlock()` only in
                           the `except` branch);
* `unlockOnError`        — a raising `run_step` inside a request releases the lock;
* `unlockOnClientGone`   — closing a suspended stream releases the lock;
* `refusalKeepsLock`     — a request refused by `try_lock()` leaves the lock alone (false: the test-and-set
                           sits inside the `try … finally: unlock()` block, so the refused request clears a
                           lock that another request holds).
-/
namespace Bptk.C18

structure Cfg where
  lockIsTestAndSet : Bool
  runStepTakesLock : Bool
  streamUnlocksOnDone : Bool
  unlockOnError : Bool
  unlockOnClientGone : Bool
  refusalKeepsLock : Bool
deriving DecidableEq, Repr

/-- the facts mutual exclusion (and with it consecutive steps / no time twice / clock = steps) rests on. -/
def Cfg.mutexOk (c : Cfg) : Bool := c.lockIsTestAndSet && c.runStepTakesLock && c.refusalKeepsLock

/-- the facts the release clause rests on. -/
def Cfg.releaseOk (c : Cfg) : Bool := c.streamUnlocksOnDone && c.unlockOnError && c.unlockOnClientGone

def Cfg.good (c : Cfg) : Bool := c.mutexOk && c.releaseOk

/-- request kinds; `runSteps n` carries `numberSteps` (any natural number). -/
inductive Kind where
  | runStep
  | runSteps (n : Nat)
  | stream
deriving DecidableEq, Repr

inductive Ev where
  | go | fail | gone
deriving DecidableEq, Repr

/-- program counter = the next shared access of the request.
`start`    first look at the lock (`is_locked()` or `try_lock()`)
`checked`  `is_locked()` answered "free"; next: `lock()` / `try_lock()`
`genStart` stream, pinned shape: handler returned, generator not started; next (first pull): `lock()`
`opening`  next: hand `"["` to the client
`prog`     next: `progress()` (reads the clock) — the `while` test of the stream
`comma`    next: hand `","`
`read`     next: `run_step` reads `session_state["step"]`
`sim`      next: the simulation call
`write`    next: `run_step` logs the result under the time read and writes `step + dt`
`chunk`    next: hand the step's result
`closing`  next: hand `"]"`
`ending`   next: the stream is resumed a last time (completion)
`release`  next: `unlock()`
`done`     response complete -/
inductive Pc where
  | start | checked | genStart | opening | prog | comma | read | sim | write | chunk | closing | ending
  | release | done
deriving DecidableEq, Repr

inductive Status where
  | pending | ok | refused | error | gone
deriving DecidableEq, Repr

/-- what a transition did (the harness derives the same labels from its recording of the real run). -/
inductive Lbl where
  | RL | TAS | SL | CL | RS | SIM | WS | Y | GONE | END | NOOP
deriving DecidableEq, Repr

structure Thread where
  kind : Kind
  pc : Pc
  st : Status
  rem : Nat           -- run-steps: iterations left
  first : Bool        -- stream: no chunk handed out yet (no comma)
  loc : Nat           -- run_step's local `step`
  res : List Nat      -- times of the step results contained in the response so far
  msgs : Nat          -- number of `{"msg": "Stoptime reached"}` entries in the response
  susp : Bool         -- stream suspended at a `yield` (the client may close it now)
  holds : Bool        -- ghost: acquired and not yet released
  base : Nat          -- ghost: clock value at acquisition
deriving DecidableEq, Repr

def Thread.mk' (k : Kind) : Thread :=
  { kind := k, pc := .start, st := .pending, rem := (match k with | .runSteps n => n | _ => 0),
    first := true, loc := 0, res := [], msgs := 0, susp := false, holds := false, base := 0 }

/-- the state shared by the requests of one instance.  Time is counted in steps from the session start
(`dt = 1`, start 0); `produced` is a ghost log of every time written to the results log. -/
structure Shared where
  lock : Bool
  clock : Nat
  stop : Nat
  produced : List Nat
deriving DecidableEq, Repr

structure State where
  sh : Shared
  ths : List Thread
deriving DecidableEq, Repr

def State.init (stop : Nat) (ks : List Kind) : State :=
  { sh := { lock := false, clock := 0, stop := stop, produced := [] }, ths := ks.map Thread.mk' }

def refuse (t : Thread) : Thread := { t with pc := .done, st := .refused, susp := false }

/-- refused, but on its way out the request runs the `finally: unlock()` of the block its `try_lock()` sits in. -/
def refuseRel (t : Thread) : Thread := { t with pc := .release, st := .refused, susp := false }

/-- the request now holds the lock; where it continues. -/
def acquired (sh : Shared) (t : Thread) (susp : Bool) : Thread :=
  match t.kind with
  | .runStep => { t with holds := true, base := sh.clock, susp := false, pc := .read }
  | .runSteps _ =>
      if t.rem = 0 then { t with holds := true, base := sh.clock, susp := false, pc := .release, st := .ok }
      else { t with holds := true, base := sh.clock, susp := false, pc := .read }
  | .stream => { t with holds := true, base := sh.clock, susp := susp, pc := .opening }

/-- `run_step` returned (a result or the stop-time message); where the request continues. -/
def afterStep (c : Cfg) (t : Thread) : Thread :=
  match t.kind with
  | .runStep => if c.runStepTakesLock then { t with pc := .release, st := .ok } else { t with pc := .done, st := .ok }
  | .runSteps _ => if t.rem ≤ 1 then { t with rem := 0, pc := .release, st := .ok }
                   else { t with rem := t.rem - 1, pc := .read }
  | .stream => { t with pc := .chunk }

def readLock (sh : Shared) (t : Thread) (next : Pc) (susp : Bool) : Shared × Thread × Lbl :=
  if sh.lock then (sh, refuse t, .RL) else (sh, { t with pc := next, susp := susp }, .RL)

def testAndSet (c : Cfg) (sh : Shared) (t : Thread) (susp : Bool) : Shared × Thread × Lbl :=
  if sh.lock then (sh, (if c.refusalKeepsLock then refuse t else refuseRel t), .TAS)
  else ({ sh with lock := true }, acquired sh t susp, .TAS)

def setLock (sh : Shared) (t : Thread) : Shared × Thread × Lbl :=
  ({ sh with lock := true }, acquired sh t false, .SL)

def stepGo (c : Cfg) (sh : Shared) (t : Thread) : Shared × Thread × Lbl :=
  match t.pc with
  | .start =>
      match t.kind with
      | .runStep =>
          if c.runStepTakesLock then
            (if c.lockIsTestAndSet then testAndSet c sh t false else readLock sh t .checked false)
          else readLock sh t .read false
      | .runSteps _ => readLock sh t .checked false
      | .stream => if c.lockIsTestAndSet then testAndSet c sh t true else readLock sh t .genStart true
  | .checked => if c.lockIsTestAndSet then testAndSet c sh t false else setLock sh t
  | .genStart => setLock sh t
  | .opening => (sh, { t with pc := .prog, susp := true, first := true }, .Y)
  | .prog =>
      if sh.clock ≤ sh.stop then
        (if t.first then (sh, { t with pc := .read, first := false, susp := false }, .RS)
         else (sh, { t with pc := .comma, susp := false }, .RS))
      else (sh, { t with pc := .closing, susp := false }, .RS)
  | .comma => (sh, { t with pc := .read, susp := true }, .Y)
  | .read =>
      if sh.clock ≤ sh.stop then (sh, { t with loc := sh.clock, pc := .sim, susp := false }, .RS)
      else (sh, afterStep c { t with msgs := t.msgs + 1, susp := false }, .RS)
  | .sim => (sh, { t with pc := .write }, .SIM)
  | .write =>
      ({ sh with clock := t.loc + 1, produced := sh.produced ++ [t.loc] },
       afterStep c { t with res := t.res ++ [t.loc] }, .WS)
  | .chunk => (sh, { t with pc := .prog, susp := true }, .Y)
  | .closing => (sh, { t with pc := .ending, susp := true }, .Y)
  | .ending =>
      if c.streamUnlocksOnDone then
        ({ sh with lock := false }, { t with pc := .done, st := .ok, susp := false, holds := false }, .CL)
      else (sh, { t with pc := .done, st := .ok, susp := false }, .END)
  | .release => ({ sh with lock := false }, { t with pc := .done, holds := false }, .CL)
  | .done => (sh, t, .NOOP)

/-- the simulation call raises. -/
def stepFail (c : Cfg) (sh : Shared) (t : Thread) : Shared × Thread × Lbl :=
  if t.pc = .sim then
    (if (match t.kind with | .runStep => c.runStepTakesLock && c.unlockOnError | _ => c.unlockOnError) then
       (sh, { t with pc := .release, st := .error }, .SIM)
     else (sh, { t with pc := .done, st := .error }, .SIM))
  else (sh, t, .NOOP)

/-- the client closes a suspended stream (`GeneratorExit` at the `yield`). -/
def stepGone (c : Cfg) (sh : Shared) (t : Thread) : Shared × Thread × Lbl :=
  if t.susp = true ∧ t.pc ≠ .done then
    (if t.pc = .genStart then (sh, { t with pc := .done, st := .gone, susp := false }, .GONE)
     else if c.unlockOnClientGone then
       ({ sh with lock := false }, { t with pc := .done, st := .gone, susp := false, holds := false }, .GONE)
     else (sh, { t with pc := .done, st := .gone, susp := false }, .GONE))
  else (sh, t, .NOOP)

def stepT (c : Cfg) (sh : Shared) (t : Thread) : Ev → Shared × Thread × Lbl
  | .go => stepGo c sh t
  | .fail => stepFail c sh t
  | .gone => stepGone c sh t

abbrev Schedule := List (Nat × Ev)

def step (c : Cfg) (s : State) (a : Nat × Ev) : State × Lbl :=
  match s.ths[a.1]? with
  | none => (s, .NOOP)
  | some t =>
      let r := stepT c s.sh t a.2
      ({ sh := r.1, ths := s.ths.set a.1 r.2.1 }, r.2.2)

def run (c : Cfg) (s : State) (sched : Schedule) : State := sched.foldl (fun s a => (step c s a).1) s

/-- `exec`: final state and the trace of labels. -/
def exec (c : Cfg) : Schedule → State → State × List Lbl
  | [], s => (s, [])
  | a :: rest, s =>
      let r := step c s a
      let r' := exec c rest r.1
      (r'.1, r.2 :: r'.2)

/-- a request that has passed its lock test and is not finished. -/
def Pc.active : Pc → Bool
  | .start | .checked | .genStart | .done => false
  | _ => true

def Pc.pre : Pc → Bool
  | .start | .checked | .genStart => true
  | _ => false

/-! ### Thread programs as data (per-run obligations of `Gen/C18.lean`)

The harness runs every handler alone against a recording stub of the instance (under `sys.settrace`) and
records the sequence of shared accesses of that one request; `progOk` says that the model's program for that
request kind performs exactly that sequence on the corresponding schedule and is finished afterwards. -/

/-- labels of thread `i` in the run of `sched` (without the model-internal `NOOP` / `END`). -/
def threadLabels (c : Cfg) (stop : Nat) (ks : List Kind) (sched : Schedule) (i : Nat) : List Lbl :=
  let r := exec c sched (State.init stop ks)
  ((sched.zip r.2).filter (fun x => x.1.1 == i && x.2 != .NOOP && x.2 != .END)).map (·.2)

def threadDone (c : Cfg) (stop : Nat) (ks : List Kind) (sched : Schedule) (i : Nat) : Bool :=
  match (run c (State.init stop ks) sched).ths[i]? with
  | some t => t.pc == .done
  | none => false

def progOk (c : Cfg) (stop : Nat) (ks : List Kind) (sched : Schedule) (i : Nat) (want : List Lbl) : Bool :=
  threadLabels c stop ks sched i == want && threadDone c stop ks sched i

end Bptk.C18

/-! ### Session lifecycle (wave 5): where the lock flag lives

`begin-session`, `end-session` and a restore (`_set_state`) replace or drop `session_state` — on a thread of their
own, possibly while a step-advancing request is between acquire and release.  This machine keeps of a request
only what matters for the lock (`pre` → `holding` → `ended`) and adds the session: whether one exists and where
the flag lives.  Mechanism facts (probed on every run):
* `flagOnInstance`      the flag is an attribute of the instance (false: a key of `session_state`, so it is
                        replaced by a fresh `False` with every new session state and gone without one);
* `lockNeedsSession`    `lock()` does nothing while there is no session state;
* `unlockNeedsSession`  `unlock()` does nothing while there is no session state;
* `sessionReqExcluded`  `begin-session` / `end-session` / restore are refused while the flag is set. -/
namespace Bptk.C18.Sess

structure SCfg where
  flagOnInstance : Bool
  lockNeedsSession : Bool
  unlockNeedsSession : Bool
  sessionReqExcluded : Bool
deriving DecidableEq, Repr

inductive Phase where
  | pre | holding | ended
deriving DecidableEq, Repr

/-- `acq i`: request `i` performs its test-and-set; `fin i`: request `i` ends (completion, error, client gone —
every ending runs `unlock()`); the three session requests. -/
inductive SEv where
  | acq (i : Nat) | fin (i : Nat) | endS | beginS | restoreS
deriving DecidableEq, Repr

/-- `flag` is what `is_locked()` answers (a flag kept in a session state that no longer exists reads `False`). -/
structure SState where
  session : Bool
  flag : Bool
  ths : List Phase
deriving DecidableEq, Repr

def SState.init (session : Bool) (n : Nat) : SState := { session := session, flag := false, ths := List.replicate n .pre }

/-- can `lock()` / `unlock()` write the flag right now? -/
def canWrite (onInstance needs session : Bool) : Bool := if onInstance then (!needs || session) else session

/-- a session request replaces / drops the state: the flag survives only on the instance. -/
def sessionReq (c : SCfg) (s : SState) (session' : Bool) : SState :=
  if c.sessionReqExcluded && s.flag then s
  else { s with session := session', flag := if c.flagOnInstance then s.flag else false }

def sstep (c : SCfg) (s : SState) : SEv → SState
  | .acq i =>
      match s.ths[i]? with
      | some .pre =>
          if s.flag then { s with ths := s.ths.set i .ended }
          else { s with flag := canWrite c.flagOnInstance c.lockNeedsSession s.session, ths := s.ths.set i .holding }
      | _ => s
  | .fin i =>
      match s.ths[i]? with
      | some .holding =>
          { s with flag := if canWrite c.flagOnInstance c.unlockNeedsSession s.session then false else s.flag,
                   ths := s.ths.set i .ended }
      | _ => s
  | .endS => sessionReq c s false
  | .beginS => sessionReq c s true
  | .restoreS => sessionReq c s true

def srun (c : SCfg) (s : SState) (sched : List SEv) : SState := sched.foldl (sstep c) s

/-- what the harness observes of one event: `acq`: accepted / refused; session request: done / refused. -/
def outcome (c : SCfg) (s : SState) : SEv → String
  | .acq i => match s.ths[i]? with
      | some .pre => if s.flag then "refused" else "accepted"
      | _ => "noop"
  | .fin i => match s.ths[i]? with
      | some .holding => "ended"
      | _ => "noop"
  | _ => if c.sessionReqExcluded && s.flag then "refused" else "done"

def strace (c : SCfg) : List SEv → SState → SState × List String
  | [], s => (s, [])
  | e :: rest, s =>
      let r := strace c rest (sstep c s e)
      (r.1, outcome c s e :: r.2)

def holders (s : SState) : Nat := (s.ths.filter (· == .holding)).length

/-! #### The session clock under session requests (wave 6)

`run_step` reads `session_state["step"]` at its start and writes the result and `step + dt` at its end — into
whatever `session_state` is *at that moment*: a `begin-session` / restore in between hands it a fresh state.
`epoch` numbers the session states; `log` is the results log as (epoch, time). -/
structure CState where
  base : SState
  epoch : Nat
  clock : Nat
  log : List (Nat × Nat)
  locs : List (Option Nat)        -- per request: the time read by a `run_step` that has not yet written
deriving DecidableEq, Repr

inductive CEv where
  | sess (e : SEv) | rd (i : Nat) | wr (i : Nat)
deriving DecidableEq, Repr

def CState.init (session0 : Bool) (n : Nat) : CState :=
  { base := SState.init session0 n, epoch := 0, clock := 0, log := [], locs := List.replicate n none }

def cstep (c : SCfg) (s : CState) : CEv → CState
  | .sess e =>
      match e with
      | .beginS | .restoreS =>
          if c.sessionReqExcluded && s.base.flag then s
          else { s with base := sstep c s.base e, epoch := s.epoch + 1, clock := 0 }
      | _ => { s with base := sstep c s.base e }
  | .rd i =>
      if s.base.ths[i]? = some .holding ∧ s.locs[i]? = some none ∧ s.base.session = true then
        { s with locs := s.locs.set i (some s.clock) }
      else s
  | .wr i =>
      match s.base.ths[i]?, s.locs[i]? with
      | some .holding, some (some l) =>
          if s.base.session then { s with log := s.log ++ [(s.epoch, l)], clock := l + 1, locs := s.locs.set i none }
          else { s with locs := s.locs.set i none }
      | _, _ => s

def crun (c : SCfg) (s : CState) (sched : List CEv) : CState := sched.foldl (cstep c) s

/-- the times logged in session state number `e`, in the order they were written. -/
def timesOf (e : Nat) (log : List (Nat × Nat)) : List Nat := (log.filter (fun p => p.1 == e)).map (·.2)

end Bptk.C18.Sess

/-! ### The generator protocol of the streamer (wave 6)

A streaming request is a coroutine: it runs, suspends at a `yield`, and is finally exhausted or closed.  "The
client goes away" is the WSGI server calling `close()` on the suspended generator: `GeneratorExit` is raised at
the yield it is suspended at.  A handler may catch it (`except:` / `except BaseException` / `except
GeneratorExit`); `finally` blocks run while it propagates.  If the generator then reaches another `yield`, Python
raises `RuntimeError: generator ignored GeneratorExit` in the closer and the frame stays suspended at that yield —
whatever comes after it (the `unlock()`) never runs, not on garbage collection either.

The body of the generator is kept as a flat list of tokens with block markers (read off the real source with
`ast` on every run); `closeAt` interprets `close()` at the yield with index `k`. -/
namespace Bptk.C18.Gen

inductive Tok where
  | yld                           -- a statement containing `yield`
  | unlock                        -- `instance.unlock()`
  | other                         -- any other simple statement
  | ret                           -- `return` / `raise`: leaves through the enclosing `finally` blocks
  | tryB | exceptB (catchesExit : Bool) | finallyB | endTry
  | condB (isLoop : Bool) | endCond (isLoop : Bool)     -- `if` / `for` / `while` bodies
deriving DecidableEq, Repr

/-- where a position sits in each enclosing block, innermost first; `fin p`: in a `finally` block entered while
unwinding (`p = some catchable`) or normally (`none`); `skip`: past the part of a `try` that runs, skipping its
remaining `except` clauses. -/
inductive Sect where
  | body | handler | fin (pending : Option Bool) | skip | cond (isLoop : Bool) (entered : Bool)
deriving DecidableEq, Repr

/-- the enclosing blocks of the position after the prefix `toks` (scanning from the start of the body). -/
def context : List Tok → List Sect → List Sect
  | [], ctx => ctx
  | t :: rest, ctx =>
      match t, ctx with
      | .tryB, _ => context rest (.body :: ctx)
      | .exceptB _, _ :: up => context rest (.handler :: up)
      | .finallyB, _ :: up => context rest (.fin none :: up)
      | .endTry, _ :: up => context rest up
      | .condB l, _ => context rest (.cond l false :: ctx)
      | .endCond _, _ :: up => context rest up
      | _, _ => context rest ctx

structure Outcome where
  unlocked : Bool      -- `unlock()` was executed for certain
  stuck : Bool         -- a `yield` was (possibly) reached while closing: RuntimeError, frame left suspended
deriving DecidableEq, Repr

/-- `close()`: `unw (some c)` = an exception is propagating (`c`: it is the catchable `GeneratorExit`; `false`
for `return`/`raise`), `unw none`... is not used; `run` = executing.  `depth`: nesting of blocks that are skipped
wholesale; `unc`: number of conditional blocks entered while executing (what is inside them may or may not run). -/
inductive Mode where
  | unw (catchable : Bool) | run
deriving DecidableEq, Repr

def closeFrom : List Tok → List Sect → Mode → Nat → Nat → Bool → Outcome
  | [], _, _, _, _, u => ⟨u, false⟩
  | t :: rest, ctx, .unw c, depth, unc, u =>
      if depth > 0 then
        match t with
        | .tryB | .condB _ => closeFrom rest ctx (.unw c) (depth + 1) unc u
        | .endTry | .endCond _ => closeFrom rest ctx (.unw c) (depth - 1) unc u
        | _ => closeFrom rest ctx (.unw c) depth unc u
      else
        match t, ctx with
        | .tryB, _ | .condB _, _ => closeFrom rest ctx (.unw c) 1 unc u
        | .exceptB ce, .body :: up =>
            if c && ce then closeFrom rest (.handler :: up) .run 0 unc u
            else closeFrom rest ctx (.unw c) 0 unc u
        | .finallyB, .body :: up | .finallyB, .handler :: up | .finallyB, .skip :: up =>
            closeFrom rest (.fin (some c) :: up) .run 0 unc u
        | .endTry, _ :: up => closeFrom rest up (.unw c) 0 unc u
        | .endCond _, .cond _ e :: up => closeFrom rest up (.unw c) 0 (if e then unc - 1 else unc) u
        | _, _ => closeFrom rest ctx (.unw c) 0 unc u
  | t :: rest, ctx, .run, depth, unc, u =>
      match ctx with
      | .skip :: up =>
          if depth > 0 then
            match t with
            | .tryB | .condB _ => closeFrom rest ctx .run (depth + 1) unc u
            | .endTry | .endCond _ => closeFrom rest ctx .run (depth - 1) unc u
            | _ => closeFrom rest ctx .run depth unc u
          else
            match t with
            | .tryB | .condB _ => closeFrom rest ctx .run 1 unc u
            | .finallyB => closeFrom rest (.fin none :: up) .run 0 unc u
            | .endTry => closeFrom rest up .run 0 unc u
            | _ => closeFrom rest ctx .run 0 unc u
      | _ =>
          match t, ctx with
          | .yld, _ => ⟨u, true⟩
          | .unlock, _ => closeFrom rest ctx .run 0 unc (u || unc == 0)
          | .other, _ => closeFrom rest ctx .run 0 unc u
          | .ret, _ => closeFrom rest ctx (.unw false) 0 unc u
          | .tryB, _ => closeFrom rest (.body :: ctx) .run 0 unc u
          | .condB l, _ => closeFrom rest (.cond l true :: ctx) .run 0 (unc + 1) u
          | .exceptB _, _ :: up => closeFrom rest (.skip :: up) .run 0 unc u
          | .finallyB, _ :: up => closeFrom rest (.fin none :: up) .run 0 unc u
          | .endTry, .fin (some c) :: up => closeFrom rest up (.unw c) 0 unc u
          | .endTry, _ :: up => closeFrom rest up .run 0 unc u
          | .endCond _, .cond l e :: up =>
              if e then closeFrom rest up .run 0 (unc - 1) u
              else if l then ⟨u, true⟩          -- the end of a loop that encloses the yield: it may iterate again
              else closeFrom rest up .run 0 unc u
          | _, _ => closeFrom rest ctx .run 0 unc u

/-- `close()` of the generator suspended at token `k` (which must be a `yld`). -/
def closeAt (prog : List Tok) (k : Nat) : Outcome :=
  closeFrom (prog.drop (k + 1)) (context (prog.take k) []) (.unw true) 0 0 false

def yieldIdx (prog : List Tok) : List Nat := (List.range prog.length).filter (fun k => prog[k]? == some .yld)

/-- the shape fact: at whatever `yield` the generator is suspended, closing it executes `unlock()` and reaches no
further `yield`. -/
def closeSafe (prog : List Tok) : Bool :=
  (yieldIdx prog).all (fun k => (closeAt prog k).unlocked && !(closeAt prog k).stuck)

/-- the coroutine: suspended at a yield, closed, or left suspended by a failed `close()`. -/
inductive GState where
  | suspended (k : Nat) | closed | stuckAt (k : Nat)
deriving DecidableEq, Repr

/-- `close()` as a transition of the coroutine: new state and whether the lock is released by it. -/
def genClose (prog : List Tok) : GState → GState × Bool
  | .suspended k =>
      let o := closeAt prog k
      (if o.stuck then .stuckAt k else .closed, o.unlocked)
  | g => (g, false)

end Bptk.C18.Gen
