/-
C08 — memoisation of SD-DSL equation values (`BPTK_Py.modeling.model.Model.memoize`, the equation /
initial-value setters of `sddsl`, `Model.add_equation`, `Model.reset_cache`,
`SimulationScenario.reset_cache`, and the per-equation worker threads of `SdSimulation`).

Executable model, import-free, carrier-generic: values live in an arbitrary type `α` with
*uninterpreted* operations (`Ops`), so every theorem is about "the same operation tree", which is what
holds bit-for-bit on IEEE doubles.  Elements are natural numbers, times are grid indices `k`
(`t = starttime + k·dt`; the normalisation of float times to grid points is C05's subject).

Part (a): sequential edit / evaluate histories with an explicit memo.
Part (b): the worker threads of one run as an interleaving machine over the shared memo.
-/
namespace Bptk.C08

/-- Mechanism facts probed on every run. -/
structure Cfg where
  /-- `Stock.initial_value = …` empties the memo of *all* elements (pinned tree: only the stock's own). -/
  initialValueResetsCache : Bool
  /-- `Model.add_equation` on an existing name empties the memo of all elements (pinned tree: own only). -/
  addEquationResetsCache : Bool
  /-- the miss path of `memoize` keeps the value stored first and returns the stored value
      (`dict.setdefault`); pinned tree: plain assignment, every thread returns its own result. -/
  memoizeFirstStoreWins : Bool
  /-- the function generated for an element reads every operand through `model.memoize(…)` when it is evaluated;
  no operand VALUE is copied into the function string when the element is defined (wave 6; the defective variant
  writes the number of a constant operand into the term of the element that uses it). -/
  operandsThroughMemo : Bool
  /-- every reset path clears every store the lookup of `memoize` consults before it computes (wave 8; the defective
  variant adds a second store — the latest lookups — which `Model.reset_cache` / `add_equation` clear but
  `SimulationScenario.reset_cache`, which empties `model.memo` directly, does not know). -/
  resetClearsAllStores : Bool
  /-- an API call the code rejects with an exception leaves the model as it was: later edits still invalidate
  (wave 10; the defective variant suspends cache resets during array set-ups and never resumes when the set-up raises). -/
  rejectedIsNoOp : Bool
deriving DecidableEq, Repr

def Cfg.good (c : Cfg) : Bool :=
  c.initialValueResetsCache && c.addEquationResetsCache && c.memoizeFirstStoreWins && c.operandsThroughMemo &&
    c.resetClearsAllStores && c.rejectedIsNoOp

/-- Uninterpreted carrier operations: `bin 0..3` = `+ - * /`, `max0 x` = `max(0, x)`. -/
structure Ops (α : Type) where
  bin : Nat → α → α → α
  max0 : α → α
  /-- `model._lookup(x, "p")`: the interpolation function of the graphical function `p` **as the points table
  stands when the call is made** (wave 2; `St.lk` holds the current tables, `Ops.withLk` installs them). -/
  lookup : Nat → α → α := fun _ x => x

/-- the carrier operations with the points tables `lk` current in a model state. -/
def Ops.withLk {α : Type} (ops : Ops α) (lk : Nat → α → α) : Ops α := { ops with lookup := lk }

/-- The Python expression of an element's lambda, as far as it matters here. -/
inductive Expr (α : Type) where
  | lit (x : α)                       -- a float literal / `model.dt`
  | ref (n : Nat)                     -- `model.memoize('n', t)`
  | prev (n : Nat)                    -- `model.memoize('n', t-model.dt)`
  | bin (op : Nat) (a b : Expr α)
  | max0 (a : Expr α)
  | atStart (a b : Expr α)            -- `(a) if (t <= model.starttime) else b`
  | rnd                               -- `(random.uniform(0,1))`   (part (b) only)
  | lookup (p : Nat) (a : Expr α)     -- `model._lookup(a, "p")`: table looked up by NAME when evaluated (wave 2)
deriving Repr

abbrev Key := Nat × Nat                -- (element, grid index)
abbrev Memo (α : Type) := List (Key × α)

/-- dictionary read: the entry stored last for `key` (entries are consed at the front). -/
def look {α : Type} : Memo α → Key → Option α
  | [], _ => none
  | (k, v) :: r, key => if k = key then some v else look r key

inductive Kind where
  | stock | flow | other              -- other = converter, constant, biflow (lambda = the equation)
deriving DecidableEq, Repr

/-- `term("t-model.dt")`: every element reference is asked for the previous grid point. -/
def lag {α : Type} : Expr α → Expr α
  | .lit x => .lit x
  | .ref n => .prev n
  | .prev n => .prev n
  | .bin op a b => .bin op (lag a) (lag b)
  | .max0 a => .max0 (lag a)
  | .atStart a b => .atStart (lag a) (lag b)
  | .rnd => .rnd
  | .lookup p a => .lookup p (lag a)

/-- The function string the element classes generate (`Stock.build_function_string`,
`Flow.build_function_string`, `Element.equation` setter). -/
def build {α : Type} (dt : α) (kd : Kind) (n : Nat) (init : Expr α) (eq : Option (Expr α)) : Expr α :=
  match kd, eq with
  | .stock, none => .atStart init (.prev n)
  | .stock, some e => .atStart init (.bin 0 (.prev n) (.bin 2 (.lit dt) (lag e)))
  | .flow, some e => .max0 e
  | .flow, none => .max0 (.lit dt)      -- not produced by the harness (Python: TypeError)
  | .other, some e => e
  | .other, none => .lit dt             -- not produced by the harness

/-! ### Part (a): sequential histories -/

/-- Evaluate an expression at grid index `k`; element references go through `ev` (the memoised
key evaluator), threading the memo left to right as Python does. -/
def evalE {α : Type} (ops : Ops α) (ev : Memo α → Key → Memo α × Option α) :
    Expr α → Nat → Memo α → Memo α × Option α
  | .lit x, _, m => (m, some x)
  | .ref n, k, m => ev m (n, k)
  | .prev n, k, m => match k with
      | 0 => (m, none)                  -- before the start time: outside the modelled domain
      | k' + 1 => ev m (n, k')
  | .bin op a b, k, m =>
      match evalE ops ev a k m with
      | (m1, some x) =>
          (match evalE ops ev b k m1 with
           | (m2, some y) => (m2, some (ops.bin op x y))
           | (m2, none) => (m2, none))
      | (m1, none) => (m1, none)
  | .max0 a, k, m =>
      match evalE ops ev a k m with
      | (m1, some x) => (m1, some (ops.max0 x))
      | (m1, none) => (m1, none)
  | .atStart a b, k, m => match k with
      | 0 => evalE ops ev a 0 m
      | k' + 1 => evalE ops ev b (k' + 1) m
  | .rnd, _, m => (m, none)              -- stochastic terms are modelled in part (b)
  | .lookup p a, k, m =>
      match evalE ops ev a k m with
      | (m1, some x) => (m1, some (ops.lookup p x))
      | (m1, none) => (m1, none)

/-- `Model.memoize` (sequential): hit → stored value; miss → compute, store, return.
`fuel` bounds the recursion depth (Python: the interpreter's recursion limit). -/
def evalK {α : Type} (ops : Ops α) (body : Nat → Expr α) : Nat → Memo α → Key → Memo α × Option α
  | 0, m, _ => (m, none)
  | f + 1, m, key =>
      match look m key with
      | some v => (m, some v)
      | none =>
          match evalE ops (evalK ops body f) (body key.1) key.2 m with
          | (m1, some v) => ((key, v) :: m1, some v)
          | (m1, none) => (m1, none)

structure St (α : Type) where
  kind : Nat → Kind
  eqn : Nat → Option (Expr α)           -- `element._equation`
  init : Nat → Expr α                   -- `stock.initial_value` (float, or constant / converter)
  body : Nat → Expr α                   -- `model.equations[n]`, the lambda currently installed
  memo : Memo α
  dt : α
  /-- `model.points`: per table name the interpolation function of the table stored now (a plain dict:
  writing it does NOT touch the memo). -/
  lk : Nat → α → α := fun _ x => x
  /-- the entries a lookup can still find in ANOTHER store after `model.memo` alone was emptied (every looked-up value
  is recorded there too; an over-approximation of "the latest lookup per equation"). Only the scenario-level reset
  of the defective variant ever reads it. -/
  memo2 : Memo α := []
  /-- `Model.reset_cache()` is switched off (a suspension counter left above zero): the edits of the modelling API
  no longer empty any store. -/
  suspended : Bool := false

inductive Op (α : Type) where
  | setEq (n : Nat) (e : Expr α)        -- `element.equation = e`
  | setInit (n : Nat) (e : Expr α)      -- `stock.initial_value = e`
  | addEq (n : Nat) (e : Expr α)        -- `model.add_equation(n, lambda)`
  | reset                               -- `model.reset_cache()` / `scenario.reset_cache()`
  | eval (n k fuel : Nat)               -- `element(t_k)` / one requested value of a run
  | setPoints (p : Nat) (f : α → α)     -- `model.points["p"] = table` (f = its interpolation function); wave 2
  | sreset                              -- `SimulationScenario.reset_cache()` (bptk.reset_scenario_cache, begin/end_session); wave 8
  | rawEq (n : Nat) (e : Expr α)        -- `model.equations[n] = lambda` (scenario.setup_constants): plain dict write; wave 8
  | rejected                            -- an API call that raises (a set-up with wrong arguments, a wrong-type value, …); wave 10

def updFn {β : Type} (f : Nat → β) (n : Nat) (v : β) : Nat → β := fun i => if i = n then v else f i

/-- `generate_function` clears only the element's own memo. -/
def clearOwn {α : Type} (m : Memo α) (n : Nat) : Memo α := m.filter (fun e => e.1.1 != n)

/-- the definition-time copy: every reference to an element that is, at this moment, a converter/constant defined by
a number is replaced by that number. -/
def bakeE {α : Type} (kind : Nat → Kind) (eqn : Nat → Option (Expr α)) : Expr α → Expr α
  | .lit x => .lit x
  | .ref m => (match kind m, eqn m with
      | .other, some (.lit v) => .lit v
      | _, _ => .ref m)
  | .prev m => .prev m
  | .bin op a b => .bin op (bakeE kind eqn a) (bakeE kind eqn b)
  | .max0 a => .max0 (bakeE kind eqn a)
  | .atStart a b => .atStart (bakeE kind eqn a) (bakeE kind eqn b)
  | .rnd => .rnd
  | .lookup p a => .lookup p (bakeE kind eqn a)

/-- the expression the term generator turns into the element's function: the definition itself, or (defective
variant) the definition with the current numbers of its constant operands copied in. -/
def installed {α : Type} (c : Cfg) (s : St α) (e : Expr α) : Expr α :=
  if c.operandsThroughMemo then e else bakeE s.kind s.eqn e

def step {α : Type} (c : Cfg) (ops : Ops α) (s : St α) : Op α → St α
  | .setEq n e =>
      { s with eqn := updFn s.eqn n (some e)
               body := updFn s.body n (build s.dt (s.kind n) n (s.init n) (some (installed c s e)))
               memo := if s.suspended then s.memo else [], memo2 := if s.suspended then s.memo2 else [] }
  | .setInit n e =>
      { s with init := updFn s.init n e
               body := updFn s.body n (build s.dt (s.kind n) n e (s.eqn n))
               memo := if s.suspended then s.memo else if c.initialValueResetsCache then [] else clearOwn s.memo n
               memo2 := if s.suspended then s.memo2 else if c.initialValueResetsCache then [] else clearOwn s.memo2 n }
  | .addEq n e =>
      { s with body := updFn s.body n e
               memo := if c.addEquationResetsCache then [] else clearOwn s.memo n
               memo2 := if c.addEquationResetsCache then [] else clearOwn s.memo2 n }
  | .reset => { s with memo := if s.suspended then s.memo else [], memo2 := if s.suspended then s.memo2 else [] }
  | .eval n k fuel => { s with memo := (evalK (ops.withLk s.lk) s.body fuel s.memo (n, k)).1
                               memo2 := (evalK (ops.withLk s.lk) s.body fuel s.memo (n, k)).1 }
  | .setPoints p f => { s with lk := updFn s.lk p f }      -- plain dictionary write: the memo stays as it is
  | .sreset => { s with memo := if c.resetClearsAllStores then [] else s.memo2 }
  | .rawEq n e => { s with body := updFn s.body n e }       -- plain dictionary write: no store is touched
  | .rejected => if c.rejectedIsNoOp then s else { s with suspended := true }

def run {α : Type} (c : Cfg) (ops : Ops α) (s : St α) (h : List (Op α)) : St α := h.foldl (step c ops) s

/-- what `element(t_k)` returns in state `s`. -/
def query {α : Type} (ops : Ops α) (s : St α) (n k fuel : Nat) : Option α :=
  (evalK (ops.withLk s.lk) s.body fuel s.memo (n, k)).2

/-- A points edit takes effect with the next operation that empties the memo (`reset_cache`, any equation /
initial-value edit): a history is *settled* when no evaluation — the final query included — happens between
a `setPoints` and the next such operation.  (`bptk` applies scenario points with `setup_points` and resets the
scenario cache before the next run.) -/
def settledFrom {α : Type} : Bool → List (Op α) → Bool
  | d, [] => !d
  | _, .setPoints _ _ :: r => settledFrom true r
  | d, .eval _ _ _ :: r => !d && settledFrom d r
  | _, .setEq _ _ :: r => settledFrom false r
  | _, .setInit _ _ :: r => settledFrom false r
  | _, .addEq _ _ :: r => settledFrom false r
  | _, .reset :: r => settledFrom false r
  | _, .sreset :: r => settledFrom false r
  | _, .rawEq _ _ :: r => settledFrom true r
  | d, .rejected :: r => settledFrom d r

def settled {α : Type} (h : List (Op α)) : Bool := settledFrom false h

/-! ### Wave 5: the dependency structure behind cache invalidation

The code empties EVERY memo on every definition change (`Model.reset_cache()` in the setters,
`add_equation`).  A selective variant keeps the entries of elements the change cannot reach; `sel s n m` says
whether element `m` is cleared when the definition of `n` changes in state `s`. -/

/-- does the lambda text of an element mention element `j` (as `memoize('j', t)` or `memoize('j', t-dt)`)? -/
def mentions {α : Type} : Expr α → Nat → Bool
  | .lit _, _ => false
  | .ref m, j => m == j
  | .prev m, j => m == j
  | .bin _ a b, j => mentions a j || mentions b j
  | .max0 a, j => mentions a j
  | .atStart a b, j => mentions a j || mentions b j
  | .rnd, _ => false
  | .lookup _ a, j => mentions a j

/-- drop the entries of the elements selected by `S`. -/
def clearSel {α : Type} (m : Memo α) (S : Nat → Bool) : Memo α := m.filter (fun e => !S e.1.1)

/-- `step` with a selective invalidation policy `sel` for the three kinds of definition change
(cache resets, evaluations and points writes as in `step`). -/
def stepSel {α : Type} (sel : St α → Nat → Nat → Bool) (ops : Ops α) (s : St α) : Op α → St α
  | .setEq n e =>
      { s with eqn := updFn s.eqn n (some e)
               body := updFn s.body n (build s.dt (s.kind n) n (s.init n) (some e))
               memo := clearSel s.memo (sel s n), memo2 := [] }
  | .setInit n e =>
      { s with init := updFn s.init n e
               body := updFn s.body n (build s.dt (s.kind n) n e (s.eqn n))
               memo := clearSel s.memo (sel s n), memo2 := [] }
  | .addEq n e => { s with body := updFn s.body n e, memo := clearSel s.memo (sel s n), memo2 := [] }
  | .reset => { s with memo := [], memo2 := [] }
  | .eval n k fuel => { s with memo := (evalK (ops.withLk s.lk) s.body fuel s.memo (n, k)).1
                               memo2 := (evalK (ops.withLk s.lk) s.body fuel s.memo (n, k)).1 }
  | .setPoints p f => { s with lk := updFn s.lk p f }
  | .sreset => { s with memo := [] }
  | .rawEq n e => { s with body := updFn s.body n e }
  | .rejected => s

def runSel {α : Type} (sel : St α → Nat → Nat → Bool) (ops : Ops α) (s : St α) (h : List (Op α)) : St α :=
  h.foldl (stepSel sel ops) s

/-- the policy of the code: everything. -/
def selAll {α : Type} : St α → Nat → Nat → Bool := fun _ _ _ => true

/-- a users relation computed by a NAME MATCHER over the function strings: element `m` is found to use `n`
only if the name of `n` is one the matcher can see (`visible n`; a `\w+` pattern does not see names with a dot,
a blank or brackets).  One level of users over elements `< bound` (enough for the witness). -/
def selMatcher {α : Type} (visible : Nat → Bool) : St α → Nat → Nat → Bool :=
  fun s n m => m == n || (visible n && mentions (s.body m) n)

/-! ### Part (b): the per-equation worker threads of one run

An element's lambda is abstracted to: the list of memo keys it requests, in order (`deps`), and the
combination of the returned values and, for a stochastic element, one draw (`comb`). -/

structure Sys (α : Type) where
  deps : Key → List Key
  comb : Key → List α → Option α → α
  stoch : Key → Bool
  oracle : Nat → Nat → α                -- thread id → number of its draw → value of `random.uniform`

inductive Phase (α : Type) where
  | enter                               -- `memoize` called; the membership test has not run yet
  | hit                                 -- test found the key; `return mymemo[key]` not yet executed
  | compute                             -- test missed; the lambda is running
  | store (v : α)                       -- the lambda returned `v`; the store has not run yet
deriving Repr

structure Frame (α : Type) where
  key : Key
  pend : List Key                       -- dependencies not yet returned (head = the one in flight, if any)
  got : List α                          -- values returned so far, in order
  phase : Phase α

structure Thread (α : Type) where
  todo : List Key                       -- requested (equation, time) pairs still to do, in order
  stack : List (Frame α)
  draws : Nat

/-- One entry per value handed out by `memoize`: consumer (none = the worker's result dict, i.e. the
value *reported*), key, value. -/
abbrev Log (α : Type) := List (Option Key × Key × α)

structure CState (α : Type) where
  memo : Memo α
  threads : List (Thread α)
  log : Log α

/-- deliver `v` for `key` to the caller of the popped frame. -/
def ret {α : Type} (th : Thread α) (rest : List (Frame α)) (key : Key) (v : α) (log : Log α) :
    Thread α × Log α :=
  match rest with
  | [] => ({ th with stack := [] }, (none, key, v) :: log)
  | p :: ps => ({ th with stack := { p with pend := p.pend.tail, got := p.got ++ [v] } :: ps },
                (some p.key, key, v) :: log)

/-- One atomic action of thread `tid`. -/
def tstep {α : Type} (c : Cfg) (sys : Sys α) (tid : Nat) (memo : Memo α) (log : Log α) (th : Thread α) :
    Memo α × Log α × Thread α :=
  match th.stack with
  | [] =>
      match th.todo with
      | [] => (memo, log, th)
      | k :: ks => (memo, log, { th with todo := ks, stack := [⟨k, [], [], .enter⟩] })
  | fr :: rest =>
      match fr.phase with
      | .enter =>
          match look memo fr.key with
          | some _ => (memo, log, { th with stack := { fr with phase := .hit } :: rest })
          | none => (memo, log, { th with stack := { fr with phase := .compute, pend := sys.deps fr.key, got := [] } :: rest })
      | .hit =>
          match look memo fr.key with
          | some v => (memo, (ret th rest fr.key v log).2, (ret th rest fr.key v log).1)
          | none => (memo, log, th)       -- KeyError; unreachable: entries are never removed during a run
      | .compute =>
          match fr.pend with
          | d :: _ => (memo, log, { th with stack := ⟨d, [], [], .enter⟩ :: fr :: rest })
          | [] =>
              if sys.stoch fr.key then
                (memo, log, { th with
                  stack := { fr with phase := .store (sys.comb fr.key fr.got (some (sys.oracle tid th.draws))) } :: rest,
                  draws := th.draws + 1 })
              else
                (memo, log, { th with stack := { fr with phase := .store (sys.comb fr.key fr.got none) } :: rest })
      | .store v =>
          if c.memoizeFirstStoreWins then
            match look memo fr.key with
            | some w => (memo, (ret th rest fr.key w log).2, (ret th rest fr.key w log).1)
            | none => ((fr.key, v) :: memo, (ret th rest fr.key v log).2, (ret th rest fr.key v log).1)
          else
            ((fr.key, v) :: memo, (ret th rest fr.key v log).2, (ret th rest fr.key v log).1)

def cstep {α : Type} (c : Cfg) (sys : Sys α) (s : CState α) (tid : Nat) : CState α :=
  match s.threads[tid]? with
  | none => s
  | some th =>
      match tstep c sys tid s.memo s.log th with
      | (m, l, th') => { memo := m, log := l, threads := s.threads.set tid th' }

/-- A schedule is the list of thread ids that execute the successive atomic actions. -/
def exec {α : Type} (c : Cfg) (sys : Sys α) (s : CState α) (sched : List Nat) : CState α :=
  sched.foldl (cstep c sys) s

def initC {α : Type} (memo : Memo α) (reqs : List (List Key)) : CState α :=
  { memo := memo, threads := reqs.map (fun r => ⟨r, [], 0⟩), log := [] }

/-! ### Instantiating `Sys` from expression bodies (used by the driver) -/

def depsE {α : Type} : Expr α → Nat → List Key
  | .lit _, _ => []
  | .ref n, k => [(n, k)]
  | .prev n, k => [(n, k - 1)]
  | .bin _ a b, k => depsE a k ++ depsE b k
  | .max0 a, k => depsE a k
  | .atStart a b, k => match k with
      | 0 => depsE a 0
      | k' + 1 => depsE b (k' + 1)
  | .rnd, _ => []
  | .lookup _ a, k => depsE a k

def hasRnd {α : Type} : Expr α → Nat → Bool
  | .lit _, _ => false
  | .ref _, _ => false
  | .prev _, _ => false
  | .bin _ a b, k => hasRnd a k || hasRnd b k
  | .max0 a, k => hasRnd a k
  | .atStart a b, k => match k with
      | 0 => hasRnd a 0
      | k' + 1 => hasRnd b (k' + 1)
  | .rnd, _ => true
  | .lookup _ a, k => hasRnd a k

/-- evaluate with a supply of returned values (consumed left to right) and one draw. -/
def combE {α : Type} (ops : Ops α) (draw : α) : Expr α → Nat → List α → Option (α × List α)
  | .lit x, _, vs => some (x, vs)
  | .ref _, _, vs => match vs with
      | v :: r => some (v, r)
      | [] => none
  | .prev _, _, vs => match vs with
      | v :: r => some (v, r)
      | [] => none
  | .bin op a b, k, vs =>
      match combE ops draw a k vs with
      | some (x, r) => (match combE ops draw b k r with
                        | some (y, r') => some (ops.bin op x y, r')
                        | none => none)
      | none => none
  | .max0 a, k, vs => match combE ops draw a k vs with
      | some (x, r) => some (ops.max0 x, r)
      | none => none
  | .atStart a b, k, vs => match k with
      | 0 => combE ops draw a 0 vs
      | k' + 1 => combE ops draw b (k' + 1) vs
  | .rnd, _, vs => some (draw, vs)
  | .lookup p a, k, vs => match combE ops draw a k vs with
      | some (x, r) => some (ops.lookup p x, r)
      | none => none

def sysOf {α : Type} (ops : Ops α) (zero : α) (body : Nat → Expr α) (oracle : Nat → Nat → α) : Sys α :=
  { deps := fun key => depsE (body key.1) key.2
    comb := fun key vs d => match combE ops (d.getD zero) (body key.1) key.2 vs with
      | some (v, _) => v
      | none => zero
    stoch := fun key => hasRnd (body key.1) key.2
    oracle := oracle }

end Bptk.C08
