/-
C17 — instance lifetime in `BPTK_Py.server.bptkServer` (`InstanceManager` + the instance-scoped views of
`BptkServer`, with an external state adapter).

Executable model, import-free.  Time is a logical clock in microseconds (`Nat`); the time of every event
is supplied with the event (`datetime.datetime.now()` is read by the code; the harness controls it).

* `Timeout.toMicros` is `datetime.timedelta(**timeout)` for the seven keyword units (non-negative ints).
* `sweep` is `_timeout_instances`: every instance with `now >= last + timeout` is destroyed and deleted.
* `access` is an instance-scoped view (`begin-session`, `session-results`, `run-step`, `end-session`):
  `_ensure_instance_exists` (lazy restore from the adapter, timer starts at `now`), then `get_instance`
  = timestamp update FIRST, sweep SECOND, then the view body (a `run-step` on a session externalises the
  instance: `save_instance`).
* `keepAlive`: `is_valid_instance` (no restore unless `Cfg.keepAliveRestores`), timestamp update, sweep.
* `create`: sweep, then the new instance with `last = now`.   `metrics` / `fullMetrics`: sweep.
Ghost fields (not in the Python objects): `destroyed` logs every `bptk.destroy()` call, `restored` every
lazy restore — used to state "released exactly once".
-/
namespace Bptk.C17

structure Timeout where
  weeks : Nat := 0
  days : Nat := 0
  hours : Nat := 0
  minutes : Nat := 0
  seconds : Nat := 0
  milliseconds : Nat := 0
  microseconds : Nat := 0
deriving DecidableEq, Repr

/-- `datetime.timedelta(**timeout)` in microseconds -/
def Timeout.toMicros (t : Timeout) : Nat :=
  ((((t.weeks * 7 + t.days) * 24 + t.hours) * 60 + t.minutes) * 60 + t.seconds) * 1000000
    + t.milliseconds * 1000 + t.microseconds

structure Cfg where
  keepAliveRestores : Bool   -- keep-alive on an externalised, timed-out instance restores it
deriving DecidableEq, Repr

structure Inst where
  id : Nat
  last : Nat       -- `_instances[id]["time"]`
  timeout : Nat    -- `timedelta(**_instances[id]["timeout"])`
  sess : Bool      -- `instance.session_state is not None`
deriving DecidableEq, Repr

structure State where
  insts : List Inst              -- `_instances` in dict (insertion) order
  stored : List (Nat × Nat)      -- external state: id ↦ timeout (most recent first)
  destroyed : List Nat           -- ghost: ids whose bptk object got `destroy()`, in call order
  restored : List Nat            -- ghost: ids lazily restored, in order
  next : Nat                     -- ghost: number of instances ever created (ids are 0,1,2,…)
  dropped : List Nat := []       -- ghost (wave 2): ids whose bptk object was dropped WITHOUT `destroy()`
                                 -- (`stop-instance`, a live entry overwritten by `load-state`)
deriving Repr

def State.init : State := { insts := [], stored := [], destroyed := [], restored := [], next := 0 }

inductive Kind where
  | begin | results | step | endS
deriving DecidableEq, Repr

inductive Ev where
  | create (timeout : Nat)
  | access (id : Nat) (k : Kind)
  | keepAlive (id : Nat)
  | metrics
  | fullMetrics
deriving DecidableEq, Repr

def expired (now : Nat) (i : Inst) : Bool := decide (i.last + i.timeout ≤ now)

def hasId (s : State) (k : Nat) : Bool := s.insts.any (fun i => i.id == k)

/-- `_timeout_instances` -/
def sweep (now : Nat) (s : State) : State :=
  { s with insts := s.insts.filter (fun i => !expired now i)
           destroyed := s.destroyed ++ (s.insts.filter (expired now)).map (·.id) }

def touchInst (now k : Nat) (i : Inst) : Inst := if i.id = k then { i with last := now } else i

/-- `_update_instance_timestamp` -/
def touch (now k : Nat) (s : State) : State := { s with insts := s.insts.map (touchInst now k) }

def lookupStored (st : List (Nat × Nat)) (k : Nat) : Option Nat :=
  match st with
  | [] => none
  | (a, b) :: rest => if a = k then some b else lookupStored rest k

/-- `_ensure_instance_exists` -/
def ensure (s : State) (now k : Nat) : State × Bool :=
  if hasId s k then (s, true) else
  match lookupStored s.stored k with
  | none => (s, false)
  | some τ => ({ s with insts := s.insts ++ [{ id := k, last := now, timeout := τ, sess := true }]
                        restored := s.restored ++ [k] }, true)

def setSess (k : Nat) (b : Bool) (i : Inst) : Inst := if i.id = k then { i with sess := b } else i

/-- the body of the view once `get_instance` returned the instance `i` -/
def applyKind (s : State) (i : Inst) : Kind → State × Bool
  | .begin => ({ s with insts := s.insts.map (setSess i.id true) }, true)
  | .results => (s, true)
  | .endS => ({ s with insts := s.insts.map (setSess i.id false) }, true)
  | .step => if i.sess then ({ s with stored := (i.id, i.timeout) :: s.stored }, true) else (s, false)

def findInst (s : State) (k : Nat) : Option Inst := s.insts.find? (fun i => i.id == k)

def access (s : State) (now k : Nat) (kind : Kind) : State × Bool :=
  match ensure s now k with
  | (_, false) => (s, false)
  | (s1, true) =>
    let s2 := sweep now (touch now k s1)
    match findInst s2 k with
    | none => (s2, false)     -- swept on its own access (timeout 0): the view fails with a 500
    | some i => applyKind s2 i kind

def keepAlive (c : Cfg) (s : State) (now k : Nat) : State × Bool :=
  match (if c.keepAliveRestores then ensure s now k else (s, hasId s k)) with
  | (_, false) => (s, false)
  | (s1, true) => (sweep now (touch now k s1), true)

def create (s : State) (now τ : Nat) : State × Bool :=
  let s1 := sweep now s
  ({ s1 with insts := s1.insts ++ [{ id := s1.next, last := now, timeout := τ, sess := false }]
             next := s1.next + 1 }, true)

/-- one request at clock value `now`; the Bool is "HTTP 200" -/
def step (c : Cfg) (s : State) (now : Nat) : Ev → State × Bool
  | .create τ => create s now τ
  | .access k kind => access s now k kind
  | .keepAlive k => keepAlive c s now k
  | .metrics => (sweep now s, true)
  | .fullMetrics => (sweep now s, true)

def run (c : Cfg) (s : State) : List (Nat × Ev) → State
  | [] => s
  | (t, e) :: rest => run c (step c s t e).1 rest

/-- times never go backwards, starting from `t0` -/
def wellTimed (t0 : Nat) : List (Nat × Ev) → Bool
  | [] => true
  | (t, _) :: rest => decide (t0 ≤ t) && wellTimed t rest

def endTime (t0 : Nat) : List (Nat × Ev) → Nat
  | [] => t0
  | (t, _) :: rest => endTime t rest

/-- the events after which an expired instance `k` must be gone: metrics, creation, a (successful) access
to another instance -/
def isTrigger (c : Cfg) (s : State) (k : Nat) : Ev → Bool
  | .create _ => true
  | .metrics => true
  | .fullMetrics => true
  | .access j _ => j != k && (hasId s j || (lookupStored s.stored j).isSome)
  | .keepAlive j => j != k && (hasId s j || (c.keepAliveRestores && (lookupStored s.stored j).isSome))

/-! ### wave 2 — `stop-instance`, `save-state`, `load-state`

* `stop-instance` (`_stop_instance_resource`): `_delete_instance` (the entry is deleted WITHOUT `destroy()`,
  no timestamp update, no sweep) and `adapter.delete_instance` (the state file is removed); always 200.
* `save-state`: `get_instance_states()` leaves out the instances that have not begun a session (nothing to
  externalise) and every live instance WITH a session is written to the adapter; always 200.  No sweep, no
  timestamp update.  (Before the repair `fix: save-state skips instances that have not begun a session …`
  one session-less instance made the request fail with nothing written.)
* `load-state`: every stored instance is reconstructed with `time = now` and the stored timeout — an absent
  one is added (a restore), a LIVE one is overwritten in place (its old bptk object is dropped without
  `destroy()`).  No sweep.
The events of wave 1 are embedded by `Ev2.old`; `step2`/`run2` extend `step`/`run`. -/

inductive Ev2 where
  | old (e : Ev)
  | stop (id : Nat)
  | saveState
  | loadState
  | loadOrd (order : List Nat)   -- wave 6: load-state with the directory listing order of the stored ids
deriving DecidableEq, Repr

def dropStored (st : List (Nat × Nat)) (k : Nat) : List (Nat × Nat) := st.filter (fun p => p.1 != k)

def stopInst (s : State) (k : Nat) : State :=
  { s with insts := s.insts.filter (fun i => !(i.id == k))
           stored := dropStored s.stored k
           dropped := s.dropped ++ (s.insts.filter (fun i => i.id == k)).map (·.id) }

def saveState (s : State) : State × Bool :=
  ({ s with stored := ((s.insts.filter (·.sess)).map (fun i => (i.id, i.timeout))).reverse ++ s.stored }, true)

def replaceInst (n : Inst) (i : Inst) : Inst := if i.id = n.id then n else i

def loadOne (now : Nat) (s : State) (kτ : Nat × Nat) : State :=
  let n : Inst := { id := kτ.1, last := now, timeout := kτ.2, sess := true }
  if hasId s kτ.1 then
    { s with insts := s.insts.map (replaceInst n), restored := s.restored ++ [kτ.1], dropped := s.dropped ++ [kτ.1] }
  else { s with insts := s.insts ++ [n], restored := s.restored ++ [kτ.1] }

/-- the stored instances, by ascending id (the directory listing order is not part of the model: the
harness compares the live set by id) -/
def storedIds (s : State) : List (Nat × Nat) :=
  (List.range s.next).filterMap (fun k => (lookupStored s.stored k).map (fun τ => (k, τ)))

def loadState (s : State) (now : Nat) : State := (storedIds s).foldl (loadOne now) s

/-- the stored instances in the order `ord` of a directory listing (ids without stored state are skipped;
a repeated id is loaded again) -/
def loadEntries (s : State) (ord : List Nat) : List (Nat × Nat) :=
  ord.filterMap (fun k => (lookupStored s.stored k).map (fun τ => (k, τ)))

def step2 (c : Cfg) (s : State) (now : Nat) : Ev2 → State × Bool
  | .old e => step c s now e
  | .stop k => (stopInst s k, true)
  | .saveState => saveState s
  | .loadState => (loadState s now, true)
  | .loadOrd ord => ((loadEntries s ord).foldl (loadOne now) s, true)

def run2 (c : Cfg) (s : State) : List (Nat × Ev2) → State
  | [] => s
  | (t, e) :: rest => run2 c (step2 c s t e).1 rest

def wellTimed2 (t0 : Nat) : List (Nat × Ev2) → Bool
  | [] => true
  | (t, _) :: rest => decide (t0 ≤ t) && wellTimed2 t rest

def endTime2 (t0 : Nat) : List (Nat × Ev2) → Nat
  | [] => t0
  | (t, _) :: rest => endTime2 t rest

def isTrigger2 (c : Cfg) (s : State) (k : Nat) : Ev2 → Bool
  | .old e => isTrigger c s k e
  | _ => false          -- stop-instance, save-state, load-state do not sweep

/-! ### wave 2 — timeouts the endpoint accepts beyond its contract (negative, fractional)

`/start-instance` passes any JSON numbers to `timedelta(**timeout)`.  Values are modelled in QUARTERS of a
unit (`q/4`): the sum is exact, `timedelta` rounds it once, half to even, to whole microseconds.  A negative
total behaves as 0 (`now ≥ last + timeout` holds at once): the lifetime machine runs on the clamped value. -/

def roundHalfEvenDiv4 (z : Int) : Int :=
  let q := z / 4        -- floor
  let r := z % 4        -- 0..3
  if r < 2 then q else if r > 2 then q + 1 else (if q % 2 = 0 then q else q + 1)

/-- seven unit values in quarters ↦ `timedelta(...)` in microseconds (signed) -/
def quarterMicros (w d h m sec ms us : Int) : Int :=
  roundHalfEvenDiv4 ((((((w * 7 + d) * 24 + h) * 60 + m) * 60 + sec) * 1000000) + ms * 1000 + us)

def clampTimeout (z : Int) : Nat := z.toNat

/-! ### wave 5 — the clock advances INSIDE a request

The code reads `datetime.now()` at four places: `_update_instance_timestamp` (one read), `create_instance`
(one read, after its sweep), `_timeout_instances` (one read PER KEY of the snapshot `tuple(keys)`), and the file
adapter's `load_instance` (one read per restored instance).  A request is now given by its start time `t` and
the increments `incs` by which the clock advances after each read: read number `n` (0-based, in program
order) returns `rdOf t incs n = t + incs[0] + … + incs[n-1]` — non-decreasing by construction, the first
read is `t`, no read exceeds `t + incs.sum`.  Every `…R` function returns the number of reads it consumed
(compared with the number of reads the real code performs).

`stampOf` is what `_update_instance_timestamp` / `create_instance` store for a clock reading: the reading
itself (`stampExact`), or — the seeded defect `timestamp-whole-seconds` — the reading truncated to whole
seconds, i.e. a stored "last access" EARLIER than every clock read of the request. -/

abbrev Rd := Nat → Nat

def rdOf (t : Nat) (incs : List Nat) : Rd := fun n => t + (incs.take n).sum

structure CfgR where
  keepAliveRestores : Bool
  stampExact : Bool
deriving DecidableEq, Repr

def CfgR.base (c : CfgR) : Cfg := { keepAliveRestores := c.keepAliveRestores }

def stampOf (c : CfgR) (t : Nat) : Nat := if c.stampExact then t else t / 1000000 * 1000000

/-- one iteration of the loop of `_timeout_instances`: key `k`, clock reading `t` -/
def sweepOne (t k : Nat) (s : State) : State :=
  { s with insts := s.insts.filter (fun i => !(i.id == k && expired t i))
           destroyed := s.destroyed ++ (s.insts.filter (fun i => i.id == k && expired t i)).map (·.id) }

/-- the loop over the key snapshot, read `n`, `n+1`, … -/
def sweepKeys (rd : Rd) : List Nat → Nat → State → State
  | [], _, s => s
  | k :: ks, n, s => sweepKeys rd ks (n + 1) (sweepOne (rd n) k s)

/-- `_timeout_instances` starting at read `n`; consumes one read per instance present at its start -/
def sweepR (rd : Rd) (n : Nat) (s : State) : State := sweepKeys rd (s.insts.map (·.id)) n s

/-- instance-scoped view: [restore: read] · timestamp: read · sweep: reads · view body -/
def accessR (c : CfgR) (rd : Rd) (s : State) (k : Nat) (kind : Kind) : State × Bool × Nat :=
  match ensure s (rd 0) k with
  | (_, false) => (s, false, 0)
  | (s1, true) =>
    let n0 := if hasId s k then 0 else 1
    let s2 := touch (stampOf c (rd n0)) k s1
    let s3 := sweepR rd (n0 + 1) s2
    let n3 := n0 + 1 + s2.insts.length
    match findInst s3 k with
    | none => (s3, false, n3)
    | some i => ((applyKind s3 i kind).1, (applyKind s3 i kind).2, n3)

def keepAliveR (c : CfgR) (rd : Rd) (s : State) (k : Nat) : State × Bool × Nat :=
  match (if c.keepAliveRestores then ensure s (rd 0) k else (s, hasId s k)) with
  | (_, false) => (s, false, 0)
  | (s1, true) =>
    let n0 := if hasId s k then 0 else 1
    let s2 := touch (stampOf c (rd n0)) k s1
    (sweepR rd (n0 + 1) s2, true, n0 + 1 + s2.insts.length)

def createR (c : CfgR) (rd : Rd) (s : State) (τ : Nat) : State × Bool × Nat :=
  let s1 := sweepR rd 0 s
  let n1 := s.insts.length
  ({ s1 with insts := s1.insts ++ [{ id := s1.next, last := stampOf c (rd n1), timeout := τ, sess := false }]
             next := s1.next + 1 }, true, n1 + 1)

def loadKeys (rd : Rd) : List (Nat × Nat) → Nat → State → State
  | [], _, s => s
  | kτ :: rest, n, s => loadKeys rd rest (n + 1) (loadOne (rd n) s kτ)

def stepR (c : CfgR) (rd : Rd) (s : State) : Ev2 → State × Bool × Nat
  | .old (.create τ) => createR c rd s τ
  | .old (.access k kind) => accessR c rd s k kind
  | .old (.keepAlive k) => keepAliveR c rd s k
  | .old .metrics => (sweepR rd 0 s, true, s.insts.length)
  | .old .fullMetrics => (sweepR rd 0 s, true, s.insts.length)
  | .stop k => (stopInst s k, true, 0)
  | .saveState => ((saveState s).1, true, 0)
  | .loadState => (loadKeys rd (storedIds s) 0 s, true, (storedIds s).length)
  | .loadOrd ord => (loadKeys rd (loadEntries s ord) 0 s, true, (loadEntries s ord).length)

/-- a timed request: start time, clock increments after each read, event -/
abbrev Req := Nat × List Nat × Ev2

def runR (c : CfgR) (s : State) : List Req → State
  | [] => s
  | (t, incs, e) :: rest => runR c (stepR c (rdOf t incs) s e).1 rest

/-- a request starts no earlier than the previous one ended (`t + incs.sum`) -/
def wellTimedR (t0 : Nat) : List Req → Bool
  | [] => true
  | (t, incs, _) :: rest => decide (t0 ≤ t) && wellTimedR (t + incs.sum) rest

def endTimeR (t0 : Nat) : List Req → Nat
  | [] => t0
  | (t, incs, _) :: rest => endTimeR (t + incs.sum) rest

def isTriggerR (c : CfgR) (s : State) (k : Nat) : Ev2 → Bool := isTrigger2 c.base s k

/-! ### wave 6 — the expiry comparison is on the FULL duration

`_timeout_instances` compares `now >= last + timedelta(**timeout)`: the whole idle time in microseconds against the
whole timeout (unbounded days, µs resolution).  The comparison is a parameter `cmp idle timeout`; `fullCmp` is the
code as it is, `expOf obs` is `fullCmp` patched by the rows `obs` (idle µs, timeout µs, removed?) observed on the
real sweep on every run.  `secondsCmp` is the seeded `idle.seconds >= timeout.total_seconds()`: the seconds
COMPONENT of the idle time (wraps every 24 h, drops the microseconds). -/

abbrev ExpCmp := Nat → Nat → Bool

def fullCmp : ExpCmp := fun idle τ => decide (τ ≤ idle)

abbrev ExpObs := List (Nat × Nat × Bool)

def expLookup : ExpObs → Nat → Nat → Option Bool
  | [], _, _ => none
  | (i, τ, v) :: rest, idle, t => if i = idle ∧ τ = t then some v else expLookup rest idle t

def expOf (o : ExpObs) : ExpCmp := fun idle τ => (expLookup o idle τ).getD (fullCmp idle τ)

def expiryIsFullDuration (o : ExpObs) : Bool := o.all (fun x => x.2.2 == fullCmp x.1 x.2.1)

def expDeviatesAt (o : ExpObs) (idle τ : Nat) : Bool := expOf o idle τ != fullCmp idle τ

def dayMicros : Nat := 86400000000

/-- `idle.seconds >= timeout.total_seconds()` -/
def secondsCmp : ExpCmp := fun idle τ => decide (τ ≤ (idle % dayMicros) / 1000000 * 1000000)

end Bptk.C17
