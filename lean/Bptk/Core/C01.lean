import Bptk.Core.PyFrag
/-
C01 — what the generated function strings of an SD-DSL model compute.

`evalM` is the semantics of the Python fragment *as used by BPTK's generated lambdas*
(`lambda model, t: …`): `t` is the (normalised) time the element was asked for, `model.dt`,
`model.starttime`, `model.stoptime` are the run specs, `model.memoize('x', τ)` is the value of element
`x` at the grid index that `Model.memoize`'s normalisation assigns to the time value `τ`, and the
conditional expression selects by truthiness.  Everything else (arithmetic, comparisons, numpy/math
calls) is an uninterpreted operation of the carrier — so equalities proved here are equalities of
operation trees and hold bit-for-bit on IEEE doubles.
-/
namespace Bptk.C01
open Bptk.Py

/-- carrier: uninterpreted operations + the time grid as the model object presents it -/
structure TC (α : Type) where
  num : String → α
  name : String → α
  str : String → α
  neg : α → α
  not : α → α
  bin : BinOp → α → α → α
  attr : α → String → α
  call : α → List α → α
  index : α → α → α
  list : List α → α
  kw : String → α → α
  time : Nat → α                 -- value of `t` when an element is evaluated at grid index k
  dt : α
  start : α
  stop : α
  truthy : α → Bool
  idx : α → Option Nat           -- grid index that Model.memoize's normalisation gives a time value

variable {α : Type}

def modelAttr (C : TC α) (a : String) : α :=
  if a = "dt" then C.dt else if a = "starttime" then C.start else if a = "stoptime" then C.stop
  else C.attr (C.name "model") a

/-- is this (parenthesis-free) callee `model.memoize`? -/
def isMemoize : Py → Bool
  | .attr (.name m) a => m == "model" && a == "memoize"
  | _ => false

/-- first argument of a two-argument call, when it is a string literal -/
def strArg : List Py → Option String
  | [.str n, _] => some n
  | _ => none

def isModel : Py → Bool
  | .name m => m == "model"
  | _ => false

mutual
/-- value of a function-string body at grid index `k`, given the values `W x j` of all elements -/
def evalM (C : TC α) (W : String → Nat → α) (ρ : Nat → α) (k : Nat) : Py → α
  | .num s => C.num s
  | .name s => if s = "t" then C.time k else C.name s
  | .str s => C.str s
  | .hole i => ρ i
  | .paren e => evalM C W ρ k e
  | .neg e => C.neg (evalM C W ρ k e)
  | .not e => C.not (evalM C W ρ k e)
  | .bin op l r => C.bin op (evalM C W ρ k l) (evalM C W ρ k r)
  | .ite x c y => if C.truthy (evalM C W ρ k c) then evalM C W ρ k x else evalM C W ρ k y
  | .attr e a => if isModel e then modelAttr C a else C.attr (evalM C W ρ k e) a
  | .call f args =>
    let vs := evalML C W ρ k args
    if isMemoize f then
      match strArg args, vs with
      | some n, [_, tv] =>
        match C.idx tv with
        | some j => W n j
        | none => C.call (C.name "memoize-off-grid") vs
      | _, _ => C.call (evalM C W ρ k f) vs
    else C.call (evalM C W ρ k f) vs
  | .index e i => C.index (evalM C W ρ k e) (evalM C W ρ k i)
  | .list es => C.list (evalML C W ρ k es)
  | .kw n e => C.kw n (evalM C W ρ k e)
def evalML (C : TC α) (W : String → Nat → α) (ρ : Nat → α) (k : Nat) : List Py → List α
  | [] => []
  | e :: es => evalM C W ρ k e :: evalML C W ρ k es
end

/-! ### Time shift: the text asked for at `t - model.dt` -/

def tMinusDt : Py := .bin .sub (.name "t") (.attr (.name "model") "dt")

mutual
/-- replace every occurrence of the time variable `t` by `t - model.dt` (tree level) -/
def substT : Py → Py
  | .name s => if s = "t" then tMinusDt else .name s
  | .paren e => .paren (substT e)
  | .neg e => .neg (substT e)
  | .not e => .not (substT e)
  | .bin k l r => .bin k (substT l) (substT r)
  | .ite x c y => .ite (substT x) (substT c) (substT y)
  | .attr e a => .attr (substT e) a
  | .call f args => .call (substT f) (substTL args)
  | .index e i => .index (substT e) (substT i)
  | .list es => .list (substTL es)
  | .kw n e => .kw n (substT e)
  | e => e
def substTL : List Py → List Py
  | [] => []
  | e :: es => substT e :: substTL es
end

/-! ### Skeletons of the element kinds (parenthesis-free intended shapes) -/

def memoCall (n : String) (τ : Py) : Py := .call (.attr (.name "model") "memoize") [.str n, τ]

/-- `init if t <= model.starttime else model.memoize(n, t - model.dt) + model.dt * eq` -/
def stockSkel (n : String) (init eq : Py) : Py :=
  .ite init (.bin .le (.name "t") (.attr (.name "model") "starttime"))
    (.bin .add (memoCall n tMinusDt) (.bin .mul (.attr (.name "model") "dt") eq))

/-- stock without equation: `init if t <= model.starttime else model.memoize(n, t - model.dt)` -/
def stockSkel0 (n : String) (init : Py) : Py :=
  .ite init (.bin .le (.name "t") (.attr (.name "model") "starttime")) (memoCall n tMinusDt)

/-- `max(0, eq)` -/
def flowSkel (eq : Py) : Py := .call (.name "max") [.num "0", eq]

/-! ### `Model._lookup` on rationals: clamped piecewise-linear interpolation -/

/-- scipy `interp1d` (linear) between the bracketing points; points sorted by x, strictly increasing -/
def interp : List (Rat × Rat) → Rat → Rat
  | (x0, y0) :: (x1, y1) :: rest, x =>
    if x ≤ x1 then y0 + (y1 - y0) * ((x - x0) / (x1 - x0)) else interp ((x1, y1) :: rest) x
  | [(_, y0)], _ => y0
  | [], _ => 0

def lastY : List (Rat × Rat) → Rat
  | [] => 0
  | [(_, y)] => y
  | _ :: rest => lastY rest

def lastX : List (Rat × Rat) → Rat
  | [] => 0
  | [(x, _)] => x
  | _ :: rest => lastX rest

/-- `Model._lookup(x, points)` -/
def lookup (pts : List (Rat × Rat)) (x : Rat) : Rat :=
  match pts with
  | [] => 0
  | (x0, y0) :: _ =>
    if x ≤ x0 then y0
    else if x ≥ lastX pts then lastY pts
    else interp pts x

/-! ### Wave 3: the solution of an acyclic model — evaluation with a PARTIAL valuation, and the cache-free
recursive evaluator (`Model.memoize` without the memo) -/

/-- an ordinary call, when the callee evaluated -/
def callO (C : TC α) (f : Option α) (vs : List α) : Option α :=
  match f with
  | some fv => some (C.call fv vs)
  | none => none

mutual
/-- `evalM` over a partial valuation `Wp`: the same evaluation, failing (`none`) as soon as a
`model.memoize(x, τ)` asks for a value `Wp` does not provide — the instrumented notion of "consults" -/
def evalO (C : TC α) (Wp : String → Nat → Option α) (ρ : Nat → α) (k : Nat) : Py → Option α
  | .num s => some (C.num s)
  | .name s => some (if s = "t" then C.time k else C.name s)
  | .str s => some (C.str s)
  | .hole i => some (ρ i)
  | .paren e => evalO C Wp ρ k e
  | .neg e => match evalO C Wp ρ k e with
    | some a => some (C.neg a)
    | none => none
  | .not e => match evalO C Wp ρ k e with
    | some a => some (C.not a)
    | none => none
  | .bin op l r =>
    match evalO C Wp ρ k l, evalO C Wp ρ k r with
    | some a, some b => some (C.bin op a b)
    | _, _ => none
  | .ite x c y =>
    match evalO C Wp ρ k c with
    | some cv => if C.truthy cv then evalO C Wp ρ k x else evalO C Wp ρ k y
    | none => none
  | .attr e a =>
    if isModel e then some (modelAttr C a) else
    match evalO C Wp ρ k e with
    | some v => some (C.attr v a)
    | none => none
  | .call f args =>
    match evalOL C Wp ρ k args with
    | none => none
    | some vs =>
      if isMemoize f then
        match strArg args, vs with
        | some n, [_, tv] =>
          match C.idx tv with
          | some j => Wp n j
          | none => some (C.call (C.name "memoize-off-grid") vs)
        | _, _ => callO C (evalO C Wp ρ k f) vs
      else callO C (evalO C Wp ρ k f) vs
  | .index e i =>
    match evalO C Wp ρ k e, evalO C Wp ρ k i with
    | some a, some b => some (C.index a b)
    | _, _ => none
  | .list es => match evalOL C Wp ρ k es with
    | some vs => some (C.list vs)
    | none => none
  | .kw n e => match evalO C Wp ρ k e with
    | some a => some (C.kw n a)
    | none => none
def evalOL (C : TC α) (Wp : String → Nat → Option α) (ρ : Nat → α) (k : Nat) : List Py → Option (List α)
  | [] => some []
  | e :: es =>
    match evalO C Wp ρ k e, evalOL C Wp ρ k es with
    | some v, some vs => some (v :: vs)
    | _, _ => none
end

/-- body of element `n` in a model given as a list of (name, function-string body) -/
def bodyOf (els : List (String × Py)) (n : String) : Option Py := els.lookup n

/-- what `Model.memoize` computes without its cache: a `model.memoize(x, τ)` inside a body is evaluated by
evaluating the body of `x` at the index of `τ`, recursively (`fuel` bounds the recursion depth; `none`:
unknown element or fuel exhausted — the Python recursion would not have ended within that depth) -/
def solveF (C : TC α) (els : List (String × Py)) (ρ : Nat → α) : Nat → String → Nat → Option α
  | 0, _, _ => none
  | fuel + 1, n, k =>
    match bodyOf els n with
    | none => none
    | some body => evalO C (solveF C els ρ fuel) ρ k body

/-- the values a body may consult when it is evaluated for element `n` at index `k` in an acyclic model with
rank function `rk`: elements of the model at an earlier index, or at the same index with a smaller rank -/
def allowed (els : List (String × Py)) (rk : String → Nat) (n : String) (k : Nat) (m : String) (j : Nat) : Bool :=
  (bodyOf els m).isSome && (decide (j < k) || (decide (j = k) && decide (rk m < rk n)))

/-- a total valuation cut down to the allowed set -/
def restrictW (els : List (String × Py)) (rk : String → Nat) (W : String → Nat → α) (n : String) (k : Nat) :
    String → Nat → Option α :=
  fun m j => if allowed els rk n k m j then some (W m j) else none


/-! ### Wave 3: a decidable syntactic criterion for acyclicity (checked on the real function strings by the driver) -/

def isT : Py → Bool
  | .name s => s == "t"
  | _ => false

def isTMinusDt : Py → Bool
  | .bin .sub (.name a) (.attr (.name b) c) => a == "t" && b == "model" && c == "dt"
  | _ => false

mutual
/-- every `model.memoize` call in the text is `model.memoize('m', t)` with `now m`, or
`model.memoize('m', t - model.dt)` with `prev m` -/
def refsIn (now prev : String → Bool) : Py → Bool
  | .paren e => refsIn now prev e
  | .neg e => refsIn now prev e
  | .not e => refsIn now prev e
  | .kw _ e => refsIn now prev e
  | .bin _ l r => refsIn now prev l && refsIn now prev r
  | .index l r => refsIn now prev l && refsIn now prev r
  | .ite x c y => refsIn now prev x && refsIn now prev c && refsIn now prev y
  | .attr e _ => refsIn now prev e
  | .call f args =>
    if isMemoize f then
      match args with
      | [.str m, τ] => (isT τ && now m) || (isTMinusDt τ && prev m)
      | _ => false
    else refsIn now prev f && refsInL now prev args
  | .list es => refsInL now prev es
  | _ => true
def refsInL (now prev : String → Bool) : List Py → Bool
  | [] => true
  | e :: es => refsIn now prev e && refsInL now prev es
end

def inModel (els : List (String × Py)) (m : String) : Bool := (bodyOf els m).isSome

def lowerNow (els : List (String × Py)) (rk : String → Nat) (n m : String) : Bool :=
  (bodyOf els m).isSome && decide (rk m < rk n)

/-- `(init, eq)` when the text is the stock skeleton of `n` around them -/
def stockParts (n : String) : Py → Option (Py × Py)
  | .ite init (.bin .le (.name a) (.attr (.name b) c))
      (.bin .add (.call (.attr (.name fm) fa) [.str m, .bin .sub (.name ta) (.attr (.name tb) tc)])
        (.bin .mul (.attr (.name d) e) eq)) =>
    if a == "t" && b == "model" && c == "starttime" && fm == "model" && fa == "memoize" && m == n &&
        ta == "t" && tb == "model" && tc == "dt" && d == "model" && e == "dt" then some (init, eq) else none
  | _ => none

/-- element `n` is syntactically well-founded for the rank function: every reference is a same-time reference
to a model element of smaller rank — or the text is the stock skeleton, its initial value is such an
expression, and its equation refers to model elements at `t - model.dt` only -/
def elemOKb (els : List (String × Py)) (rk : String → Nat) (n : String) (body : Py) : Bool :=
  refsIn (lowerNow els rk n) (fun _ => false) body ||
  (match stockParts n body with
   | some (init, eq) =>
     inModel els n && refsIn (lowerNow els rk n) (fun _ => false) init && refsIn (fun _ => false) (inModel els) eq
   | none => false)

def modelOKb (els : List (String × Py)) (rk : String → Nat) : Bool :=
  els.all fun p => elemOKb els rk p.1 p.2

mutual
/-- names referred to at the same time -/
def nowRefs : Py → List String
  | .paren e => nowRefs e
  | .neg e => nowRefs e
  | .not e => nowRefs e
  | .kw _ e => nowRefs e
  | .bin _ l r => nowRefs l ++ nowRefs r
  | .index l r => nowRefs l ++ nowRefs r
  | .ite x c y => nowRefs x ++ nowRefs c ++ nowRefs y
  | .attr e _ => nowRefs e
  | .call f args =>
    if isMemoize f then
      match args with
      | [.str m, τ] => if isT τ then [m] else []
      | _ => []
    else nowRefs f ++ nowRefsL args
  | .list es => nowRefsL es
  | _ => []
def nowRefsL : List Py → List String
  | [] => []
  | e :: es => nowRefs e ++ nowRefsL es
end

/-- a rank function for the same-time reference graph: longest-path length, by |els| rounds of relaxation
(for a stock only the initial value is read at the same time) -/
def computeRank (els : List (String × Py)) : List (String × Nat) :=
  let refs := els.map fun (n, body) =>
    (n, match stockParts n body with
        | some (init, _) => nowRefs init
        | none => nowRefs body)
  let step (rk : List (String × Nat)) : List (String × Nat) :=
    refs.map fun (n, ms) => (n, ms.foldl (fun acc m => max acc ((rk.lookup m).getD 0 + 1)) 0)
  (List.range els.length).foldl (fun rk _ => step rk) (els.map fun (n, _) => (n, 0))

def rankFn (rk : List (String × Nat)) (n : String) : Nat := (rk.lookup n).getD 0

/-! ### Wave 6: `Model._lookup` as a machine over a history of lookups — is there hidden state?

The code that exists is stateless: every call interpolates from the table alone.  `LCfg.lookupStateless = false` models the
variant that remembers the segment of the previous lookup in the table and searches upwards from it
(`bisect.bisect_left(x_vals, x, lo=last)`), as a realistic "optimisation" could. -/

structure LCfg where
  lookupStateless : Bool
deriving DecidableEq, Repr

/-- `bisect.bisect_left(xs, x, lo)`: first index `i ≥ lo` with `xs[i] ≥ x` (the length when there is none) -/
def bisectAux : List Rat → Rat → Nat → Nat → Nat
  | [], _, _, i => i
  | a :: as, x, lo, i => if lo ≤ i ∧ x ≤ a then i else bisectAux as x lo (i + 1)

def nthPt (pts : List (Rat × Rat)) (i : Nat) : Rat × Rat := pts.getD i (0, 0)

/-- one lookup of the remembering variant: value and the remembered segment afterwards (the clamped ranges leave it alone) -/
def lookupStateful (pts : List (Rat × Rat)) (last : Nat) (x : Rat) : Rat × Nat :=
  match pts with
  | [] => (0, last)
  | (x0, y0) :: _ =>
    if x ≤ x0 then (y0, last)
    else if x ≥ lastX pts then (lastY pts, last)
    else
      let last' := if last > pts.length - 2 then 0 else last
      let hi := max (bisectAux (pts.map (·.1)) x last' 0) 1
      let a := nthPt pts (hi - 1)
      let b := nthPt pts hi
      ((b.2 - a.2) / (b.1 - a.1) * (x - a.1) + a.2, hi - 1)

/-- the values returned for a history of lookups in one table, from remembered segment `st` -/
def lookupRun (c : LCfg) (pts : List (Rat × Rat)) : Nat → List Rat → List Rat
  | _, [] => []
  | st, x :: xs =>
    if c.lookupStateless then lookup pts x :: lookupRun c pts st xs
    else
      let r := lookupStateful pts st x
      r.1 :: lookupRun c pts r.2 xs

/-- per-run probe rows `(far, x, v)`: `v` is what the real `_lookup` returned for `x` right after an unrelated lookup at
`far` in the same table; it must be the table's interpolation at `x` -/
def lookupProbeOK (pts : List (Rat × Rat)) (rows : List (Rat × Rat × Rat)) : Bool :=
  rows.all fun r => lookup pts r.2.1 == r.2.2

end Bptk.C01

