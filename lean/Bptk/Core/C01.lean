import Bptk.Core.PyFrag
/-
C01 — what the generated function strings of an SD-DSL model compute.

`evalM` is the semantics of the Python fragment *as used by BPTK's generated lambdas*
(`lambda model, t: …`): `t` is the (normalised) time the element was asked for, `model.dt`,
`model.starttime`, `model.stoptime` are the run specs, `model.memoize('x', τ)` is the value of element
`x` at the grid index that `Model.memoize`'s normalisation assigns to the time value `τ`, and the
conditional expression selects by truthiness.  Everything else (arithmetic, comparisons, numpy/math
calls) is an uninterpreted operation of the carrier — so equalities proved here are equalities of
operation trees and hold bit-for-bit on IEEE doubles.
-/
namespace Bptk.C01
open Bptk.Py

/-- carrier: uninterpreted operations + the time grid as the model object presents it -/
structure TC (α : Type) where
  num : String → α
  name : String → α
  str : String → α
  neg : α → α
  not : α → α
  bin : BinOp → α → α → α
  attr : α → String → α
  call : α → List α → α
  index : α → α → α
  list : List α → α
  kw : String → α → α
  time : Nat → α                 -- value of `t` when an element is evaluated at grid index k
  dt : α
  start : α
  stop : α
  truthy : α → Bool
  idx : α → Option Nat           -- grid index that Model.memoize's normalisation gives a time value

variable {α : Type}

def modelAttr (C : TC α) (a : String) : α :=
  if a = "dt" then C.dt else if a = "starttime" then C.start else if a = "stoptime" then C.stop
  else C.attr (C.name "model") a

/-- is this (parenthesis-free) callee `model.memoize`? -/
def isMemoize : Py → Bool
  | .attr (.name m) a => m == "model" && a == "memoize"
  | _ => false

/-- first argument of a two-argument call, when it is a string literal -/
def strArg : List Py → Option String
  | [.str n, _] => some n
  | _ => none

def isModel : Py → Bool
  | .name m => m == "model"
  | _ => false

mutual
/-- value of a function-string body at grid index `k`, given the values `W x j` of all elements -/
def evalM (C : TC α) (W : String → Nat → α) (ρ : Nat → α) (k : Nat) : Py → α
  | .num s => C.num s
  | .name s => if s = "t" then C.time k else C.name s
  | .str s => C.str s
  | .hole i => ρ i
  | .paren e => evalM C W ρ k e
  | .neg e => C.neg (evalM C W ρ k e)
  | .not e => C.not (evalM C W ρ k e)
  | .bin op l r => C.bin op (evalM C W ρ k l) (evalM C W ρ k r)
  | .ite x c y => if C.truthy (evalM C W ρ k c) then evalM C W ρ k x else evalM C W ρ k y
  | .attr e a => if isModel e then modelAttr C a else C.attr (evalM C W ρ k e) a
  | .call f args =>
    let vs := evalML C W ρ k args
    if isMemoize f then
      match strArg args, vs with
      | some n, [_, tv] =>
        match C.idx tv with
        | some j => W n j
        | none => C.call (C.name "memoize-off-grid") vs
      | _, _ => C.call (evalM C W ρ k f) vs
    else C.call (evalM C W ρ k f) vs
  | .index e i => C.index (evalM C W ρ k e) (evalM C W ρ k i)
  | .list es => C.list (evalML C W ρ k es)
  | .kw n e => C.kw n (evalM C W ρ k e)
def evalML (C : TC α) (W : String → Nat → α) (ρ : Nat → α) (k : Nat) : List Py → List α
  | [] => []
  | e :: es => evalM C W ρ k e :: evalML C W ρ k es
end

/-! ### Time shift: the text asked for at `t - model.dt` -/

def tMinusDt : Py := .bin .sub (.name "t") (.attr (.name "model") "dt")

mutual
/-- replace every occurrence of the time variable `t` by `t - model.dt` (tree level) -/
def substT : Py → Py
  | .name s => if s = "t" then tMinusDt else .name s
  | .paren e => .paren (substT e)
  | .neg e => .neg (substT e)
  | .not e => .not (substT e)
  | .bin k l r => .bin k (substT l) (substT r)
  | .ite x c y => .ite (substT x) (substT c) (substT y)
  | .attr e a => .attr (substT e) a
  | .call f args => .call (substT f) (substTL args)
  | .index e i => .index (substT e) (substT i)
  | .list es => .list (substTL es)
  | .kw n e => .kw n (substT e)
  | e => e
def substTL : List Py → List Py
  | [] => []
  | e :: es => substT e :: substTL es
end

/-! ### Skeletons of the element kinds (parenthesis-free intended shapes) -/

def memoCall (n : String) (τ : Py) : Py := .call (.attr (.name "model") "memoize") [.str n, τ]

/-- `init if t <= model.starttime else model.memoize(n, t - model.dt) + model.dt * eq` -/
def stockSkel (n : String) (init eq : Py) : Py :=
  .ite init (.bin .le (.name "t") (.attr (.name "model") "starttime"))
    (.bin .add (memoCall n tMinusDt) (.bin .mul (.attr (.name "model") "dt") eq))

/-- stock without equation: `init if t <= model.starttime else model.memoize(n, t - model.dt)` -/
def stockSkel0 (n : String) (init : Py) : Py :=
  .ite init (.bin .le (.name "t") (.attr (.name "model") "starttime")) (memoCall n tMinusDt)

/-- `max(0, eq)` -/
def flowSkel (eq : Py) : Py := .call (.name "max") [.num "0", eq]

/-! ### `Model._lookup` on rationals: clamped piecewise-linear interpolation -/

/-- scipy `interp1d` (linear) between the bracketing points; points sorted by x, strictly increasing -/
def interp : List (Rat × Rat) → Rat → Rat
  | (x0, y0) :: (x1, y1) :: rest, x =>
    if x ≤ x1 then y0 + (y1 - y0) * ((x - x0) / (x1 - x0)) else interp ((x1, y1) :: rest) x
  | [(_, y0)], _ => y0
  | [], _ => 0

def lastY : List (Rat × Rat) → Rat
  | [] => 0
  | [(_, y)] => y
  | _ :: rest => lastY rest

def lastX : List (Rat × Rat) → Rat
  | [] => 0
  | [(x, _)] => x
  | _ :: rest => lastX rest

/-- `Model._lookup(x, points)` -/
def lookup (pts : List (Rat × Rat)) (x : Rat) : Rat :=
  match pts with
  | [] => 0
  | (x0, y0) :: _ =>
    if x ≤ x0 then y0
    else if x ≥ lastX pts then lastY pts
    else interp pts x

end Bptk.C01
