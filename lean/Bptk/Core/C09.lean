import Bptk.Core.C08
/-
C09 — the channels through which results of one SD scenario are obtained, as functions of one abstract
per-step simulator and the time grid: batch run (`run_scenarios`, formats df / dict / json), stepwise
session (`begin_session`, `run_step(settings?)`, `session_results(index_by_time, flat)`), REST
(`run`, `run-step`, `run-steps k`, `stream-steps`, `session-results`, `flat-session-results`).

Executable model; imports only `Bptk.Core.C08` (wave 2: the memo-level session below runs C08's `memoize`
model `evalK` step by step).  Times are grid indices (`t_k = start + k·dt`); labels are an abstract
type: `label k` is the k-th element of `timerange` (the batch index), `rawLabel k` is what k bare float
additions `step + dt` produce.  Settings `S`, values `V` and the simulator are abstract.
-/
namespace Bptk.C09

structure Cfg where
  /-- the session steps with the scenario's dt (pinned tree: with 1.0 whatever the scenario says) -/
  sessionDtFromScenario : Bool
  /-- `run_step` advances the clock to the normalised grid point (pinned tree: bare `step + dt`) -/
  stepClockNormalised : Bool
  /-- a step memoises *all* equations of the scenario at its time, so later settings cannot reach back
      (pinned tree: only the requested equations and what they happened to need) -/
  stepFinalisesAll : Bool
  /-- when not all: at least the stocks and flows of the scenario are evaluated at each step (a seeded
      defect: "the state equations carry the history"); irrelevant when `stepFinalisesAll` -/
  stepFinalisesState : Bool := true
  /-- REST `POST /run`: the scenario cache is reset for every scenario the request's `settings` name, whatever
      the settings contain (a seeded defect: only when they contain constants / points / properties / agents —
      settings that carry only `runspecs` keep the memoised values of the earlier run) -/
  runResetsOnAnySettings : Bool := true
  /-- `SdSimulation.change_equation` only rebinds the lambda; the values memoised for the changed equation at
      earlier times stay (a seeded defect: it also empties that equation's memo, so its history is lost) -/
  changeEquationKeepsMemo : Bool := true
  /-- a step's settings dictionary is applied key by key, every constant getting ITS value (a seeded defect: a
      bulk method builds the lambdas in a loop with a late-binding closure — all get the LAST value of the dict) -/
  settingsAppliedPerKey : Bool := true
  /-- `session_results(index_by_time=False)` (plain and flat; the GET endpoints) is rebuilt from the CURRENT session's
      results_log on every call (a seeded defect: the structure built so far is kept with the number of entries already
      sorted in, and `begin_session` — which replaces a running session — does not drop it) -/
  viewsDeriveFromCurrentLog : Bool := true
  /-- `begin_session` reads the session's grid (start, dt, stop) AFTER the run specs of the session settings were applied
      to the scenario (a seeded defect: the clock is read first, the settings are applied afterwards — the session walks the old grid) -/
  sessionClockFromAppliedSettings : Bool := true
  /-- `run_scenarios(return_format="df")` over several scenarios keeps the time grid of every scenario (outer join of the
      columns); the repaired defect: every column is aligned to the index of the first scenario -/
  dfKeepsEveryScenarioGrid : Bool := true
deriving DecidableEq, Repr

def Cfg.good (c : Cfg) : Bool :=
  c.sessionDtFromScenario && c.stepClockNormalised && c.stepFinalisesAll && c.runResetsOnAnySettings &&
    c.changeEquationKeepsMemo && c.settingsAppliedPerKey && c.viewsDeriveFromCurrentLog &&
    c.sessionClockFromAppliedSettings && c.dfKeepsEveryScenarioGrid

/-- The abstract simulator: `val f e k` is the value of equation `e` at grid index `k` when the
settings in force at grid index `i` are `f i`. -/
structure Sim (S V : Type) where
  merge : S → S → S
  val : (Nat → S) → Nat → Nat → V

structure Spec (L : Type) where
  n : Nat                      -- stop = t_n
  stride : Nat                 -- 1.0 / dt: grid points per unit of time (the pinned session advances by 1.0)
  label : Nat → L
  rawLabel : Nat → L

abbrev Row (L V : Type) := L × List V

/-! ### batch and its three formats -/

def batchVal {S V : Type} (sim : Sim S V) (base : S) (e k : Nat) : V := sim.val (fun _ => base) e k

/-- dataframe: one row per grid point, one column per requested equation -/
def batchDf {S V L : Type} (sim : Sim S V) (spec : Spec L) (base : S) (eqs : List Nat) : List (Row L V) :=
  (List.range (spec.n + 1)).map fun k => (spec.label k, eqs.map fun e => batchVal sim base e k)

/-- dict (and json = the same nesting after `to_dict`): per equation a series time → value -/
def batchDict {S V L : Type} (sim : Sim S V) (spec : Spec L) (base : S) (eqs : List Nat) :
    List (Nat × List (L × V)) :=
  eqs.map fun e => (e, (List.range (spec.n + 1)).map fun k => (spec.label k, batchVal sim base e k))

/-! ### the session -/

structure Sess (S L V : Type) where
  k : Nat                      -- session clock, in grid units
  steps : Nat                  -- number of clock advances so far
  acc : S                      -- settings applied so far (the live simulation's changed equations)
  hist : Nat → S               -- settings that the memoised values of grid index i were computed with
  log : List (Row L V)         -- results_log, oldest first

inductive Reply (L V : Type) where
  | row (r : Row L V)
  | stopped                    -- {"msg": "Stoptime reached"}

def mergeOpt {S V : Type} (sim : Sim S V) (a : S) : Option S → S
  | some x => sim.merge a x
  | none => a

def adv {L : Type} (c : Cfg) (spec : Spec L) : Nat := if c.sessionDtFromScenario then 1 else spec.stride

def lbl {L : Type} (c : Cfg) (spec : Spec L) (k : Nat) : L :=
  if c.stepClockNormalised then spec.label k else spec.rawLabel k

def begin {S L V : Type} (base : S) : Sess S L V :=
  { k := 0, steps := 0, acc := base, hist := fun _ => base, log := [] }

/-- `bptk.run_step(settings)`.  `lazy` = some equation influenced by the settings was not requested,
so that its value at the previous grid point has not been memoised yet. -/
def runStep {S L V : Type} (c : Cfg) (sim : Sim S V) (spec : Spec L) (eqs : List Nat) (lazy : Bool)
    (st : Sess S L V) (s : Option S) : Sess S L V × Reply L V :=
  if st.k > spec.n then (st, .stopped) else
  let acc' := mergeOpt sim st.acc s
  let frm := st.k - (if c.stepFinalisesAll || !lazy then adv c spec - 1 else adv c spec)
  let hist' : Nat → S := fun i => if i < frm then st.hist i else acc'
  let row : Row L V := (lbl c spec st.k, eqs.map fun e => sim.val hist' e st.k)
  ({ k := st.k + adv c spec, steps := st.steps + 1, acc := acc', hist := hist', log := st.log ++ [row] }, .row row)

/-- a list of single `run-step` requests, one settings body each -/
def runList {S L V : Type} (c : Cfg) (sim : Sim S V) (spec : Spec L) (eqs : List Nat) (lazy : Bool) :
    List (Option S) → Sess S L V → Sess S L V × List (Reply L V)
  | [], st => (st, [])
  | s :: ss, st =>
      let r := runStep c sim spec eqs lazy st s
      let rs := runList c sim spec eqs lazy ss r.1
      (rs.1, r.2 :: rs.2)

/-- `run-steps {numberSteps: m, settings}` -/
def runSteps {S L V : Type} (c : Cfg) (sim : Sim S V) (spec : Spec L) (eqs : List Nat) (lazy : Bool) :
    Nat → Sess S L V → Option S → Sess S L V × List (Reply L V)
  | 0, st, _ => (st, [])
  | m + 1, st, s =>
      let r := runStep c sim spec eqs lazy st s
      let rs := runSteps c sim spec eqs lazy m r.1 s
      (rs.1, r.2 :: rs.2)

/-- `stream-steps`: `while step <= stoptime: run_step(settings)`; `fuel` bounds the loop. -/
def stream {S L V : Type} (c : Cfg) (sim : Sim S V) (spec : Spec L) (eqs : List Nat) (lazy : Bool) :
    Nat → Sess S L V → Option S → Sess S L V × List (Reply L V)
  | 0, st, _ => (st, [])
  | f + 1, st, s =>
      if st.k > spec.n then (st, []) else
      let r := runStep c sim spec eqs lazy st s
      let rs := stream c sim spec eqs lazy f r.1 s
      (rs.1, r.2 :: rs.2)

inductive Call (S : Type) where
  | step (s : Option S)
  | steps (m : Nat) (s : Option S)
  | stream (s : Option S)

def call {S L V : Type} (c : Cfg) (sim : Sim S V) (spec : Spec L) (eqs : List Nat) (lazy : Bool)
    (st : Sess S L V) : Call S → Sess S L V × List (Reply L V)
  | .step s => runList c sim spec eqs lazy [s] st
  | .steps m s => runSteps c sim spec eqs lazy m st s
  | .stream s => stream c sim spec eqs lazy (spec.n + 1) st s

def calls {S L V : Type} (c : Cfg) (sim : Sim S V) (spec : Spec L) (eqs : List Nat) (lazy : Bool) :
    List (Call S) → Sess S L V → Sess S L V × List (Reply L V)
  | [], st => (st, [])
  | cl :: cs, st =>
      let r := call c sim spec eqs lazy st cl
      let rs := calls c sim spec eqs lazy cs r.1
      (rs.1, r.2 ++ rs.2)

/-- number of iterations of the streaming loop from clock `k` -/
def streamCount (n a : Nat) : Nat → Nat → Nat
  | 0, _ => 0
  | f + 1, k => if k > n then 0 else 1 + streamCount n a f (k + a)

/-- the clock after one / after `m` single steps (a step past the stop time does not advance) -/
def tick (n a k : Nat) : Nat := if k > n then k else k + a
def ticks (n a : Nat) : Nat → Nat → Nat
  | 0, k => k
  | m + 1, k => ticks n a m (tick n a k)

/-- the single-step requests a list of calls amounts to (depends on the clock only) -/
def expand {S L : Type} (c : Cfg) (spec : Spec L) : List (Call S) → Nat → List (Option S)
  | [], _ => []
  | .step s :: cs, k => [s] ++ expand c spec cs (ticks spec.n (adv c spec) 1 k)
  | .steps m s :: cs, k => List.replicate m s ++ expand c spec cs (ticks spec.n (adv c spec) m k)
  | .stream s :: cs, k =>
      List.replicate (streamCount spec.n (adv c spec) (spec.n + 1) k) s ++
        expand c spec cs (ticks spec.n (adv c spec) (streamCount spec.n (adv c spec) (spec.n + 1) k) k)

/-- `session_results(index_by_time=True)`: the log keyed by time -/
def resultsByTime {S L V : Type} (st : Sess S L V) : List (Row L V) := st.log

/-- `session_results(index_by_time=False, flat=False)`: per equation a series time → value -/
def resultsByEq {S L V : Type} (eqs : List Nat) (st : Sess S L V) : List (Nat × List (L × Option V)) :=
  eqs.zipIdx.map fun (e, i) => (e, st.log.map fun r => (r.1, r.2[i]?))

/-- `session_results(index_by_time=False, flat=True)`: per equation the list of values -/
def resultsFlat {S L V : Type} (eqs : List Nat) (st : Sess S L V) : List (Nat × List (Option V)) :=
  eqs.zipIdx.map fun (e, i) => (e, st.log.map fun r => r.2[i]?)

/-- settings in force at grid index `i` when the single steps carried the settings `ss` -/
def accAt {S V : Type} (sim : Sim S V) (base : S) (ss : List (Option S)) (i : Nat) : S :=
  (ss.take (i + 1)).foldl (mergeOpt sim) base

/-! ### Wave 2 — the session at memo level

`SdRunner.run_scenario_step` on the live `sd_simulation`: (1) `change_equation` for every constant of the
step's settings — the lambda is rebound, **the memo is not reset**; (2) the requested equations are
evaluated at the step's time through `Model.memoize` (C08's `evalK`); (3) finalisation: a set of
equations is evaluated at the step's time so that their values are memoised — **every equation of the
scenario** on the repaired tree (`FinSet.all`), only stocks and flows under a seeded defect
(`stateOnly`), none on the pinned tree (`requestedOnly`). -/

inductive FinSet where
  | all | stateOnly | requestedOnly
deriving DecidableEq, Repr

def finSet (c : Cfg) : FinSet :=
  if c.stepFinalisesAll then .all else if c.stepFinalisesState then .stateOnly else .requestedOnly

def finList (fs : FinSet) (nEq : Nat) (kind : Nat → C08.Kind) : List Nat :=
  match fs with
  | .all => List.range nEq
  | .stateOnly => (List.range nEq).filter fun n => kind n != .other
  | .requestedOnly => []

/-- evaluate equations at grid index `k` one after the other, threading the memo; `none` when an
evaluation does not return (fuel = recursion limit) -/
def evalList {α : Type} (ops : C08.Ops α) (body : Nat → C08.Expr α) (fuel k : Nat) :
    List Nat → C08.Memo α → Option (C08.Memo α × List α)
  | [], m => some (m, [])
  | e :: es, m =>
      match C08.evalK ops body fuel m (e, k) with
      | (m1, some v) =>
          (match evalList ops body fuel k es m1 with
           | some (m2, vs) => some (m2, v :: vs)
           | none => none)
      | (_, none) => none

/-- step settings: new values for constants (`change_equation(name, value)`) -/
abbrev CSet (α : Type) := List (Nat × α)

def applySet {α : Type} (body : Nat → C08.Expr α) (s : CSet α) : Nat → C08.Expr α :=
  s.foldl (fun b p => C08.updFn b p.1 (.lit p.2)) body

/-- the late-binding variant: every name of the dictionary is rebound to the value listed LAST -/
def applySetLast {α : Type} (body : Nat → C08.Expr α) (s : CSet α) : Nat → C08.Expr α :=
  match s.getLast? with
  | some last => s.foldl (fun b p => C08.updFn b p.1 (.lit last.2)) body
  | none => body

structure MSess (α : Type) where
  body : Nat → C08.Expr α        -- model.equations: the lambdas currently installed
  memo : C08.Memo α
  k : Nat                        -- session clock (grid index)
  log : List (List α)

def mbegin {α : Type} (body : Nat → C08.Expr α) : MSess α := { body := body, memo := [], k := 0, log := [] }

/-- the defective `change_equation`: the memo of every changed equation is emptied -/
def dropChanged {α : Type} (m : C08.Memo α) (s : CSet α) : C08.Memo α :=
  s.foldl (fun m p => C08.clearOwn m p.1) m

def mstep {α : Type} (fs : FinSet) (keep perKey : Bool) (nEq : Nat) (kind : Nat → C08.Kind) (ops : C08.Ops α) (fuel : Nat)
    (eqs : List Nat) (st : MSess α) (s : CSet α) : Option (MSess α) :=
  let body' := if perKey then applySet st.body s else applySetLast st.body s
  match evalList ops body' fuel st.k eqs (if keep then st.memo else dropChanged st.memo s) with
  | none => none
  | some (m1, row) =>
      match evalList ops body' fuel st.k (finList fs nEq kind) m1 with
      | none => none
      | some (m2, _) => some { body := body', memo := m2, k := st.k + 1, log := st.log ++ [row] }

def msteps {α : Type} (fs : FinSet) (keep perKey : Bool) (nEq : Nat) (kind : Nat → C08.Kind) (ops : C08.Ops α) (fuel : Nat)
    (eqs : List Nat) : List (CSet α) → MSess α → Option (MSess α)
  | [], st => some st
  | s :: ss, st =>
      match mstep fs keep perKey nEq kind ops fuel eqs st s with
      | some st1 => msteps fs keep perKey nEq kind ops fuel eqs ss st1
      | none => none

/-- the definitions in force at grid index `i` when the single steps carried the settings `ss` -/
def defsAt {α : Type} (base : Nat → C08.Expr α) (ss : List (CSet α)) (i : Nat) : Nat → C08.Expr α :=
  (ss.take (i + 1)).foldl applySet base

/-! ### Wave 3 — sequences of `POST /run` requests on ONE server

The server-level bptk object lives across requests: a scenario keeps the settings earlier requests gave it
and its model keeps the memo of earlier runs.  `C` = constants / points part of the settings, `R` = run specs.
A request either has no `settings` entry for the scenario (`none`: nothing is reset, nothing changes) or one
(`some`): `_run_resource` resets the scenario cache (mechanism fact `runResetsOnAnySettings`), writes the
settings into the scenario and runs it.  The memo is recorded as the list of settings under which its
entries were computed (`gens`); what a run returns is an uninterpreted function of that and of the current
settings. -/

structure RunSet (C R : Type) where
  consts : Option C
  rs : Option R

structure RunSim (C R Out : Type) where
  mergeC : C → C → C
  mergeR : R → R → R
  result : List (C × R) → C × R → Out

structure RunSt (C R : Type) where
  cur : C × R
  gens : List (C × R)

def applyReq {C R Out : Type} (sim : RunSim C R Out) (cur : C × R) : Option (RunSet C R) → C × R
  | none => cur
  | some q => ((match q.consts with | some x => sim.mergeC cur.1 x | none => cur.1),
               (match q.rs with | some x => sim.mergeR cur.2 x | none => cur.2))

def rstep {C R Out : Type} (c : Cfg) (sim : RunSim C R Out) (st : RunSt C R) (req : Option (RunSet C R)) :
    RunSt C R × Out :=
  let reset := match req with
    | none => false
    | some q => c.runResetsOnAnySettings || q.consts.isSome
  let gens := if reset then [] else st.gens
  let cur := applyReq sim st.cur req
  ({ cur := cur, gens := gens ++ [cur] }, sim.result gens cur)

def rruns {C R Out : Type} (c : Cfg) (sim : RunSim C R Out) : List (Option (RunSet C R)) → RunSt C R → List Out
  | [], _ => []
  | q :: qs, st => (rstep c sim st q).2 :: rruns c sim qs (rstep c sim st q).1

/-- what the property demands: every reply is the batch run of a freshly built model (empty memo) carrying the
settings accumulated so far -/
def idealRuns {C R Out : Type} (sim : RunSim C R Out) : List (Option (RunSet C R)) → C × R → List Out
  | [], _ => []
  | q :: qs, cur => sim.result [] (applyReq sim cur q) :: idealRuns sim qs (applyReq sim cur q)

/-! ### Wave 9 — the by-equation views over session lifecycles on one object

`log` = `session_state["results_log"]` of the current session; `seen` / `kept` = the incremental view cache of the
defective variant (entries already sorted in, and the rows they came from).  A read returns the rows that the
by-equation / flat view regroups (`resultsByEq`, `resultsFlat` are pure functions of these rows). -/

structure VState (L V : Type) where
  log : List (Row L V)
  seen : Nat
  kept : List (Row L V)

inductive VOp (L V : Type) where
  | begin                    -- begin_session: replaces whatever session is running
  | step (r : Row L V)       -- a step appends its row to the log
  | read                     -- session_results(index_by_time=False[, flat]) / GET session-results
  | endS                     -- end_session

def vstep {L V : Type} (c : Cfg) (st : VState L V) : VOp L V → VState L V × Option (List (Row L V))
  | .begin => ({ log := [], seen := if c.viewsDeriveFromCurrentLog then 0 else st.seen,
                 kept := if c.viewsDeriveFromCurrentLog then [] else st.kept }, none)
  | .step r => ({ st with log := st.log ++ [r] }, none)
  | .read =>
      if c.viewsDeriveFromCurrentLog then (st, some st.log)
      else
        let new := st.log.drop st.seen
        ({ st with seen := st.seen + new.length, kept := st.kept ++ new }, some (st.kept ++ new))
  | .endS => ({ log := [], seen := 0, kept := [] }, none)

def vreads {L V : Type} (c : Cfg) : List (VOp L V) → VState L V → List (List (Row L V))
  | [], _ => []
  | op :: ops, st =>
      match (vstep c st op).2 with
      | some rows => rows :: vreads c ops (vstep c st op).1
      | none => vreads c ops (vstep c st op).1

/-- what the property demands of every read: the rows of the current session, nothing else -/
def idealReads {L V : Type} : List (VOp L V) → List (Row L V) → List (List (Row L V))
  | [], _ => []
  | .begin :: ops, _ => idealReads ops []
  | .step r :: ops, log => idealReads ops (log ++ [r])
  | .read :: ops, log => log :: idealReads ops log
  | .endS :: ops, _ => idealReads ops []

/-! ### Wave 11 — the session's grid after its settings; the dataframe over several scenarios -/

/-- the grid a session walks: `old` = the scenario's run specs when `begin_session` is entered, `new` = after the run specs of
the session settings were applied -/
def beginSpec {L : Type} (c : Cfg) (old new : Spec L) : Spec L :=
  if c.sessionClockFromAppliedSettings then new else old

/-- one scenario's series of a batch run for a fixed equation: (time, value) on ITS grid -/
abbrev Series (V : Type) := List (Nat × V)

def cellOf {V : Type} (s : Series V) (t : Nat) : Option V :=
  match s with
  | [] => none
  | (t', v) :: r => if t' = t then some v else cellOf r t

/-- the dict / json format: per scenario its own series -/
def dictCell {V : Type} (ss : List (Series V)) (i t : Nat) : Option V := (ss[i]?).bind (fun s => cellOf s t)

/-- the dataframe: one index for all columns -/
def dfIndex {V : Type} (c : Cfg) (ss : List (Series V)) : List Nat :=
  if c.dfKeepsEveryScenarioGrid then ss.flatMap (fun s => s.map (·.1))
  else match ss with
    | [] => []
    | s :: _ => s.map (·.1)

def dfCell {V : Type} (c : Cfg) (ss : List (Series V)) (i t : Nat) : Option V :=
  if t ∈ dfIndex c ss then dictCell ss i t else none

end Bptk.C09
