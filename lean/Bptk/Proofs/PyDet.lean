import Bptk.Proofs.PySound
/-!
Determinism of the parsing relation: a token string has at most one parse.  Together with
`parse_sound` this makes the executable parser's answer THE parse, and it strengthens the round trip:
every parse of the rendered text is the intended tree.
-/
namespace Bptk.Py
open Tok

theorem noClosePre (m : Nat) (ts : List Tok) (e : Py) (r : List Tok) (t : Tok)
    (ht : t = rp ∨ t = rb ∨ t = comma ∨ t = assign) (h : PPre m (t :: ts) e r) : False := by
  rcases ht with rfl | rfl | rfl | rfl <;> cases h

theorem noCloseExpr (m : Nat) (ts : List Tok) (e : Py) (r : List Tok) (t : Tok)
    (ht : t = rp ∨ t = rb ∨ t = comma ∨ t = assign) (h : PExpr m (t :: ts) e r) : False := by
  cases h with
  | mk hp _ => exact noClosePre _ _ _ _ t ht hp

theorem noCloseArgs (close : Tok) (ts : List Tok) (es : List Py) (r : List Tok) (t : Tok)
    (ht : t = rp ∨ t = rb ∨ t = comma ∨ t = assign) (h : PArgs close (t :: ts) es r) : False := by
  cases h with
  | last ha =>
    cases ha with
    | kw _ => rcases ht with h | h | h | h <;> cases h
    | pos he => exact noCloseExpr _ _ _ _ t ht he
  | more ha _ =>
    cases ha with
    | kw _ => rcases ht with h | h | h | h <;> cases h
    | pos he => exact noCloseExpr _ _ _ _ t ht he

/-- a positional parse of `name = …` can only be the bare name, stopping in front of `=` -/
theorem kwStart_inv (n : String) (ts : List Tok) (e : Py) (r : List Tok)
    (h : PExpr 0 (Tok.name n :: assign :: ts) e r) : r = assign :: ts := by
  cases h with
  | mk hp hl =>
    cases hp with
    | name hq =>
      cases hq with
      | done _ =>
        cases hl with
        | stop _ => rfl

/-- the remainder after an argument starts with the closing token or a comma -/
def headOK (close : Tok) : List Tok → Prop
  | t :: _ => t = close ∨ t = comma
  | [] => False

mutual
theorem detE {m ts e r e' r'} (h1 : PExpr m ts e r) (h2 : PExpr m ts e' r') : e = e' ∧ r = r' := by
  match h1 with
  | .mk hp hl =>
    cases h2 with
    | mk hp' hl' =>
      obtain ⟨rfl, rfl⟩ := detP hp hp'
      exact detL hl hl'
  termination_by structural h1
theorem detL {m acc ts e r e' r'} (h1 : PLoop m acc ts e r) (h2 : PLoop m acc ts e' r') : e = e' ∧ r = r' := by
  match h1 with
  | .stop hs =>
    cases h2 with
    | stop _ => exact ⟨rfl, rfl⟩
    | step hb _ _ => simp only [stops] at hs; omega
    | cond _ _ _ => simp [stops] at hs
  | .step hb he hl =>
    cases h2 with
    | stop hs => simp only [stops] at hs; omega
    | step hb' he' hl' =>
      obtain ⟨rfl, rfl⟩ := detE he he'
      exact detL hl hl'
  | .cond hc hy hl =>
    cases h2 with
    | stop hs => simp [stops] at hs
    | cond hc' hy' hl' =>
      obtain ⟨rfl, h⟩ := detE hc hc'
      simp only [List.cons.injEq, true_and] at h
      subst h
      obtain ⟨rfl, rfl⟩ := detE hy hy'
      exact detL hl hl'
  termination_by structural h1
theorem detP {m ts e r e' r'} (h1 : PPre m ts e r) (h2 : PPre m ts e' r') : e = e' ∧ r = r' := by
  match h1 with
  | .neg _ he =>
    cases h2 with
    | neg _ he' => obtain ⟨rfl, rfl⟩ := detE he he'; exact ⟨rfl, rfl⟩
  | .not _ he =>
    cases h2 with
    | not _ he' => obtain ⟨rfl, rfl⟩ := detE he he'; exact ⟨rfl, rfl⟩
  | .num hq => cases h2 with | num hq' => exact detQ hq hq'
  | .name hq => cases h2 with | name hq' => exact detQ hq hq'
  | .str hq => cases h2 with | str hq' => exact detQ hq hq'
  | .hole hq => cases h2 with | hole hq' => exact detQ hq hq'
  | .paren he hq =>
    cases h2 with
    | paren he' hq' =>
      obtain ⟨rfl, h⟩ := detE he he'
      simp only [List.cons.injEq, true_and] at h
      subst h
      exact detQ hq hq'
  | .list0 hq =>
    cases h2 with
    | list0 hq' => exact detQ hq hq'
    | list ha _ => exact (noCloseArgs _ _ _ _ rb (by simp) ha).elim
  | .list ha hq =>
    cases h2 with
    | list0 _ => exact (noCloseArgs _ _ _ _ rb (by simp) ha).elim
    | list ha' hq' =>
      obtain ⟨h, rfl⟩ := detAs (Or.inr rfl) ha ha'
      cases h
      exact detQ hq hq'
  termination_by structural h1
theorem detQ {acc ts e r e' r'} (h1 : PPost acc ts e r) (h2 : PPost acc ts e' r') : e = e' ∧ r = r' := by
  match h1 with
  | .done hnp =>
    cases h2 with
    | done _ => exact ⟨rfl, rfl⟩
    | attr _ => simp [isPostfixStart] at hnp
    | call0 _ => simp [isPostfixStart] at hnp
    | call _ _ => simp [isPostfixStart] at hnp
    | index _ _ => simp [isPostfixStart] at hnp
  | .attr hq =>
    cases h2 with
    | done hnp => simp [isPostfixStart] at hnp
    | attr hq' => exact detQ hq hq'
  | .call0 hq =>
    cases h2 with
    | done hnp => simp [isPostfixStart] at hnp
    | call0 hq' => exact detQ hq hq'
    | call ha _ => exact (noCloseArgs _ _ _ _ rp (by simp) ha).elim
  | .call ha hq =>
    cases h2 with
    | done hnp => simp [isPostfixStart] at hnp
    | call0 _ => exact (noCloseArgs _ _ _ _ rp (by simp) ha).elim
    | call ha' hq' =>
      obtain ⟨h, rfl⟩ := detAs (Or.inl rfl) ha ha'
      cases h
      exact detQ hq hq'
  | .index he hq =>
    cases h2 with
    | done hnp => simp [isPostfixStart] at hnp
    | index he' hq' =>
      obtain ⟨rfl, h⟩ := detE he he'
      simp only [List.cons.injEq, true_and] at h
      subst h
      exact detQ hq hq'
  termination_by structural h1
theorem detA {close ts e rest e' rest'} (hc : close = rp ∨ close = rb) (h1 : PArg close ts e rest)
    (h2 : PArg close ts e' rest') (ht : headOK close rest) (ht' : headOK close rest') :
    e = e' ∧ rest = rest' := by
  match h1 with
  | .kw he =>
    cases h2 with
    | kw he' => obtain ⟨rfl, h⟩ := detE he he'; exact ⟨rfl, h⟩
    | pos hp =>
      have := kwStart_inv _ _ _ _ hp
      subst this
      simp only [headOK] at ht'
      rcases ht' with h | h <;> rcases hc with h' | h' <;> simp [h'] at h
  | .pos hp =>
    cases h2 with
    | kw _ =>
      have := kwStart_inv _ _ _ _ hp
      subst this
      simp only [headOK] at ht
      rcases ht with h | h <;> simp at h
    | pos hp' => exact detE hp hp'
  termination_by structural h1
theorem detAs {close ts es r es' r'} (hc : close = rp ∨ close = rb) (h1 : PArgs close ts es r)
    (h2 : PArgs close ts es' r') : es = es' ∧ r = r' := by
  match h1 with
  | .last ha =>
    cases h2 with
    | last ha' =>
      obtain ⟨rfl, h⟩ := detA hc ha ha' (by simp [headOK]) (by simp [headOK])
      simp only [List.cons.injEq, true_and] at h
      exact ⟨rfl, h⟩
    | more ha' _ =>
      obtain ⟨_, h⟩ := detA hc ha ha' (by simp [headOK]) (by simp [headOK])
      simp only [List.cons.injEq] at h
      rcases hc with rfl | rfl <;> simp at h
  | .more ha hr =>
    cases h2 with
    | last ha' =>
      obtain ⟨_, h⟩ := detA hc ha ha' (by simp [headOK]) (by simp [headOK])
      simp only [List.cons.injEq] at h
      rcases hc with rfl | rfl <;> simp at h
    | more ha' hr' =>
      obtain ⟨rfl, h⟩ := detA hc ha ha' (by simp [headOK]) (by simp [headOK])
      simp only [List.cons.injEq, true_and] at h
      subst h
      obtain ⟨rfl, rfl⟩ := detAs hc hr hr'
      exact ⟨rfl, rfl⟩
  termination_by structural h1
end

/-- **Determinism**: a token string has at most one parse. -/
theorem parses_unique (ts : List Tok) (e e' : Py) (h : Parses ts e) (h' : Parses ts e') : e = e' :=
  (detE h h').1

/-- every parse of the rendered text of a tree over an OK table is the tree with operands as units;
in particular the executable parser (validated against CPython) returns exactly `denote`. -/
theorem render_parse_unique (L : Nat) (hL : L ≤ 100) (T : Table) (hT : tableOK L T = true) (e : E)
    (he : E.ok T L e = true) (p : Py) (hp : Parses (render T e) p) : p = denote T e :=
  parses_unique _ _ _ hp (render_parses L hL T hT e he)

theorem parse_render (L : Nat) (hL : L ≤ 100) (T : Table) (hT : tableOK L T = true) (e : E)
    (he : E.ok T L e = true) (p : Py) (hp : parse (render T e) = some p) : p = denote T e :=
  render_parse_unique L hL T hT e he p (parse_sound _ _ hp)

#print axioms parses_unique
#print axioms parse_render

end Bptk.Py
