import Bptk.Proofs.PyFrag
/-!
Soundness of the executable parser with respect to the parsing relation: whatever `parse` returns is a
derivation of `Parses`.  The executable parser is the one that is differentially validated against
CPython's `ast.parse` on every run; this theorem carries that validation over to the relation the
round-trip theorems speak about.
-/
namespace Bptk.Py
open Tok

theorem stops_default (m : Nat) (ts : List Tok)
    (h1 : ∀ k r, ts ≠ op k :: r) (h2 : ∀ r, ts ≠ kif :: r) : stops m ts := by
  cases ts with
  | nil => trivial
  | cons t r =>
    cases t <;> simp [stops]
    · rename_i k; exact absurd rfl (h1 k r)
    · exact absurd rfl (h2 r)

theorem parse_sound_aux : ∀ fuel : Nat,
    (∀ m ts e r, parseExpr fuel m ts = some (e, r) → PExpr m ts e r) ∧
    (∀ m ts e r, parsePre fuel m ts = some (e, r) → PPre m ts e r) ∧
    (∀ acc ts e r, parsePost fuel acc ts = some (e, r) → PPost acc ts e r) ∧
    (∀ close ts es r, parseArgs fuel close ts = some (es, r) → es ≠ [] ∧ PArgs close ts es r) ∧
    (∀ m acc ts e r, parseLoop fuel m acc ts = some (e, r) → PLoop m acc ts e r) := by
  intro fuel
  induction fuel with
  | zero =>
    refine ⟨?_, ?_, ?_, ?_, ?_⟩ <;> intros <;> simp_all [parseExpr, parsePre, parsePost, parseArgs, parseLoop]
  | succ fuel ih =>
    obtain ⟨ihE, ihP, ihQ, ihA, ihL⟩ := ih
    refine ⟨?_, ?_, ?_, ?_, ?_⟩
    · -- parseExpr
      intro m ts e r h
      simp only [parseExpr] at h
      split at h
      · simp at h
      · rename_i l ts' hp
        exact PExpr.mk (ihP m ts l ts' hp) (ihL m l ts' e r h)
    · -- parsePre
      intro m ts e r h
      simp only [parsePre] at h
      split at h
      · -- unary minus
        split at h
        · rename_i hm
          split at h
          · rename_i e0 r0 he
            simp only [Option.some.injEq, Prod.mk.injEq] at h
            obtain ⟨rfl, rfl⟩ := h
            exact PPre.neg hm (ihE 7 _ e0 r0 he)
          · simp at h
        · simp at h
      · -- not
        split at h
        · rename_i hm
          split at h
          · rename_i e0 r0 he
            simp only [Option.some.injEq, Prod.mk.injEq] at h
            obtain ⟨rfl, rfl⟩ := h
            exact PPre.not hm (ihE 3 _ e0 r0 he)
          · simp at h
        · simp at h
      · exact PPre.num (ihQ _ _ e r h)
      · exact PPre.name (ihQ _ _ e r h)
      · exact PPre.str (ihQ _ _ e r h)
      · exact PPre.hole (ihQ _ _ e r h)
      · -- parenthesis
        split at h
        · rename_i e0 r0 he
          exact PPre.paren (ihE 0 _ e0 (rp :: r0) he) (ihQ _ _ e r h)
        · simp at h
      · exact PPre.list0 (ihQ _ _ e r h)
      · -- list display
        split at h
        · rename_i es r0 ha
          obtain ⟨hne, hA⟩ := ihA rb _ es r0 ha
          cases es with
          | nil => exact absurd rfl hne
          | cons a as => exact PPre.list hA (ihQ _ _ e r h)
        · simp at h
      · simp at h
    · -- parsePost
      intro acc ts e r h
      simp only [parsePost] at h
      split at h
      · exact PPost.attr (ihQ _ _ e r h)
      · exact PPost.call0 (ihQ _ _ e r h)
      · split at h
        · rename_i es r0 ha
          obtain ⟨hne, hA⟩ := ihA rp _ es r0 ha
          cases es with
          | nil => exact absurd rfl hne
          | cons a as => exact PPost.call hA (ihQ _ _ e r h)
        · simp at h
      · split at h
        · rename_i i r0 he
          exact PPost.index (ihE 0 _ i (rb :: r0) he) (ihQ _ _ e r h)
        · simp at h
      · simp at h
      · rename_i h1 h2 h3 h4 h5
        simp only [Option.some.injEq, Prod.mk.injEq] at h
        obtain ⟨rfl, rfl⟩ := h
        apply PPost.done
        cases ts with
        | nil => rfl
        | cons t rest =>
          cases t <;> simp [isPostfixStart]
          · -- lp
            cases rest with
            | nil => exact absurd rfl (h3 [])
            | cons t2 rest2 => exact absurd rfl (h3 (t2 :: rest2))
          · exact absurd rfl (h4 rest)
          · exact absurd rfl (h5 rest)
    · -- parseArgs
      intro close ts es r h
      simp only [parseArgs] at h
      split at h
      · rename_i e0 t r0 hone
        -- `one` succeeded with (e0, t :: r0)
        have harg : PArg close ts e0 (t :: r0) := by
          split at hone
          · rename_i n ts'
            split at hone
            · rename_i hc
              split at hone
              · rename_i e1 r1 he
                simp only [Option.some.injEq, Prod.mk.injEq] at hone
                obtain ⟨rfl, rfl⟩ := hone
                subst hc
                exact PArg.kw (ihE 0 _ e1 _ he)
              · simp at hone
            · simp at hone
          · exact PArg.pos (ihE 0 _ e0 _ hone)
        split at h
        · rename_i hc
          simp only [Option.some.injEq, Prod.mk.injEq] at h
          obtain ⟨rfl, rfl⟩ := h
          subst hc
          exact ⟨by simp, PArgs.last harg⟩
        · split at h
          · rename_i hcomma
            split at h
            · rename_i es' r' ha
              simp only [Option.some.injEq, Prod.mk.injEq] at h
              obtain ⟨rfl, rfl⟩ := h
              subst hcomma
              exact ⟨by simp, PArgs.more harg (ihA close _ es' r' ha).2⟩
            · simp at h
          · simp at h
      · simp at h
    · -- parseLoop
      intro m acc ts e r h
      simp only [parseLoop] at h
      split at h
      · rename_i k ts'
        split at h
        · rename_i hb
          split at h
          · rename_i r0 ts'' he
            exact PLoop.step hb (ihE _ _ r0 ts'' he) (ihL _ _ _ e r h)
          · simp at h
        · rename_i hb
          simp only [Option.some.injEq, Prod.mk.injEq] at h
          obtain ⟨rfl, rfl⟩ := h
          exact PLoop.stop (by simp only [stops]; omega)
      · rename_i ts'
        split at h
        · rename_i hm
          subst hm
          split at h
          · rename_i c ts'' hc
            split at h
            · rename_i y ts''' hy
              exact PLoop.cond (ihE 1 _ c _ hc) (ihE 0 _ y ts''' hy) (ihL _ _ _ e r h)
            · simp at h
          · simp at h
        · rename_i hm
          simp only [Option.some.injEq, Prod.mk.injEq] at h
          obtain ⟨rfl, rfl⟩ := h
          exact PLoop.stop (by simp only [stops]; omega)
      · rename_i h1 h2
        simp only [Option.some.injEq, Prod.mk.injEq] at h
        obtain ⟨rfl, rfl⟩ := h
        exact PLoop.stop (stops_default m _ h1 h2)

/-- **Soundness of the executable parser**: a successful `parse` is a derivation of the relation. -/
theorem parse_sound (ts : List Tok) (e : Py) (h : parse ts = some e) : Parses ts e := by
  unfold parse at h
  split at h
  · rename_i e0 he
    simp only [Option.some.injEq] at h
    subst h
    exact (parse_sound_aux _).1 0 ts e0 [] he
  · simp at h

#print axioms parse_sound

end Bptk.Py
