import Bptk.Proofs.PyDet
/-!
Completeness of the executable (fuelled) parser with respect to the parsing relation, with an explicit fuel
bound: a derivation that consumes `n` tokens is found by `parseExpr` with fuel `2·n + 2` (`parsePre`,
`parsePost`, `parseLoop`, `parseArgs`: `2·n + 1`), hence by every larger fuel.  `parse` runs with fuel
`4·length + 8`, so `Parses ts e → parse ts = some e`: together with `parse_sound` the executable parser —
the one validated against CPython's `ast.parse` on every run — decides the relation, and
`parse (render T e) = some (denote T e)` holds unconditionally for tables satisfying `tableOK`.
-/
namespace Bptk.Py
open Tok

/-- a positional argument followed by the closing token or a comma does not start with `name =` -/
theorem pos_not_kw {close : Tok} {ts : List Tok} {e : Py} {t : Tok} {rest : List Tok}
    (hc : close = rp ∨ close = rb) (ht : t = close ∨ t = comma) (hp : PExpr 0 ts e (t :: rest)) :
    ∀ (n : String) (ts' : List Tok), ts = name n :: assign :: ts' → False := by
  intro n ts' h0
  subst h0
  have := kwStart_inv _ _ _ _ hp
  simp only [List.cons.injEq] at this
  obtain ⟨h1, _⟩ := this
  subst h1
  rcases ht with h | h <;> rcases hc with h' | h' <;> simp [h'] at h

mutual
theorem compE {m ts e r} (h : PExpr m ts e r) :
    r.length < ts.length ∧ ∀ f, 2 * ts.length + 2 ≤ f + 2 * r.length → parseExpr f m ts = some (e, r) := by
  match h with
  | .mk hp hl =>
    obtain ⟨l1, ihp⟩ := compP hp
    obtain ⟨l2, ihl⟩ := compL hl
    refine ⟨by omega, fun f hf => ?_⟩
    obtain ⟨f', rfl⟩ : ∃ f', f = f' + 1 := ⟨f - 1, by omega⟩
    simp only [parseExpr, ihp f' (by omega)]
    exact ihl f' (by omega)
  termination_by structural h
theorem compL {m acc ts e r} (h : PLoop m acc ts e r) :
    r.length ≤ ts.length ∧ ∀ f, 2 * ts.length + 1 ≤ f + 2 * r.length → parseLoop f m acc ts = some (e, r) := by
  match h with
  | .stop hs =>
    refine ⟨Nat.le_refl _, fun f hf => ?_⟩
    obtain ⟨f', rfl⟩ : ∃ f', f = f' + 1 := ⟨f - 1, by omega⟩
    cases ts with
    | nil => simp [parseLoop]
    | cons t rest =>
      cases t <;> simp_all [parseLoop, stops]
      all_goals first | omega | (intro h0; omega)
  | .step hb he hl =>
    obtain ⟨l1, ihe⟩ := compE he
    obtain ⟨l2, ihl⟩ := compL hl
    simp only [List.length_cons] at *
    refine ⟨by omega, fun f hf => ?_⟩
    obtain ⟨f', rfl⟩ : ∃ f', f = f' + 1 := ⟨f - 1, by omega⟩
    simp only [parseLoop, hb, if_true, ihe f' (by omega)]
    exact ihl f' (by omega)
  | .cond hc hy hl =>
    obtain ⟨l1, ihc⟩ := compE hc
    obtain ⟨l2, ihy⟩ := compE hy
    obtain ⟨l3, ihl⟩ := compL hl
    simp only [List.length_cons] at *
    refine ⟨by omega, fun f hf => ?_⟩
    obtain ⟨f', rfl⟩ : ∃ f', f = f' + 1 := ⟨f - 1, by omega⟩
    simp only [parseLoop, if_true, ihc f' (by omega), ihy f' (by omega)]
    exact ihl f' (by omega)
  termination_by structural h
theorem compP {m ts e r} (h : PPre m ts e r) :
    r.length < ts.length ∧ ∀ f, 2 * ts.length + 1 ≤ f + 2 * r.length → parsePre f m ts = some (e, r) := by
  match h with
  | .neg hm he =>
    obtain ⟨l1, ihe⟩ := compE he
    simp only [List.length_cons] at *
    refine ⟨by omega, fun f hf => ?_⟩
    obtain ⟨f', rfl⟩ : ∃ f', f = f' + 1 := ⟨f - 1, by omega⟩
    simp only [parsePre, hm, if_true, ihe f' (by omega)]
  | .not hm he =>
    obtain ⟨l1, ihe⟩ := compE he
    simp only [List.length_cons] at *
    refine ⟨by omega, fun f hf => ?_⟩
    obtain ⟨f', rfl⟩ : ∃ f', f = f' + 1 := ⟨f - 1, by omega⟩
    simp only [parsePre, hm, if_true, ihe f' (by omega)]
  | .num hq =>
    obtain ⟨l1, ihq⟩ := compQ hq
    simp only [List.length_cons] at *
    refine ⟨by omega, fun f hf => ?_⟩
    obtain ⟨f', rfl⟩ : ∃ f', f = f' + 1 := ⟨f - 1, by omega⟩
    simp only [parsePre]; exact ihq f' (by omega)
  | .name hq =>
    obtain ⟨l1, ihq⟩ := compQ hq
    simp only [List.length_cons] at *
    refine ⟨by omega, fun f hf => ?_⟩
    obtain ⟨f', rfl⟩ : ∃ f', f = f' + 1 := ⟨f - 1, by omega⟩
    simp only [parsePre]; exact ihq f' (by omega)
  | .str hq =>
    obtain ⟨l1, ihq⟩ := compQ hq
    simp only [List.length_cons] at *
    refine ⟨by omega, fun f hf => ?_⟩
    obtain ⟨f', rfl⟩ : ∃ f', f = f' + 1 := ⟨f - 1, by omega⟩
    simp only [parsePre]; exact ihq f' (by omega)
  | .hole hq =>
    obtain ⟨l1, ihq⟩ := compQ hq
    simp only [List.length_cons] at *
    refine ⟨by omega, fun f hf => ?_⟩
    obtain ⟨f', rfl⟩ : ∃ f', f = f' + 1 := ⟨f - 1, by omega⟩
    simp only [parsePre]; exact ihq f' (by omega)
  | .paren he hq =>
    obtain ⟨l1, ihe⟩ := compE he
    obtain ⟨l2, ihq⟩ := compQ hq
    simp only [List.length_cons] at *
    refine ⟨by omega, fun f hf => ?_⟩
    obtain ⟨f', rfl⟩ : ∃ f', f = f' + 1 := ⟨f - 1, by omega⟩
    simp only [parsePre, ihe f' (by omega)]
    exact ihq f' (by omega)
  | .list0 hq =>
    obtain ⟨l1, ihq⟩ := compQ hq
    simp only [List.length_cons] at *
    refine ⟨by omega, fun f hf => ?_⟩
    obtain ⟨f', rfl⟩ : ∃ f', f = f' + 1 := ⟨f - 1, by omega⟩
    simp only [parsePre]; exact ihq f' (by omega)
  | .list (ts := ts0) ha hq =>
    obtain ⟨l1, iha⟩ := compAs (Or.inr rfl) ha
    obtain ⟨l2, ihq⟩ := compQ hq
    simp only [List.length_cons] at *
    refine ⟨by omega, fun f hf => ?_⟩
    obtain ⟨f', rfl⟩ : ∃ f', f = f' + 1 := ⟨f - 1, by omega⟩
    have hne : ∀ r0, ts0 ≠ rb :: r0 := fun r0 h0 => by
      subst h0; exact noCloseArgs _ _ _ _ rb (by simp) ha
    have hstep : parsePre (f' + 1) m (lb :: ts0) =
        match parseArgs f' rb ts0 with
        | some (es, r) => parsePost f' (.list es) r
        | none => none := by
      cases ts0 with
      | nil => simp at l1
      | cons t r0 =>
        cases t <;> first | exact absurd rfl (hne r0) | rfl
    rw [hstep, iha f' (by omega)]
    exact ihq f' (by omega)
  termination_by structural h
theorem compQ {acc ts e r} (h : PPost acc ts e r) :
    r.length ≤ ts.length ∧ ∀ f, 2 * ts.length + 1 ≤ f + 2 * r.length → parsePost f acc ts = some (e, r) := by
  match h with
  | .done hnp =>
    refine ⟨Nat.le_refl _, fun f hf => ?_⟩
    obtain ⟨f', rfl⟩ : ∃ f', f = f' + 1 := ⟨f - 1, by omega⟩
    cases ts with
    | nil => simp only [parsePost]
    | cons t rest =>
      cases t <;> first | rfl | simp [isPostfixStart] at hnp
  | .attr hq =>
    obtain ⟨l1, ihq⟩ := compQ hq
    simp only [List.length_cons] at *
    refine ⟨by omega, fun f hf => ?_⟩
    obtain ⟨f', rfl⟩ : ∃ f', f = f' + 1 := ⟨f - 1, by omega⟩
    simp only [parsePost]; exact ihq f' (by omega)
  | .call0 hq =>
    obtain ⟨l1, ihq⟩ := compQ hq
    simp only [List.length_cons] at *
    refine ⟨by omega, fun f hf => ?_⟩
    obtain ⟨f', rfl⟩ : ∃ f', f = f' + 1 := ⟨f - 1, by omega⟩
    simp only [parsePost]; exact ihq f' (by omega)
  | .call (ts := ts0) ha hq =>
    obtain ⟨l1, iha⟩ := compAs (Or.inl rfl) ha
    obtain ⟨l2, ihq⟩ := compQ hq
    simp only [List.length_cons] at *
    refine ⟨by omega, fun f hf => ?_⟩
    obtain ⟨f', rfl⟩ : ∃ f', f = f' + 1 := ⟨f - 1, by omega⟩
    have hne : ∀ r0, ts0 ≠ rp :: r0 := fun r0 h0 => by
      subst h0; exact noCloseArgs _ _ _ _ rp (by simp) ha
    have hstep : parsePost (f' + 1) acc (lp :: ts0) =
        match parseArgs f' rp ts0 with
        | some (es, r) => parsePost f' (.call acc es) r
        | none => none := by
      cases ts0 with
      | nil => simp at l1
      | cons t r0 =>
        cases t <;> first | exact absurd rfl (hne r0) | rfl
    rw [hstep, iha f' (by omega)]
    exact ihq f' (by omega)
  | .index he hq =>
    obtain ⟨l1, ihe⟩ := compE he
    obtain ⟨l2, ihq⟩ := compQ hq
    simp only [List.length_cons] at *
    refine ⟨by omega, fun f hf => ?_⟩
    obtain ⟨f', rfl⟩ : ∃ f', f = f' + 1 := ⟨f - 1, by omega⟩
    simp only [parsePost, ihe f' (by omega)]
    exact ihq f' (by omega)
  termination_by structural h
theorem compAs {close ts es r} (hc : close = rp ∨ close = rb) (h : PArgs close ts es r) :
    r.length < ts.length ∧ ∀ f, 2 * ts.length + 1 ≤ f + 2 * r.length → parseArgs f close ts = some (es, r) := by
  match h with
  | .last (.kw he) =>
    obtain ⟨l1, ihe⟩ := compE he
    simp only [List.length_cons] at *
    refine ⟨by omega, fun f hf => ?_⟩
    obtain ⟨f', rfl⟩ : ∃ f', f = f' + 1 := ⟨f - 1, by omega⟩
    rw [parseArgs.eq_2]
    simp [ihe f' (by omega)]
  | .last (.pos hp) =>
    obtain ⟨l1, ihe⟩ := compE hp
    simp only [List.length_cons] at *
    refine ⟨by omega, fun f hf => ?_⟩
    obtain ⟨f', rfl⟩ : ∃ f', f = f' + 1 := ⟨f - 1, by omega⟩
    rw [parseArgs.eq_3 _ _ _ (pos_not_kw hc (Or.inl rfl) hp), ihe f' (by omega)]
    simp
  | .more (.kw he) hr =>
    obtain ⟨l1, ihe⟩ := compE he
    obtain ⟨l2, ihr⟩ := compAs hc hr
    simp only [List.length_cons] at *
    refine ⟨by omega, fun f hf => ?_⟩
    obtain ⟨f', rfl⟩ : ∃ f', f = f' + 1 := ⟨f - 1, by omega⟩
    rw [parseArgs.eq_2]
    simp [ihe f' (by omega), ihr f' (by omega)]
  | .more (.pos hp) hr =>
    obtain ⟨l1, ihe⟩ := compE hp
    obtain ⟨l2, ihr⟩ := compAs hc hr
    simp only [List.length_cons] at *
    refine ⟨by omega, fun f hf => ?_⟩
    obtain ⟨f', rfl⟩ : ∃ f', f = f' + 1 := ⟨f - 1, by omega⟩
    have hcc : ¬ comma = close := by rcases hc with h | h <;> simp [h]
    rw [parseArgs.eq_3 _ _ _ (pos_not_kw hc (Or.inr rfl) hp), ihe f' (by omega)]
    simp [hcc, ihr f' (by omega)]
  termination_by structural h
end

/-- **Completeness of the fuelled parser** (with the explicit bound): fuel `2·length + 2` finds the parse -/
theorem parseExpr_complete (ts : List Tok) (e : Py) (h : Parses ts e) :
    ∀ fuel, 2 * ts.length + 2 ≤ fuel → parseExpr fuel 0 ts = some (e, []) := by
  intro fuel hf
  exact (compE h).2 fuel (by simpa using hf)

/-- in the form asked for: some fuel suffices, and every larger fuel gives the same answer -/
theorem parseExpr_complete' (ts : List Tok) (e : Py) (h : Parses ts e) :
    ∃ fuel0, ∀ fuel, fuel0 ≤ fuel → parseExpr fuel 0 ts = some (e, []) :=
  ⟨2 * ts.length + 2, parseExpr_complete ts e h⟩

/-- the fuel `4·length + 8` that `parse` uses suffices: the executable parser is complete -/
theorem parse_complete (ts : List Tok) (e : Py) (h : Parses ts e) : parse ts = some e := by
  unfold parse
  rw [parseExpr_complete ts e h (4 * ts.length + 8) (by omega)]

/-- the executable parser decides the relation -/
theorem parse_iff (ts : List Tok) (e : Py) : parse ts = some e ↔ Parses ts e :=
  ⟨parse_sound ts e, parse_complete ts e⟩

/-- **unconditional round trip through the executable parser**: for every table with `tableOK` and every
tree over it, `parse` of the emitted text succeeds and returns the tree with operands as units -/
theorem parse_render_eq (L : Nat) (hL : L ≤ 100) (T : Table) (hT : tableOK L T = true) (e : E)
    (he : E.ok T L e = true) : parse (render T e) = some (denote T e) :=
  parse_complete _ _ (render_parses L hL T hT e he)

#print axioms parseExpr_complete
#print axioms parse_complete
#print axioms parse_iff
#print axioms parse_render_eq

end Bptk.Py
