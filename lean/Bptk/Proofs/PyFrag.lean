import Bptk.Core.PyFrag
/-!
A1 — theory of the Python fragment: big-step parsing relation with CPython's binding powers, the
print→parse round trip for well-levelled trees, template substitution lemmas, and the main theorem
`render_parses`: for every table satisfying the decidable `tableOK`, the text the code emits for ANY
expression tree parses to the tree in which every operand is plugged in whole.
-/
namespace Bptk.Py
open Tok

/-- the loop stops in front of `ts` when asked for operators of power ≥ m -/
def stops (m : Nat) : List Tok → Prop
  | op k :: _ => bp k < m
  | kif :: _ => 0 < m
  | _ => True

mutual
inductive PExpr : Nat → List Tok → Py → List Tok → Prop
  | mk {m ts l ts' e rest} : PPre m ts l ts' → PLoop m l ts' e rest → PExpr m ts e rest
inductive PLoop : Nat → Py → List Tok → Py → List Tok → Prop
  | stop {m acc ts} : stops m ts → PLoop m acc ts acc ts
  | step {m acc k ts r ts' e rest} : bp k ≥ m → PExpr (rbp k) ts r ts' →
      PLoop m (.bin k acc r) ts' e rest → PLoop m acc (op k :: ts) e rest
  | cond {acc ts c ts' y ts'' e rest} : PExpr 1 ts c (kelse :: ts') → PExpr 0 ts' y ts'' →
      PLoop 0 (.ite acc c y) ts'' e rest → PLoop 0 acc (kif :: ts) e rest
inductive PPre : Nat → List Tok → Py → List Tok → Prop
  | neg {m ts e ts'} : m ≤ 7 → PExpr 7 ts e ts' → PPre m (op .sub :: ts) (.neg e) ts'
  | not {m ts e ts'} : m ≤ 3 → PExpr 3 ts e ts' → PPre m (knot :: ts) (.not e) ts'
  | num {m s ts e ts'} : PPost (.num s) ts e ts' → PPre m (Tok.num s :: ts) e ts'
  | name {m s ts e ts'} : PPost (.name s) ts e ts' → PPre m (Tok.name s :: ts) e ts'
  | str {m s ts e ts'} : PPost (.str s) ts e ts' → PPre m (Tok.str s :: ts) e ts'
  | hole {m i ts e ts'} : PPost (.hole i) ts e ts' → PPre m (Tok.hole i :: ts) e ts'
  | paren {m ts e ts' e' ts''} : PExpr 0 ts e (rp :: ts') → PPost (.paren e) ts' e' ts'' →
      PPre m (lp :: ts) e' ts''
  | list0 {m ts e ts'} : PPost (.list []) ts e ts' → PPre m (lb :: rb :: ts) e ts'
  | list {m ts a as ts' e ts''} : PArgs rb ts (a :: as) ts' → PPost (.list (a :: as)) ts' e ts'' →
      PPre m (lb :: ts) e ts''
inductive PPost : Py → List Tok → Py → List Tok → Prop
  | done {acc ts} : isPostfixStart ts = false → PPost acc ts acc ts
  | attr {acc a ts e ts'} : PPost (.attr acc a) ts e ts' → PPost acc (dot :: Tok.name a :: ts) e ts'
  | call0 {acc ts e ts'} : PPost (.call acc []) ts e ts' → PPost acc (lp :: rp :: ts) e ts'
  | call {acc ts a as ts' e ts''} : PArgs rp ts (a :: as) ts' → PPost (.call acc (a :: as)) ts' e ts'' →
      PPost acc (lp :: ts) e ts''
  | index {acc ts i ts' e ts''} : PExpr 0 ts i (rb :: ts') → PPost (.index acc i) ts' e ts'' →
      PPost acc (lb :: ts) e ts''
inductive PArgs : Tok → List Tok → List Py → List Tok → Prop
  | last {close ts e ts'} : PArg close ts e (close :: ts') → PArgs close ts [e] ts'
  | more {close ts e ts' es ts''} : PArg close ts e (comma :: ts') → PArgs close ts' es ts'' →
      PArgs close ts (e :: es) ts''
inductive PArg : Tok → List Tok → Py → List Tok → Prop
  | kw {n ts e ts'} : PExpr 0 ts e ts' → PArg rp (Tok.name n :: assign :: ts) (.kw n e) ts'
  | pos {close ts e ts'} : PExpr 0 ts e ts' → PArg close ts e ts'
end

/-- `ts` is a complete expression denoting `e` -/
def Parses (ts : List Tok) (e : Py) : Prop := PExpr 0 ts e []

/-- follow power: an operator of binding power ≥ `fp e` following `pr e` would be absorbed inside `e` -/
def fp : Py → Nat
  | .bin k _ _ => rbp k
  | .neg _ => 7
  | .not _ => 3
  | _ => 0

abbrev WL (e : Py) : Prop := WLb 0 e = true

theorem stops_mono {m m' : Nat} {ts : List Tok} (h : stops m ts) (hm : m ≤ m') : stops m' ts := by
  cases ts with
  | nil => trivial
  | cons t ts => cases t <;> simp_all [stops] <;> omega

theorem rbp_le (k : BinOp) : rbp k ≤ 7 ∧ rbp k ≥ 2 := by cases k <;> simp [rbp, bp]

theorem lvlH0 (e : Py) (h : ∀ i, e ≠ .hole i) : lvlH 0 e = lvl e := by
  cases e <;> simp_all [lvlH]

theorem lvlH0_le (e : Py) : lvlH 0 e ≤ lvl e := by
  cases e <;> simp [lvlH, lvl]

/-- a non-primary child whose level meets demand `d ≤ 7` has follow power ≥ d -/
theorem fp_ge (e : Py) (d : Nat) (hd : d ≤ 7) (hl : lvl e ≥ d) (hnp : lvl e < 100) : fp e ≥ d := by
  cases e with
  | bin k l r => simp only [lvl] at hl; simp only [fp]; cases k <;> simp_all [rbp, bp] <;> omega
  | neg e => simp only [lvl] at hl; simp only [fp]; exact hl
  | not e => simp only [lvl] at hl; simp only [fp]; exact hl
  | ite x c y => simp only [lvl] at hl; simp only [fp]; omega
  | kw n x => simp only [lvl] at hl; simp only [fp]; omega
  | _ => simp [lvl] at hnp

theorem closeStops (t : Tok) (ht : t = rp ∨ t = rb ∨ t = comma ∨ t = kelse) (rest : List Tok) (m : Nat) :
    stops m (t :: rest) ∧ isPostfixStart (t :: rest) = false := by
  rcases ht with h | h | h | h <;> subst h <;> simp [stops, isPostfixStart]

mutual
theorem roundtrip (e : Py) (hw : WL e) (m : Nat) (rest : List Tok) (e' : Py) (rest' : List Tok)
    (hm : m ≤ lvl e) (hs : lvl e < 100 → stops (fp e) rest) (hnp : isPostfixStart rest = false)
    (h : PLoop m e rest e' rest') : PExpr m (pr e ++ rest) e' rest' := by
  match e, hw with
  | .num s, _ => exact PExpr.mk (PPre.num (PPost.done hnp)) h
  | .name s, _ => exact PExpr.mk (PPre.name (PPost.done hnp)) h
  | .str s, _ => exact PExpr.mk (PPre.str (PPost.done hnp)) h
  | .hole i, _ => exact PExpr.mk (PPre.hole (PPost.done hnp)) h
  | .kw n x, hw => simp [WL, WLb] at hw
  | .paren e, hw =>
    exact PExpr.mk (roundtripPrim (.paren e) hw (by simp [lvl]) m rest _ rest (PPost.done hnp)) h
  | .attr e a, hw =>
    exact PExpr.mk (roundtripPrim (.attr e a) hw (by simp [lvl]) m rest _ rest (PPost.done hnp)) h
  | .call f args, hw =>
    exact PExpr.mk (roundtripPrim (.call f args) hw (by simp [lvl]) m rest _ rest (PPost.done hnp)) h
  | .index e i, hw =>
    exact PExpr.mk (roundtripPrim (.index e i) hw (by simp [lvl]) m rest _ rest (PPost.done hnp)) h
  | .list es, hw =>
    exact PExpr.mk (roundtripPrim (.list es) hw (by simp [lvl]) m rest _ rest (PPost.done hnp)) h
  | .neg e, hw =>
    simp only [WL, WLb, Bool.and_eq_true, decide_eq_true_eq] at hw
    obtain ⟨hwe, hle⟩ := hw
    have hle' : lvl e ≥ 7 := Nat.le_trans hle (lvlH0_le e)
    have hs7 : stops 7 rest := hs (by simp [lvl])
    simp only [lvl] at hm
    have h0 : PExpr 7 (pr e ++ rest) e rest :=
      roundtrip e hwe 7 rest e rest hle'
        (fun hp => stops_mono hs7 (fp_ge e 7 (by omega) hle' hp)) hnp (PLoop.stop hs7)
    have : pr (.neg e) ++ rest = op .sub :: (pr e ++ rest) := by simp [pr]
    rw [this]; exact PExpr.mk (PPre.neg hm h0) h
  | .not e, hw =>
    simp only [WL, WLb, Bool.and_eq_true, decide_eq_true_eq] at hw
    obtain ⟨hwe, hle⟩ := hw
    have hle' : lvl e ≥ 3 := Nat.le_trans hle (lvlH0_le e)
    have hs3 : stops 3 rest := hs (by simp [lvl])
    simp only [lvl] at hm
    have h0 : PExpr 3 (pr e ++ rest) e rest :=
      roundtrip e hwe 3 rest e rest hle'
        (fun hp => stops_mono hs3 (fp_ge e 3 (by omega) hle' hp)) hnp (PLoop.stop hs3)
    have : pr (.not e) ++ rest = knot :: (pr e ++ rest) := by simp [pr]
    rw [this]; exact PExpr.mk (PPre.not hm h0) h
  | .bin k l r, hw =>
    simp only [WL, WLb, Bool.and_eq_true, decide_eq_true_eq] at hw
    obtain ⟨⟨⟨hwl, hwr⟩, hll⟩, hlr⟩ := hw
    have hll' : lvl l ≥ ldem k := Nat.le_trans hll (lvlH0_le l)
    have hlr' : lvl r ≥ rbp k := Nat.le_trans hlr (lvlH0_le r)
    have hsr : stops (rbp k) rest := hs (by cases k <;> simp [lvl, bp])
    have hrb := rbp_le k
    simp only [lvl] at hm
    have hr : PExpr (rbp k) (pr r ++ rest) r rest :=
      roundtrip r hwr (rbp k) rest r rest hlr'
        (fun hp => stops_mono hsr (fp_ge r (rbp k) hrb.1 hlr' hp)) hnp (PLoop.stop hsr)
    have : pr (.bin k l r) ++ rest = pr l ++ (op k :: (pr r ++ rest)) := by simp [pr]
    rw [this]
    have hbl : bp k ≤ ldem k := by cases k <;> simp [bp, ldem]
    apply roundtrip l hwl m _ e' rest' (by omega)
    · intro hp
      simp only [stops]
      -- an operator k following `l` must not be absorbed into `l`: bp k < fp l
      cases l with
      | bin k' l' r' =>
        simp only [lvl] at hll'
        simp only [fp]
        cases k <;> cases k' <;> simp_all [rbp, bp, ldem]
      | neg e => simp only [lvl] at hll'; simp only [fp]; cases k <;> simp_all [bp, ldem]
      | not e => simp only [lvl] at hll'; simp only [fp]; cases k <;> simp_all [bp, ldem]
      | ite x c y => simp only [lvl] at hll'; cases k <;> simp_all [bp, ldem]
      | kw n x => simp [WL, WLb] at hwl
      | _ => simp [lvl] at hp
    · simp [isPostfixStart]
    · exact PLoop.step hm hr h
  | .ite x c y, hw =>
    simp only [WL, WLb, Bool.and_eq_true, decide_eq_true_eq] at hw
    obtain ⟨⟨⟨⟨hwx, hwc⟩, hwy⟩, hlx⟩, hlc⟩ := hw
    have hlx' : lvl x ≥ 1 := Nat.le_trans hlx (lvlH0_le x)
    have hlc' : lvl c ≥ 1 := Nat.le_trans hlc (lvlH0_le c)
    simp only [lvl] at hm
    have hm0 : m = 0 := by omega
    subst hm0
    have hs0 : stops 0 rest := hs (by simp [lvl])
    have hc : PExpr 1 (pr c ++ kelse :: (pr y ++ rest)) c (kelse :: (pr y ++ rest)) :=
      roundtrip c hwc 1 _ c _ hlc' (fun _ => by simp [stops]) (by simp [isPostfixStart])
        (PLoop.stop (by simp [stops]))
    have hy : PExpr 0 (pr y ++ rest) y rest :=
      roundtrip y hwy 0 rest y rest (Nat.zero_le _) (fun _ => stops_mono hs0 (Nat.zero_le _)) hnp
        (PLoop.stop hs0)
    have : pr (.ite x c y) ++ rest = pr x ++ (kif :: (pr c ++ kelse :: (pr y ++ rest))) := by simp [pr]
    rw [this]
    apply roundtrip x hwx 0 _ e' rest' (Nat.zero_le _)
    · intro hp
      have := fp_ge x 1 (by omega) hlx' hp
      simp only [stops]; omega
    · simp [isPostfixStart]
    · exact PLoop.cond hc hy h
theorem roundtripPrim (p : Py) (hw : WL p) (hp : lvl p = 100) (m : Nat) (rest : List Tok) (e' : Py)
    (rest' : List Tok) (h : PPost p rest e' rest') : PPre m (pr p ++ rest) e' rest' := by
  match p, hw with
  | .num s, _ => exact PPre.num h
  | .name s, _ => exact PPre.name h
  | .str s, _ => exact PPre.str h
  | .hole i, _ => exact PPre.hole h
  | .kw n x, _ => simp [lvl] at hp
  | .neg e, _ => simp [lvl] at hp
  | .not e, _ => simp [lvl] at hp
  | .ite x c y, _ => simp [lvl] at hp
  | .bin k l r, _ => cases k <;> simp [lvl, bp] at hp
  | .paren e, hw =>
    simp only [WL, WLb] at hw
    have hcs := closeStops rp (Or.inl rfl) rest
    have h0 : PExpr 0 (pr e ++ rp :: rest) e (rp :: rest) :=
      roundtrip e hw 0 (rp :: rest) e (rp :: rest) (Nat.zero_le _) (fun _ => (hcs _).1) (hcs 0).2
        (PLoop.stop (hcs 0).1)
    have : pr (.paren e) ++ rest = lp :: (pr e ++ rp :: rest) := by simp [pr]
    rw [this]; exact PPre.paren h0 h
  | .attr e a, hw =>
    simp only [WL, WLb, Bool.and_eq_true, decide_eq_true_eq] at hw
    obtain ⟨hwe, hle⟩ := hw
    have hle' : lvl e = 100 := by
      have := Nat.le_trans hle (lvlH0_le e)
      cases e <;> simp_all [lvl] <;> (rename_i k _ _; cases k <;> simp_all [bp])
    have : pr (.attr e a) ++ rest = pr e ++ (dot :: Tok.name a :: rest) := by simp [pr]
    rw [this]; exact roundtripPrim e hwe hle' m _ e' rest' (PPost.attr h)
  | .index e i, hw =>
    simp only [WL, WLb, Bool.and_eq_true, decide_eq_true_eq] at hw
    obtain ⟨⟨hwe, hle⟩, hwi⟩ := hw
    have hle' : lvl e = 100 := by
      have := Nat.le_trans hle (lvlH0_le e)
      cases e <;> simp_all [lvl] <;> (rename_i k _ _; cases k <;> simp_all [bp])
    have hcs := closeStops rb (Or.inr (Or.inl rfl)) rest
    have h0 : PExpr 0 (pr i ++ rb :: rest) i (rb :: rest) :=
      roundtrip i hwi 0 (rb :: rest) i (rb :: rest) (Nat.zero_le _) (fun _ => (hcs _).1) (hcs 0).2
        (PLoop.stop (hcs 0).1)
    have : pr (.index e i) ++ rest = pr e ++ (lb :: (pr i ++ rb :: rest)) := by simp [pr]
    rw [this]; exact roundtripPrim e hwe hle' m _ e' rest' (PPost.index h0 h)
  | .call f [], hw =>
    simp only [WL, WLb, Bool.and_eq_true, decide_eq_true_eq] at hw
    obtain ⟨⟨hwf, hlf⟩, _⟩ := hw
    have hlf' : lvl f = 100 := by
      have := Nat.le_trans hlf (lvlH0_le f)
      cases f <;> simp_all [lvl] <;> (rename_i k _ _; cases k <;> simp_all [bp])
    have : pr (.call f []) ++ rest = pr f ++ (lp :: rp :: rest) := by simp [pr, prArgs]
    rw [this]; exact roundtripPrim f hwf hlf' m _ e' rest' (PPost.call0 h)
  | .call f (a :: as), hw =>
    simp only [WL, WLb, Bool.and_eq_true, decide_eq_true_eq] at hw
    obtain ⟨⟨hwf, hlf⟩, hwa⟩ := hw
    have hlf' : lvl f = 100 := by
      have := Nat.le_trans hlf (lvlH0_le f)
      cases f <;> simp_all [lvl] <;> (rename_i k _ _; cases k <;> simp_all [bp])
    have ha := roundtripCallArgs (a :: as) hwa (by simp) rest
    have : pr (.call f (a :: as)) ++ rest = pr f ++ (lp :: (prArgs (a :: as) ++ rp :: rest)) := by
      simp [pr]
    rw [this]; exact roundtripPrim f hwf hlf' m _ e' rest' (PPost.call ha h)
  | .list [], _ =>
    have : pr (.list []) ++ rest = lb :: rb :: rest := by simp [pr, prArgs]
    rw [this]; exact PPre.list0 h
  | .list (a :: as), hw =>
    simp only [WL, WLb] at hw
    have ha := roundtripListArgs (a :: as) hw (by simp) rest
    have : pr (.list (a :: as)) ++ rest = lb :: (prArgs (a :: as) ++ rb :: rest) := by simp [pr]
    rw [this]; exact PPre.list ha h
theorem roundtripArg (close : Tok) (hcl : close = rp ∨ close = rb) (e : Py) (hw : WLbArg 0 e = true)
    (hk : close = rb → WL e) (t : Tok) (ht : t = close ∨ t = comma) (rest : List Tok) :
    PArg close (pr e ++ t :: rest) e (t :: rest) := by
  have hcs : ∀ m, stops m (t :: rest) ∧ isPostfixStart (t :: rest) = false := by
    intro m; apply closeStops
    rcases ht with h | h
    · subst h; rcases hcl with h | h <;> simp [h]
    · simp [h]
  match e, hw with
  | .kw n x, hw =>
    rcases hcl with hc | hc
    · subst hc
      simp only [WLbArg] at hw
      have h0 : PExpr 0 (pr x ++ t :: rest) x (t :: rest) :=
        roundtrip x hw 0 _ x _ (Nat.zero_le _) (fun _ => (hcs _).1) (hcs 0).2 (PLoop.stop (hcs 0).1)
      have : pr (.kw n x) ++ t :: rest = Tok.name n :: assign :: (pr x ++ t :: rest) := by simp [pr]
      rw [this]; exact PArg.kw h0
    · have := hk hc; simp [WL, WLb] at this
  | .num s, _ => exact PArg.pos (roundtrip _ (by simp [WL, WLb]) 0 _ _ _ (Nat.zero_le _) (fun _ => (hcs _).1) (hcs 0).2 (PLoop.stop (hcs 0).1))
  | .name s, _ => exact PArg.pos (roundtrip _ (by simp [WL, WLb]) 0 _ _ _ (Nat.zero_le _) (fun _ => (hcs _).1) (hcs 0).2 (PLoop.stop (hcs 0).1))
  | .str s, _ => exact PArg.pos (roundtrip _ (by simp [WL, WLb]) 0 _ _ _ (Nat.zero_le _) (fun _ => (hcs _).1) (hcs 0).2 (PLoop.stop (hcs 0).1))
  | .hole i, _ => exact PArg.pos (roundtrip _ (by simp [WL, WLb]) 0 _ _ _ (Nat.zero_le _) (fun _ => (hcs _).1) (hcs 0).2 (PLoop.stop (hcs 0).1))
  | .paren e, hw => exact PArg.pos (roundtrip _ (by simpa [WLbArg, WL, WLb] using hw) 0 _ _ _ (Nat.zero_le _) (fun _ => (hcs _).1) (hcs 0).2 (PLoop.stop (hcs 0).1))
  | .neg e, hw => exact PArg.pos (roundtrip _ (by simpa [WLbArg, WL, WLb] using hw) 0 _ _ _ (Nat.zero_le _) (fun _ => (hcs _).1) (hcs 0).2 (PLoop.stop (hcs 0).1))
  | .not e, hw => exact PArg.pos (roundtrip _ (by simpa [WLbArg, WL, WLb] using hw) 0 _ _ _ (Nat.zero_le _) (fun _ => (hcs _).1) (hcs 0).2 (PLoop.stop (hcs 0).1))
  | .bin k l r, hw => exact PArg.pos (roundtrip _ (by simpa [WLbArg, WL, WLb] using hw) 0 _ _ _ (Nat.zero_le _) (fun _ => (hcs _).1) (hcs 0).2 (PLoop.stop (hcs 0).1))
  | .ite x c y, hw => exact PArg.pos (roundtrip _ (by simpa [WLbArg, WL, WLb] using hw) 0 _ _ _ (Nat.zero_le _) (fun _ => (hcs _).1) (hcs 0).2 (PLoop.stop (hcs 0).1))
  | .attr e a, hw => exact PArg.pos (roundtrip _ (by simpa [WLbArg, WL, WLb] using hw) 0 _ _ _ (Nat.zero_le _) (fun _ => (hcs _).1) (hcs 0).2 (PLoop.stop (hcs 0).1))
  | .call f args, hw => exact PArg.pos (roundtrip _ (by simpa [WLbArg, WL, WLb] using hw) 0 _ _ _ (Nat.zero_le _) (fun _ => (hcs _).1) (hcs 0).2 (PLoop.stop (hcs 0).1))
  | .index e i, hw => exact PArg.pos (roundtrip _ (by simpa [WLbArg, WL, WLb] using hw) 0 _ _ _ (Nat.zero_le _) (fun _ => (hcs _).1) (hcs 0).2 (PLoop.stop (hcs 0).1))
  | .list es, hw => exact PArg.pos (roundtrip _ (by simpa [WLbArg, WL, WLb] using hw) 0 _ _ _ (Nat.zero_le _) (fun _ => (hcs _).1) (hcs 0).2 (PLoop.stop (hcs 0).1))
theorem roundtripCallArgs (es : List Py) (hw : WLbArgs 0 es = true) (hne : es ≠ []) (rest : List Tok) :
    PArgs rp (prArgs es ++ rp :: rest) es rest := by
  match es, hw with
  | [], _ => exact absurd rfl hne
  | [e], hw =>
    simp only [WLbArgs, Bool.and_eq_true] at hw
    have := roundtripArg rp (Or.inl rfl) e hw.1 (by intro h; cases h) rp (Or.inl rfl) rest
    simpa [prArgs] using PArgs.last this
  | e :: e2 :: es, hw =>
    simp only [WLbArgs, Bool.and_eq_true] at hw
    have h0 := roundtripArg rp (Or.inl rfl) e hw.1 (by intro h; cases h) comma (Or.inr rfl)
      (prArgs (e2 :: es) ++ rp :: rest)
    have h1 := roundtripCallArgs (e2 :: es) (by simp only [WLbArgs, Bool.and_eq_true]; exact hw.2) (by simp) rest
    have : prArgs (e :: e2 :: es) ++ rp :: rest = pr e ++ comma :: (prArgs (e2 :: es) ++ rp :: rest) := by
      simp [prArgs]
    rw [this]; exact PArgs.more h0 h1
theorem roundtripListArgs (es : List Py) (hw : WLbL 0 es = true) (hne : es ≠ []) (rest : List Tok) :
    PArgs rb (prArgs es ++ rb :: rest) es rest := by
  match es, hw with
  | [], _ => exact absurd rfl hne
  | [e], hw =>
    simp only [WLbL, Bool.and_eq_true] at hw
    have hcs := closeStops rb (Or.inr (Or.inl rfl)) rest
    have h0 : PExpr 0 (pr e ++ rb :: rest) e (rb :: rest) :=
      roundtrip e hw.1 0 _ e _ (Nat.zero_le _) (fun _ => (hcs _).1) (hcs 0).2 (PLoop.stop (hcs 0).1)
    simpa [prArgs] using PArgs.last (PArg.pos h0)
  | e :: e2 :: es, hw =>
    simp only [WLbL, Bool.and_eq_true] at hw
    have hcs := closeStops comma (Or.inr (Or.inr (Or.inl rfl))) (prArgs (e2 :: es) ++ rb :: rest)
    have h0 : PExpr 0 (pr e ++ comma :: (prArgs (e2 :: es) ++ rb :: rest)) e (comma :: (prArgs (e2 :: es) ++ rb :: rest)) :=
      roundtrip e hw.1 0 _ e _ (Nat.zero_le _) (fun _ => (hcs _).1) (hcs 0).2 (PLoop.stop (hcs 0).1)
    have h1 := roundtripListArgs (e2 :: es) (by simp only [WLbL, Bool.and_eq_true]; exact hw.2) (by simp) rest
    have : prArgs (e :: e2 :: es) ++ rb :: rest = pr e ++ comma :: (prArgs (e2 :: es) ++ rb :: rest) := by
      simp [prArgs]
    rw [this]; exact PArgs.more (PArg.pos h0) h1
end

/-- **Round trip**: printing a well-levelled tree and parsing the result gives the tree back. -/
theorem parse_print (e : Py) (hw : WL e) : Parses (pr e) e := by
  have := roundtrip e hw 0 [] e [] (Nat.zero_le _) (fun _ => by simp [stops]) (by simp [isPostfixStart])
    (PLoop.stop (by simp [stops]))
  simpa [Parses] using this

#print axioms parse_print

/-! ### Templates -/

theorem substToks_append (τ : Nat → List Tok) (a b : List Tok) :
    substToks τ (a ++ b) = substToks τ a ++ substToks τ b := by
  induction a with
  | nil => simp [substToks]
  | cons t ts ih => cases t <;> simp [substToks, ih]

theorem substToks_congr (τ τ' : Nat → List Tok) (h : ∀ i, τ i = τ' i) (ts : List Tok) :
    substToks τ ts = substToks τ' ts := by
  induction ts with
  | nil => rfl
  | cons t ts ih => cases t <;> simp [substToks, ih, h]

mutual
/-- printing commutes with substitution: string formatting of operand texts into the template text
is the printing of the operand trees plugged into the template's tree. -/
theorem pr_subst (σ : Nat → Py) (s : Py) : pr (subst σ s) = substToks (fun i => pr (σ i)) (pr s) := by
  match s with
  | .num _ => simp [subst, pr, substToks]
  | .name _ => simp [subst, pr, substToks]
  | .str _ => simp [subst, pr, substToks]
  | .hole i => simp [subst, pr, substToks]
  | .paren e => simp [subst, pr, substToks, substToks_append, pr_subst σ e]
  | .neg e => simp [subst, pr, substToks, pr_subst σ e]
  | .not e => simp [subst, pr, substToks, pr_subst σ e]
  | .bin k l r => simp [subst, pr, substToks, substToks_append, pr_subst σ l, pr_subst σ r]
  | .ite x c y =>
    simp [subst, pr, substToks, substToks_append, pr_subst σ x, pr_subst σ c, pr_subst σ y]
  | .attr e a => simp [subst, pr, substToks, substToks_append, pr_subst σ e]
  | .call f args =>
    simp [subst, pr, substToks, substToks_append, pr_subst σ f, prArgs_subst σ args]
  | .index e i => simp [subst, pr, substToks, substToks_append, pr_subst σ e, pr_subst σ i]
  | .list es => simp [subst, pr, substToks, substToks_append, prArgs_subst σ es]
  | .kw n e => simp [subst, pr, substToks, pr_subst σ e]
theorem prArgs_subst (σ : Nat → Py) (es : List Py) :
    prArgs (substL σ es) = substToks (fun i => pr (σ i)) (prArgs es) := by
  match es with
  | [] => simp [substL, prArgs, substToks]
  | [e] => simp [substL, prArgs, pr_subst σ e]
  | e :: e2 :: es =>
    have := prArgs_subst σ (e2 :: es)
    simp only [substL] at this
    simp [substL, prArgs, substToks, substToks_append, pr_subst σ e, this]
end

/-- an operand fit for a hole of level `L` -/
def Good (L : Nat) (p : Py) : Prop := WLb 0 p = true ∧ lvl p ≥ L ∧ noHole p = true

theorem lvlH_noHole (p : Py) (h : noHole p = true) : lvlH 0 p = lvl p := by
  cases p <;> simp_all [lvlH, noHole]

theorem lvlH_subst_ge (L : Nat) (σ : Nat → Py) (hσ : ∀ i, Good L (σ i)) (s : Py) :
    lvlH 0 (subst σ s) ≥ lvlH L s := by
  cases s with
  | hole i =>
    have h1 := lvlH_noHole _ (hσ i).2.2
    have h2 := (hσ i).2.1
    show lvlH 0 (σ i) ≥ L
    omega
  | _ => simp [subst, lvlH, lvl]

mutual
theorem subst_wl (L : Nat) (σ : Nat → Py) (hσ : ∀ i, Good L (σ i)) (s : Py) (hw : WLb L s = true) :
    WLb 0 (subst σ s) = true ∧ noHole (subst σ s) = true := by
  match s, hw with
  | .num _, _ => simp [subst, WLb, noHole]
  | .name _, _ => simp [subst, WLb, noHole]
  | .str _, _ => simp [subst, WLb, noHole]
  | .hole i, _ => exact ⟨(hσ i).1, (hσ i).2.2⟩
  | .kw n e, hw => simp [WLb] at hw
  | .paren e, hw =>
    simp only [WLb] at hw
    have := subst_wl L σ hσ e hw
    simpa [subst, WLb, noHole] using this
  | .neg e, hw =>
    simp only [WLb, Bool.and_eq_true, decide_eq_true_eq] at hw
    have := subst_wl L σ hσ e hw.1
    have hl := lvlH_subst_ge L σ hσ e
    simp only [subst, WLb, noHole, Bool.and_eq_true, decide_eq_true_eq]
    exact ⟨⟨this.1, by omega⟩, this.2⟩
  | .not e, hw =>
    simp only [WLb, Bool.and_eq_true, decide_eq_true_eq] at hw
    have := subst_wl L σ hσ e hw.1
    have hl := lvlH_subst_ge L σ hσ e
    simp only [subst, WLb, noHole, Bool.and_eq_true, decide_eq_true_eq]
    exact ⟨⟨this.1, by omega⟩, this.2⟩
  | .bin k l r, hw =>
    simp only [WLb, Bool.and_eq_true, decide_eq_true_eq] at hw
    obtain ⟨⟨⟨hwl, hwr⟩, hll⟩, hlr⟩ := hw
    have h1 := subst_wl L σ hσ l hwl
    have h2 := subst_wl L σ hσ r hwr
    have hl1 := lvlH_subst_ge L σ hσ l
    have hl2 := lvlH_subst_ge L σ hσ r
    simp only [subst, WLb, noHole, Bool.and_eq_true, decide_eq_true_eq]
    exact ⟨⟨⟨⟨h1.1, h2.1⟩, by omega⟩, by omega⟩, h1.2, h2.2⟩
  | .ite x c y, hw =>
    simp only [WLb, Bool.and_eq_true, decide_eq_true_eq] at hw
    obtain ⟨⟨⟨⟨hwx, hwc⟩, hwy⟩, hlx⟩, hlc⟩ := hw
    have h1 := subst_wl L σ hσ x hwx
    have h2 := subst_wl L σ hσ c hwc
    have h3 := subst_wl L σ hσ y hwy
    have hl1 := lvlH_subst_ge L σ hσ x
    have hl2 := lvlH_subst_ge L σ hσ c
    simp only [subst, WLb, noHole, Bool.and_eq_true, decide_eq_true_eq]
    exact ⟨⟨⟨⟨⟨h1.1, h2.1⟩, h3.1⟩, by omega⟩, by omega⟩, ⟨h1.2, h2.2⟩, h3.2⟩
  | .attr e a, hw =>
    simp only [WLb, Bool.and_eq_true, decide_eq_true_eq] at hw
    have := subst_wl L σ hσ e hw.1
    have hl := lvlH_subst_ge L σ hσ e
    simp only [subst, WLb, noHole, Bool.and_eq_true, decide_eq_true_eq]
    exact ⟨⟨this.1, by omega⟩, this.2⟩
  | .index e i, hw =>
    simp only [WLb, Bool.and_eq_true, decide_eq_true_eq] at hw
    obtain ⟨⟨hwe, hle⟩, hwi⟩ := hw
    have h1 := subst_wl L σ hσ e hwe
    have h2 := subst_wl L σ hσ i hwi
    have hl := lvlH_subst_ge L σ hσ e
    simp only [subst, WLb, noHole, Bool.and_eq_true, decide_eq_true_eq]
    exact ⟨⟨⟨h1.1, by omega⟩, h2.1⟩, h1.2, h2.2⟩
  | .call f args, hw =>
    simp only [WLb, Bool.and_eq_true, decide_eq_true_eq] at hw
    obtain ⟨⟨hwf, hlf⟩, hwa⟩ := hw
    have h1 := subst_wl L σ hσ f hwf
    have h2 := substArgs_wl L σ hσ args hwa
    have hl := lvlH_subst_ge L σ hσ f
    simp only [subst, WLb, noHole, Bool.and_eq_true, decide_eq_true_eq]
    exact ⟨⟨⟨h1.1, by omega⟩, h2.1⟩, h1.2, h2.2⟩
  | .list es, hw =>
    simp only [WLb] at hw
    have := substL_wl L σ hσ es hw
    simpa [subst, WLb, noHole] using this
theorem substL_wl (L : Nat) (σ : Nat → Py) (hσ : ∀ i, Good L (σ i)) (es : List Py)
    (hw : WLbL L es = true) : WLbL 0 (substL σ es) = true ∧ noHoleL (substL σ es) = true := by
  match es, hw with
  | [], _ => simp [substL, WLbL, noHoleL]
  | e :: es, hw =>
    simp only [WLbL, Bool.and_eq_true] at hw
    have h1 := subst_wl L σ hσ e hw.1
    have h2 := substL_wl L σ hσ es hw.2
    simp only [substL, WLbL, noHoleL, Bool.and_eq_true]
    exact ⟨⟨h1.1, h2.1⟩, h1.2, h2.2⟩
theorem substArgs_wl (L : Nat) (σ : Nat → Py) (hσ : ∀ i, Good L (σ i)) (es : List Py)
    (hw : WLbArgs L es = true) : WLbArgs 0 (substL σ es) = true ∧ noHoleL (substL σ es) = true := by
  match es, hw with
  | [], _ => simp [substL, WLbArgs, noHoleL]
  | e :: es, hw =>
    simp only [WLbArgs, Bool.and_eq_true] at hw
    have h1 := substArg_wl L σ hσ e hw.1
    have h2 := substArgs_wl L σ hσ es hw.2
    simp only [substL, WLbArgs, noHoleL, Bool.and_eq_true]
    exact ⟨⟨h1.1, h2.1⟩, h1.2, h2.2⟩
theorem substArg_wl (L : Nat) (σ : Nat → Py) (hσ : ∀ i, Good L (σ i)) (e : Py)
    (hw : WLbArg L e = true) : WLbArg 0 (subst σ e) = true ∧ noHole (subst σ e) = true := by
  match e, hw with
  | .kw n x, hw =>
    simp only [WLbArg] at hw
    have := subst_wl L σ hσ x hw
    simpa [subst, WLbArg, noHole] using this
  | .hole i, _ =>
    have hg := hσ i
    refine ⟨?_, hg.2.2⟩
    simp only [subst]
    have h1 := hg.1
    cases h : σ i <;> simp_all [WLbArg, WLb]
  | .num _, _ => simp [subst, WLbArg, noHole]
  | .name _, _ => simp [subst, WLbArg, noHole]
  | .str _, _ => simp [subst, WLbArg, noHole]
  | .paren e, hw => simpa [subst, WLbArg, WLb] using subst_wl L σ hσ (.paren e) (by simpa [WLbArg, WLb] using hw)
  | .neg e, hw => simpa [subst, WLbArg, WLb] using subst_wl L σ hσ (.neg e) (by simpa [WLbArg, WLb] using hw)
  | .not e, hw => simpa [subst, WLbArg, WLb] using subst_wl L σ hσ (.not e) (by simpa [WLbArg, WLb] using hw)
  | .bin k l r, hw => simpa [subst, WLbArg, WLb] using subst_wl L σ hσ (.bin k l r) (by simpa [WLbArg, WLb] using hw)
  | .ite x c y, hw => simpa [subst, WLbArg, WLb] using subst_wl L σ hσ (.ite x c y) (by simpa [WLbArg, WLb] using hw)
  | .attr e a, hw => simpa [subst, WLbArg, WLb] using subst_wl L σ hσ (.attr e a) (by simpa [WLbArg, WLb] using hw)
  | .call f args, hw => simpa [subst, WLbArg, WLb] using subst_wl L σ hσ (.call f args) (by simpa [WLbArg, WLb] using hw)
  | .index e i, hw => simpa [subst, WLbArg, WLb] using subst_wl L σ hσ (.index e i) (by simpa [WLbArg, WLb] using hw)
  | .list es, hw => simpa [subst, WLbArg, WLb] using subst_wl L σ hσ (.list es) (by simpa [WLbArg, WLb] using hw)
end

theorem subst_good (L : Nat) (σ : Nat → Py) (hσ : ∀ i, Good L (σ i)) (s : Py) (hw : WLb L s = true)
    (hl : lvlH L s ≥ L) : Good L (subst σ s) := by
  have h := subst_wl L σ hσ s hw
  refine ⟨h.1, ?_, h.2⟩
  have := lvlH_subst_ge L σ hσ s
  have := lvlH0_le (subst σ s)
  omega

theorem nthD_good (L : Nat) (hL : L ≤ 100) (l : List Py) (h : ∀ p ∈ l, Good L p) (i : Nat) :
    Good L (nthD (.name "MISSING") l i) := by
  induction l generalizing i with
  | nil => simp [nthD, Good, WLb, lvl, noHole, hL]
  | cons x xs ih =>
    cases i with
    | zero => exact h x (by simp)
    | succ n => exact ih (fun p hp => h p (by simp [hp])) n

theorem nthD_map (l : List Py) (i : Nat) :
    pr (nthD (.name "MISSING") l i) = nthD [Tok.name "MISSING"] (l.map pr) i := by
  induction l generalizing i with
  | nil => simp [nthD, pr]
  | cons x xs ih => cases i <;> simp [nthD, ih]

theorem tmplOK_of_tableOK (L : Nat) (T : Table) (h : tableOK L T = true) (k : Nat) (t : Tmpl)
    (hk : T[k]? = some t) : tmplOK L t = true := by
  unfold tableOK at h
  rw [List.all_eq_true] at h
  exact h t (List.mem_of_getElem? hk)

theorem tmplOK_shape (L : Nat) (t : Tmpl) (h : tmplOK L t = true) :
    pr (shapeOf t) = t.toks ∧ WLb L (shapeOf t) = true ∧ lvlH L (shapeOf t) ≥ L := by
  unfold tmplOK at h
  unfold shapeOf
  cases hp : parse t.toks with
  | none => simp [hp] at h
  | some s =>
    simp only [hp, Bool.and_eq_true, decide_eq_true_eq] at h
    simp only [Option.getD_some]
    exact ⟨h.1.1.1, h.1.1.2, h.1.2⟩

mutual
theorem denote_good (L : Nat) (hL : L ≤ 100) (T : Table) (hT : tableOK L T = true) (e : E)
    (he : E.ok T L e = true) : Good L (denote T e) ∧ render T e = pr (denote T e) := by
  match e, he with
  | .leaf p, he =>
    simp only [E.ok, Bool.and_eq_true, decide_eq_true_eq] at he
    exact ⟨⟨he.1.1, he.1.2, he.2⟩, by simp [render, denote]⟩
  | .node k cs, he =>
    simp only [E.ok, Bool.and_eq_true] at he
    obtain ⟨hk, hcs⟩ := he
    have hl := denoteL_good L hL T hT cs hcs
    cases hT' : T[k]? with
    | none => simp [hT'] at hk
    | some t =>
      have hs := tmplOK_shape L t (tmplOK_of_tableOK L T hT k t hT')
      have hσ := nthD_good L hL (denoteL T cs) hl.1
      constructor
      · simp only [denote, Table.shape, hT']
        exact subst_good L _ hσ _ hs.2.1 hs.2.2
      · simp only [render, denote, Table.shape, Table.toks, hT', pr_subst, hs.1]
        apply substToks_congr
        intro i
        rw [nthD_map, hl.2]
theorem denoteL_good (L : Nat) (hL : L ≤ 100) (T : Table) (hT : tableOK L T = true) (cs : List E)
    (he : E.okL T L cs = true) :
    (∀ p ∈ denoteL T cs, Good L p) ∧ renderL T cs = (denoteL T cs).map pr := by
  match cs, he with
  | [], _ => simp [denoteL, renderL]
  | c :: cs, he =>
    simp only [E.okL, Bool.and_eq_true] at he
    have h1 := denote_good L hL T hT c he.1
    have h2 := denoteL_good L hL T hT cs he.2
    constructor
    · intro p hp
      simp only [denoteL, List.mem_cons] at hp
      rcases hp with rfl | hp
      · exact h1.1
      · exact h2.1 p hp
    · simp [renderL, denoteL, h1.2, h2.2]
end

/-- **Main theorem of A1.** For every operator table satisfying the decidable side condition
`tableOK L`, and every expression tree over it (any size, any nesting), the text the renderer emits
parses — with CPython's precedence and associativity — to the tree in which each operand's own tree
is plugged, whole, into the operator's shape: operands are used as units. -/
theorem render_parses (L : Nat) (hL : L ≤ 100) (T : Table) (hT : tableOK L T = true) (e : E)
    (he : E.ok T L e = true) : Parses (render T e) (denote T e) := by
  have h := denote_good L hL T hT e he
  rw [h.2]
  exact parse_print _ h.1.1

#print axioms render_parses

end Bptk.Py
