import Bptk.Core.C04
import Bptk.Proofs.PyFrag
import Bptk.Proofs.PyDet
import Bptk.Props.C05
import Mathlib.Algebra.Order.Floor.Ring
import Mathlib.Data.Rat.Floor
import Mathlib.Tactic.Linarith
import Mathlib.Tactic.Ring
import Mathlib.Tactic.FieldSimp
/-!
C04 — transpiled XMILE stock/flow dynamics are Euler-exact for any dt and match the SD DSL.

Quantifiers: every carrier (uninterpreted arithmetic, so the equalities are equalities of operation
trees and hold bit-for-bit on doubles), every acyclic model (any number of stocks, any number of
inflows/outflows per stock, uniflows, biflows, auxiliaries, graphical functions, nested equations),
every grid index `k ≤ N` for every horizon `N`, every memo state reachable by earlier evaluations, every
time representation whose keys land on the grid.  Induction on the measure `k·(len+1) + rank`.
-/
namespace Bptk.C04

variable {T α : Type}

/-! ### Context, correctness of memo contents, the two evaluation judgements -/

structure Ctx (T α : Type) where
  C : Carrier α
  ts : TimeSem T α
  M : Model α
  tv : Nat → α            -- the time labels as numbers
  label : Nat → T         -- the time labels as time values (what `SdSimulation` passes to `equation`)
  N : Nat                 -- horizon
  r : Nat → Nat           -- rank function witnessing acyclicity
  code : Nat → Option (Tm α)

namespace Ctx
variable (X : Ctx T α)

def len : Nat := X.M.elems.length
def mu (n k : Nat) : Nat := k * (X.len + 1) + X.r n
def call (f : Nat) : Memo T α → Nat → T → Option (Memo T α × α) := memoize X.C X.ts X.M.dtv X.code f
def eu (f n k : Nat) : Option α := eulerF X.C X.M X.tv f n k

/-- `v` is the Euler value of element `n` at index `k` (for every sufficient fuel) -/
def Val (n k : Nat) (v : α) : Prop := ∀ f, X.mu n k + 1 ≤ f → X.eu f n k = some v

/-- every memo entry sits at a grid label and holds the Euler value -/
def MemoOK (mm : Memo T α) : Prop :=
  ∀ e ∈ mm, ∃ k, k ≤ X.N ∧ e.2.1 = X.label k ∧ X.Val e.1 k e.2.2

/-- the term evaluates to `v` at time `t`, from any correct memo, with any sufficiently fuelled memoize -/
def Evals (B : Nat) (t : T) (tm : Tm α) (v : α) : Prop :=
  ∀ f, B ≤ f → ∀ mm, X.MemoOK mm →
    ∃ m', evalTm X.C X.ts X.M.dtv (X.call f) t mm tm = some (m', v) ∧ X.MemoOK m'

/-- element `n` at index `k`: reference value and memoised run agree (fuel ≥ B) -/
def Good (B n k : Nat) : Prop :=
  ∃ v, (∀ f, B ≤ f → X.eu f n k = some v) ∧
    (∀ f, B ≤ f → ∀ mm, X.MemoOK mm → ∀ t, X.ts.norm t = X.label k →
      ∃ m', X.call f mm n t = some (m', v) ∧ X.MemoOK m')

/-- what the time representation must deliver on the horizon -/
structure GridOK : Prop where
  normLabel : ∀ k, k ≤ X.N → X.ts.norm (X.label k) = X.label k
  prevLabel : ∀ k, k + 1 ≤ X.N → X.ts.norm (X.ts.prev (X.label (k + 1))) = X.label k
  start0 : X.ts.leStart (X.label 0) = true
  startS : ∀ k, k + 1 ≤ X.N → X.ts.leStart (X.label (k + 1)) = false
  keyInj : ∀ i j, i ≤ X.N → j ≤ X.N → X.ts.keyEq (X.label i) (X.label j) = true → i = j
  valLabel : ∀ k, k ≤ X.N → X.ts.val (X.label k) = X.tv k

/-- acyclicity (a rank function on same-time references) and well-formedness -/
structure Acyclic : Prop where
  same : ∀ (n : Nat) (el : Elem α), X.M.elems[n]? = some el → ∀ m ∈ sameRefs el, m < X.len ∧ X.r m < X.r n
  prev : ∀ (n : Nat) (el : Elem α), X.M.elems[n]? = some el → ∀ m ∈ prevRefs el, m < X.len
  bound : ∀ n, n < X.len → X.r n ≤ X.len
  pts : ∀ (n : Nat) (el : Elem α), X.M.elems[n]? = some el → hasPoints el = true

end Ctx

open Ctx

variable {X : Ctx T α}

theorem Good.mono {B B' n k : Nat} (h : X.Good B n k) (hB : B ≤ B') : X.Good B' n k := by
  obtain ⟨v, h1, h2⟩ := h
  exact ⟨v, fun f hf => h1 f (Nat.le_trans hB hf), fun f hf => h2 f (Nat.le_trans hB hf)⟩

/-! ### Combinators for `Evals` -/

theorem Evals.lit (B : Nat) (t : T) (a : α) : X.Evals B t (.lit a) a := by
  intro f _ mm hmm; exact ⟨mm, by simp [evalTm], hmm⟩

theorem Evals.int (B : Nat) (t : T) (i : Int) : X.Evals B t (.int i) (X.C.int i) := by
  intro f _ mm hmm; exact ⟨mm, by simp [evalTm], hmm⟩

theorem Evals.dt (B : Nat) (t : T) : X.Evals B t .dt X.M.dtv := by
  intro f _ mm hmm; exact ⟨mm, by simp [evalTm], hmm⟩

theorem Evals.time (B : Nat) (t : T) : X.Evals B t .time (X.ts.val t) := by
  intro f _ mm hmm; exact ⟨mm, by simp [evalTm], hmm⟩

theorem Evals.memo {B n k : Nat} {t : T} (te : TE) (hg : X.Good B n k)
    (ht : X.ts.norm (teTime X.ts t te) = X.label k) :
    ∃ v, (∀ f, B ≤ f → X.eu f n k = some v) ∧ X.Evals B t (.memo n te) v := by
  obtain ⟨v, h1, h2⟩ := hg
  refine ⟨v, h1, ?_⟩
  intro f hf mm hmm
  obtain ⟨m', hc, hm'⟩ := h2 f hf mm hmm _ ht
  exact ⟨m', by simpa [evalTm] using hc, hm'⟩

theorem Evals.bin {B : Nat} {t : T} {l r : Tm α} {a b : α} (o : Op)
    (hl : X.Evals B t l a) (hr : X.Evals B t r b) : X.Evals B t (.bin o l r) (X.C.bin o a b) := by
  intro f hf mm hmm
  obtain ⟨m1, h1, hm1⟩ := hl f hf mm hmm
  obtain ⟨m2, h2, hm2⟩ := hr f hf m1 hm1
  exact ⟨m2, by simp [evalTm, h1, h2], hm2⟩

theorem Evals.mx {B : Nat} {t : T} {l r : Tm α} {a b : α}
    (hl : X.Evals B t l a) (hr : X.Evals B t r b) : X.Evals B t (.mx l r) (pyMax X.C a b) := by
  intro f hf mm hmm
  obtain ⟨m1, h1, hm1⟩ := hl f hf mm hmm
  obtain ⟨m2, h2, hm2⟩ := hr f hf m1 hm1
  exact ⟨m2, by simp [evalTm, h1, h2], hm2⟩

theorem Evals.mn {B : Nat} {t : T} {l r : Tm α} {a b : α}
    (hl : X.Evals B t l a) (hr : X.Evals B t r b) : X.Evals B t (.mn l r) (pyMin X.C a b) := by
  intro f hf mm hmm
  obtain ⟨m1, h1, hm1⟩ := hl f hf mm hmm
  obtain ⟨m2, h2, hm2⟩ := hr f hf m1 hm1
  exact ⟨m2, by simp [evalTm, h1, h2], hm2⟩

theorem Evals.ite {B : Nat} {t : T} {a b x y : Tm α} {va vb v : α} (c : Cmp)
    (ha : X.Evals B t a va) (hb : X.Evals B t b vb)
    (hx : X.C.cmp c va vb = true → X.Evals B t x v) (hy : X.C.cmp c va vb = false → X.Evals B t y v) :
    X.Evals B t (.ite c a b x y) v := by
  intro f hf mm hmm
  obtain ⟨m1, h1, hm1⟩ := ha f hf mm hmm
  obtain ⟨m2, h2, hm2⟩ := hb f hf m1 hm1
  cases hc : X.C.cmp c va vb with
  | true =>
    obtain ⟨m3, h3, hm3⟩ := hx hc f hf m2 hm2
    exact ⟨m3, by simp [evalTm, h1, h2, hc, h3], hm3⟩
  | false =>
    obtain ⟨m3, h3, hm3⟩ := hy hc f hf m2 hm2
    exact ⟨m3, by simp [evalTm, h1, h2, hc, h3], hm3⟩

theorem Evals.ifStartT {B : Nat} {t : T} {x y : Tm α} {v : α} (hs : X.ts.leStart t = true)
    (hx : X.Evals B t x v) : X.Evals B t (.ifStart x y) v := by
  intro f hf mm hmm
  obtain ⟨m1, h1, hm1⟩ := hx f hf mm hmm
  exact ⟨m1, by simp [evalTm, hs, h1], hm1⟩

theorem Evals.ifStartF {B : Nat} {t : T} {x y : Tm α} {v : α} (hs : X.ts.leStart t = false)
    (hy : X.Evals B t y v) : X.Evals B t (.ifStart x y) v := by
  intro f hf mm hmm
  obtain ⟨m1, h1, hm1⟩ := hy f hf mm hmm
  exact ⟨m1, by simp [evalTm, hs, h1], hm1⟩

theorem Evals.lerp {B : Nat} {t : T} {e : Tm α} {x v : α} {pts : List (α × α)}
    (he : X.Evals B t e x) (hv : lerp X.C pts x = some v) : X.Evals B t (.lerp e pts) v := by
  intro f hf mm hmm
  obtain ⟨m1, h1, hm1⟩ := he f hf mm hmm
  exact ⟨m1, by simp [evalTm, h1, hv], hm1⟩

/-! ### Equations: reference evaluation and code evaluation agree -/

/-- reference evaluation of an equation at index `k`, for every fuel ≥ B -/
def EVal (X : Ctx T α) (B k : Nat) (e : Ex α) (v : α) : Prop :=
  ∀ f, B ≤ f → evalEx X.C X.M.dtv (X.tv k) (fun m => X.eu f m k) e = some v

theorem cEx_ok {B k : Nat} (hk : X.ts.norm (X.label k) = X.label k) (hval : X.ts.val (X.label k) = X.tv k)
    (e : Ex α) (hrefs : ∀ m ∈ exRefs e, X.Good B m k) :
    ∃ v, EVal X B k e v ∧ X.Evals B (X.label k) (cEx .cur e) v := by
  induction e with
  | lit a => exact ⟨a, fun f _ => by simp [evalEx], by simpa [cEx] using Evals.lit B _ a⟩
  | int i => exact ⟨X.C.int i, fun f _ => by simp [evalEx], by simpa [cEx] using Evals.int B _ i⟩
  | ref n =>
    obtain ⟨v, h1, h2⟩ := Evals.memo (t := X.label k) .cur (hrefs n (by simp [exRefs])) (by simpa [teTime] using hk)
    exact ⟨v, fun f hf => by simpa [evalEx] using h1 f hf, by simpa [cEx] using h2⟩
  | time =>
    refine ⟨X.tv k, fun f _ => by simp [evalEx], ?_⟩
    have := Evals.time (X := X) B (X.label k)
    rw [hval] at this
    simpa [cEx] using this
  | dt => exact ⟨X.M.dtv, fun f _ => by simp [evalEx], by simpa [cEx] using Evals.dt B _⟩
  | bin o l r ihl ihr =>
    obtain ⟨a, ha1, ha2⟩ := ihl (fun m hm => hrefs m (by simp [exRefs, hm]))
    obtain ⟨b, hb1, hb2⟩ := ihr (fun m hm => hrefs m (by simp [exRefs, hm]))
    exact ⟨X.C.bin o a b, fun f hf => by simp [evalEx, ha1 f hf, hb1 f hf], by simpa [cEx] using Evals.bin o ha2 hb2⟩
  | mx l r ihl ihr =>
    obtain ⟨a, ha1, ha2⟩ := ihl (fun m hm => hrefs m (by simp [exRefs, hm]))
    obtain ⟨b, hb1, hb2⟩ := ihr (fun m hm => hrefs m (by simp [exRefs, hm]))
    exact ⟨pyMax X.C a b, fun f hf => by simp [evalEx, ha1 f hf, hb1 f hf], by simpa [cEx] using Evals.mx ha2 hb2⟩
  | mn l r ihl ihr =>
    obtain ⟨a, ha1, ha2⟩ := ihl (fun m hm => hrefs m (by simp [exRefs, hm]))
    obtain ⟨b, hb1, hb2⟩ := ihr (fun m hm => hrefs m (by simp [exRefs, hm]))
    exact ⟨pyMin X.C a b, fun f hf => by simp [evalEx, ha1 f hf, hb1 f hf], by simpa [cEx] using Evals.mn ha2 hb2⟩
  | ite c a b x y iha ihb ihx ihy =>
    obtain ⟨va, ha1, ha2⟩ := iha (fun m hm => hrefs m (by simp [exRefs, hm]))
    obtain ⟨vb, hb1, hb2⟩ := ihb (fun m hm => hrefs m (by simp [exRefs, hm]))
    obtain ⟨vx, hx1, hx2⟩ := ihx (fun m hm => hrefs m (by simp [exRefs, hm]))
    obtain ⟨vy, hy1, hy2⟩ := ihy (fun m hm => hrefs m (by simp [exRefs, hm]))
    cases hc : X.C.cmp c va vb with
    | true =>
      refine ⟨vx, fun f hf => by simp [evalEx, ha1 f hf, hb1 f hf, hc, hx1 f hf], ?_⟩
      simpa [cEx] using Evals.ite c ha2 hb2 (fun _ => hx2) (fun h => by simp [hc] at h)
    | false =>
      refine ⟨vy, fun f hf => by simp [evalEx, ha1 f hf, hb1 f hf, hc, hy1 f hf], ?_⟩
      simpa [cEx] using Evals.ite c ha2 hb2 (fun h => by simp [hc] at h) (fun _ => hy2)

/-! ### Sums of flows one step back -/

theorem sum_ok {B k : Nat} {t : T} (ht : X.ts.norm (X.ts.prev t) = X.label k) (ns : List Nat)
    (hrefs : ∀ m ∈ ns, X.Good B m k) (accTm : Tm α) (acc : α) (hacc : X.Evals B t accTm acc) :
    ∃ v, (∀ f, B ≤ f → sumAcc X.C (fun m => X.eu f m k) acc ns = some v) ∧
      X.Evals B t (sumTm .prev accTm ns) v := by
  induction ns generalizing accTm acc with
  | nil => exact ⟨acc, fun f _ => by simp [sumAcc], by simpa [sumTm] using hacc⟩
  | cons n ns ih =>
    obtain ⟨v, h1, h2⟩ := Evals.memo (t := t) .prev (hrefs n (by simp)) (by simpa [teTime] using ht)
    obtain ⟨w, hw1, hw2⟩ := ih (fun m hm => hrefs m (by simp [hm])) (.bin .add accTm (.memo n .prev))
      (X.C.bin .add acc v) (Evals.bin .add hacc h2)
    exact ⟨w, fun f hf => by simp [sumAcc, h1 f hf, hw1 f hf], by simpa [sumTm] using hw2⟩

theorem sumL_ok {B k : Nat} {t : T} (ht : X.ts.norm (X.ts.prev t) = X.label k) (n : Nat) (ns : List Nat)
    (hrefs : ∀ m ∈ n :: ns, X.Good B m k) :
    ∃ v, (∀ f, B ≤ f → sumL X.C (fun m => X.eu f m k) n ns = some v) ∧
      X.Evals B t (sumTm .prev (.memo n .prev) ns) v := by
  obtain ⟨v, h1, h2⟩ := Evals.memo (t := t) .prev (hrefs n (by simp)) (by simpa [teTime] using ht)
  obtain ⟨w, hw1, hw2⟩ := sum_ok ht ns (fun m hm => hrefs m (by simp [hm])) _ v h2
  exact ⟨w, fun f hf => by simp [sumL, h1 f hf, hw1 f hf], hw2⟩

theorem net_ok {B k : Nat} {t : T} (ht : X.ts.norm (X.ts.prev t) = X.label k) (ins outs : List Nat)
    (hrefs : ∀ m ∈ ins ++ outs, X.Good B m k) :
    ∃ d, (∀ f, B ≤ f → net X.C (fun m => X.eu f m k) ins outs = some d) ∧
      X.Evals B t (netTm ins outs) d := by
  match ins, outs with
  | [], [] => exact ⟨X.C.int 0, fun f _ => by simp [net], by simpa [netTm] using Evals.int B t 0⟩
  | i :: is, [] =>
    obtain ⟨v, h1, h2⟩ := sumL_ok ht i is (fun m hm => hrefs m (by simpa using hm))
    exact ⟨v, fun f hf => by simp [net, h1 f hf], by simpa [netTm] using h2⟩
  | [], o :: os =>
    obtain ⟨v, h1, h2⟩ := sumL_ok ht o os (fun m hm => hrefs m (by simpa using hm))
    exact ⟨X.C.bin .mul (X.C.int (-1)) v, fun f hf => by simp [net, h1 f hf],
      by simpa [netTm] using Evals.bin .mul (Evals.int B t (-1)) h2⟩
  | i :: is, o :: os =>
    obtain ⟨a, ha1, ha2⟩ := sumL_ok ht i is (fun m hm => hrefs m (by
      simp only [List.mem_append]; exact Or.inl hm))
    obtain ⟨b, hb1, hb2⟩ := sumL_ok ht o os (fun m hm => hrefs m (by
      simp only [List.mem_append]; exact Or.inr hm))
    exact ⟨X.C.bin .sub a b, fun f hf => by simp [net, ha1 f hf, hb1 f hf],
      by simpa [netTm] using Evals.bin .sub ha2 hb2⟩

/-! ### The memo never returns a wrong value -/

theorem find_ok (hG : X.GridOK) {mm : Memo T α} (hmm : X.MemoOK mm) {n k : Nat} {v : α} (hk : k ≤ X.N)
    (h : Memo.find X.ts mm n (X.label k) = some v) : X.Val n k v := by
  induction mm with
  | nil => simp [Memo.find] at h
  | cons e rest ih =>
    obtain ⟨n', t', v'⟩ := e
    simp only [Memo.find] at h
    split at h
    · rename_i hc
      obtain ⟨hn, hkey⟩ := hc
      obtain ⟨k', hk', ht', hval⟩ := hmm (n', t', v') (by simp)
      simp only at ht' hval
      subst hn
      subst ht'
      have hkk := hG.keyInj k' k hk' hk hkey
      subst hkk
      simp only [Option.some.injEq] at h
      subst h
      exact hval
    · exact ih (fun e he => hmm e (by simp [he])) h

/-! ### One element, given the elements it depends on -/

theorem mu_same {n m k : Nat} (h : X.r m < X.r n) : X.mu m k < X.mu n k := by
  simp only [Ctx.mu]; omega

theorem mu_prev {n m k : Nat} (h : X.r m ≤ X.len) : X.mu m k < X.mu n (k + 1) := by
  simp only [Ctx.mu]
  have := Nat.succ_mul k (X.len + 1)
  simp only [Nat.succ_eq_add_one] at this
  omega

theorem elem_ok (hG : X.GridOK) (hA : X.Acyclic) {n k B : Nat} (hk : k ≤ X.N)
    (ih : ∀ m j, m < X.len → j ≤ X.N → X.mu m j < X.mu n k → X.Good B m j)
    (el : Elem α) (hel : X.M.elems[n]? = some el) :
    ∃ v, (∀ f, B ≤ f → X.eu (f + 1) n k = some v) ∧ X.Evals B (X.label k) (compileElem n el) v := by
  have hsame : ∀ m ∈ sameRefs el, X.Good B m k := fun m hm =>
    ih m k (hA.same n el hel m hm).1 hk (mu_same (hA.same n el hel m hm).2)
  have hnl := hG.normLabel k hk
  have hvl := hG.valLabel k hk
  cases el with
  | aux e =>
    obtain ⟨v, h1, h2⟩ := cEx_ok hnl hvl e (by simpa [sameRefs] using hsame)
    exact ⟨v, fun f hf => by simpa [Ctx.eu, eulerF, hel] using h1 f hf, by simpa [compileElem] using h2⟩
  | flow nn e =>
    obtain ⟨v, h1, h2⟩ := cEx_ok hnl hvl e (by simpa [sameRefs] using hsame)
    have h1' : ∀ f, B ≤ f → evalEx X.C X.M.dtv (X.tv k) (fun m => eulerF X.C X.M X.tv f m k) e = some v :=
      fun f hf => by simpa [Ctx.eu] using h1 f hf
    cases nn with
    | true =>
      exact ⟨pyMax X.C (X.C.int 0) v, fun f hf => by simp [Ctx.eu, eulerF, hel, h1' f hf],
        by simpa [compileElem] using Evals.mx (Evals.int B _ 0) h2⟩
    | false =>
      exact ⟨v, fun f hf => by simp [Ctx.eu, eulerF, hel, h1' f hf], by simpa [compileElem] using h2⟩
  | gf e pts =>
    obtain ⟨x, h1, h2⟩ := cEx_ok hnl hvl e (by simpa [sameRefs] using hsame)
    have h1' : ∀ f, B ≤ f → evalEx X.C X.M.dtv (X.tv k) (fun m => eulerF X.C X.M X.tv f m k) e = some x :=
      fun f hf => by simpa [Ctx.eu] using h1 f hf
    have hp := hA.pts n _ hel
    obtain ⟨v, hv⟩ : ∃ v, lerp X.C pts x = some v := by
      cases pts with
      | nil => simp [hasPoints] at hp
      | cons p rest =>
        simp only [lerp]
        split
        · exact ⟨_, rfl⟩
        · split
          · exact ⟨_, rfl⟩
          · exact ⟨_, rfl⟩
    exact ⟨v, fun f hf => by simp [Ctx.eu, eulerF, hel, h1' f hf, hv],
      by simpa [compileElem] using Evals.lerp h2 hv⟩
  | gflow nn e pts =>
    obtain ⟨x, h1, h2⟩ := cEx_ok hnl hvl e (by simpa [sameRefs] using hsame)
    have h1' : ∀ f, B ≤ f → evalEx X.C X.M.dtv (X.tv k) (fun m => eulerF X.C X.M X.tv f m k) e = some x :=
      fun f hf => by simpa [Ctx.eu] using h1 f hf
    have hp := hA.pts n _ hel
    obtain ⟨v, hv⟩ : ∃ v, lerp X.C pts x = some v := by
      cases pts with
      | nil => simp [hasPoints] at hp
      | cons p rest =>
        simp only [lerp]
        split
        · exact ⟨_, rfl⟩
        · split
          · exact ⟨_, rfl⟩
          · exact ⟨_, rfl⟩
    cases nn with
    | true =>
      exact ⟨pyMax X.C (X.C.int 0) v, fun f hf => by simp [Ctx.eu, eulerF, hel, h1' f hf, hv],
        by simpa [compileElem] using Evals.mx (Evals.int B _ 0) (Evals.lerp h2 hv)⟩
    | false =>
      exact ⟨v, fun f hf => by simp [Ctx.eu, eulerF, hel, h1' f hf, hv],
        by simpa [compileElem] using Evals.lerp h2 hv⟩
  | stock init ins outs =>
    cases k with
    | zero =>
      obtain ⟨v, h1, h2⟩ := cEx_ok hnl hvl init (by simpa [sameRefs] using hsame)
      have h1' : ∀ f, B ≤ f → evalEx X.C X.M.dtv (X.tv 0) (fun m => eulerF X.C X.M X.tv f m 0) init = some v :=
        fun f hf => by simpa [Ctx.eu] using h1 f hf
      exact ⟨v, fun f hf => by simp [Ctx.eu, eulerF, hel, h1' f hf],
        by simpa [compileElem, stockTm] using Evals.ifStartT hG.start0 h2⟩
    | succ k' =>
      have hk' : k' ≤ X.N := by omega
      have hnlen : n < X.len := by
        simp only [Ctx.len]
        exact (List.getElem?_eq_some_iff.mp hel).1
      have ht := hG.prevLabel k' hk
      have hself : X.Good B n k' := ih n k' hnlen hk' (mu_prev (hA.bound n hnlen))
      have hflows : ∀ m ∈ ins ++ outs, X.Good B m k' := fun m hm => by
        have hml := hA.prev n _ hel m (by simpa [prevRefs] using hm)
        exact ih m k' hml hk' (mu_prev (hA.bound m hml))
      obtain ⟨s, hs1, hs2⟩ := Evals.memo (t := X.label (k' + 1)) .prev hself (by simpa [teTime] using ht)
      obtain ⟨d, hd1, hd2⟩ := net_ok ht ins outs hflows
      have hs1' : ∀ f, B ≤ f → eulerF X.C X.M X.tv f n k' = some s := fun f hf => by simpa [Ctx.eu] using hs1 f hf
      have hd1' : ∀ f, B ≤ f → net X.C (fun m => eulerF X.C X.M X.tv f m k') ins outs = some d :=
        fun f hf => by simpa [Ctx.eu] using hd1 f hf
      refine ⟨X.C.bin .add s (X.C.bin .mul X.M.dtv d), fun f hf => by simp [Ctx.eu, eulerF, hel, hs1' f hf, hd1' f hf], ?_⟩
      simpa [compileElem, stockTm] using
        Evals.ifStartF (x := cEx .cur init) (hG.startS k' hk) (Evals.bin .add hs2 (Evals.bin .mul (Evals.dt B _) hd2))

/-! ### Main induction -/

theorem good (hG : X.GridOK) (hA : X.Acyclic) (hcode : ∀ n el, X.M.elems[n]? = some el → X.code n = some (compileElem n el)) :
    ∀ b n k, X.mu n k < b → n < X.len → k ≤ X.N → X.Good (X.mu n k + 1) n k := by
  intro b
  induction b with
  | zero => intro n k h; omega
  | succ b ihb =>
    intro n k hlt hn hk
    obtain ⟨el, hel⟩ : ∃ el, X.M.elems[n]? = some el := ⟨X.M.elems[n]'hn, List.getElem?_eq_getElem hn⟩
    obtain ⟨v, hv1, hv2⟩ := elem_ok (B := X.mu n k) hG hA hk
      (fun m j hm hj hlt' => Good.mono (ihb m j (by omega) hm hj) (by omega)) el hel
    have hval : X.Val n k v := fun f hf => by
      obtain ⟨f', rfl⟩ : ∃ f', f = f' + 1 := ⟨f - 1, by omega⟩
      exact hv1 f' (by omega)
    refine ⟨v, hval, ?_⟩
    intro f hf mm hmm t ht
    obtain ⟨f', rfl⟩ : ∃ f', f = f' + 1 := ⟨f - 1, by omega⟩
    simp only [Ctx.call, memoize, ht]
    cases hfind : Memo.find X.ts mm n (X.label k) with
    | some v' =>
      have hv' := find_ok hG hmm hk hfind
      have e1 := hv' (X.mu n k + 1) (Nat.le_refl _)
      have e2 := hval (X.mu n k + 1) (Nat.le_refl _)
      rw [e1] at e2
      simp only [Option.some.injEq] at e2
      subst e2
      exact ⟨mm, rfl, hmm⟩
    | none =>
      obtain ⟨m', he, hm'⟩ := hv2 f' (by omega) mm hmm
      simp only [Ctx.call] at he
      simp only [hcode n el hel, he]
      refine ⟨_, rfl, ?_⟩
      intro e hmem
      rcases List.mem_cons.mp hmem with rfl | hmem'
      · exact ⟨k, hk, rfl, hval⟩
      · exact hm' e hmem'

/-! ### The same graph in the SD DSL compiles to the same code -/

def compileDsl (es : List (DslElem α)) (n : Nat) : Option (Tm α) := (es[n]?).map (compileDslElem n)

theorem cEx_sumEx (te : TE) (ns : List Nat) (acc : Ex α) :
    cEx te (sumEx acc ns) = sumTm te (cEx te acc) ns := by
  induction ns generalizing acc with
  | nil => simp [sumEx, sumTm]
  | cons n ns ih => simp [sumEx, sumTm, ih, cEx]

theorem cEx_netEx (ins outs : List Nat) : cEx (α := α) .prev (netEx ins outs) = netTm ins outs := by
  match ins, outs with
  | [], [] => simp [netEx, netTm, cEx]
  | i :: is, [] => simp [netEx, netTm, cEx, cEx_sumEx]
  | [], o :: os => simp [netEx, netTm, cEx, cEx_sumEx]
  | i :: is, o :: os => simp [netEx, netTm, cEx, cEx_sumEx]

/-- writing the net flow as `(i0+i1+…) - (o0+o1+…)` in the DSL gives, element by element, the code the
XMILE transpiler emits -/
theorem compileDsl_toDsl (n : Nat) (el : Elem α) : compileDslElem n (toDsl el) = compileElem n el := by
  cases el with
  | stock init ins outs => simp [toDsl, compileDslElem, compileElem, stockTm, cEx_netEx]
  | flow nn e => cases nn <;> simp [toDsl, compileDslElem, compileElem]
  | aux e => simp [toDsl, compileDslElem, compileElem]
  | gf e pts => simp [toDsl, compileDslElem, compileElem]
  | gflow nn e pts => cases nn <;> simp [toDsl, compileDslElem, compileElem]

/-! ### The property -/

/-- mechanism fact, probed on every run: does the generated `memoize` normalise its time argument? -/
structure Cfg where
  memoNormalises : Bool
  /-- wave 11: `SdSimulation.__simulate` walks the output grid with the dt the (transpiled) model integrates with
  (`self.mod.dt`, which scenario run specs overwrite), not with a copy taken before the run specs were applied -/
  xmileRunGridUsesModelDt : Bool := true
deriving DecidableEq, Repr

def Cfg.good (c : Cfg) : Bool := c.memoNormalises && c.xmileRunGridUsesModelDt

namespace Ctx
/-- time representations on which the code with mechanism `c` runs: facts about the labels themselves
hold for every float-like representation; that the key computed from `t - dt` is the previous label is
only granted when `memoize` normalises. -/
structure Admissible (X : Ctx T α) (c : Cfg) : Prop where
  normLabel : ∀ k, k ≤ X.N → X.ts.norm (X.label k) = X.label k
  start0 : X.ts.leStart (X.label 0) = true
  startS : ∀ k, k + 1 ≤ X.N → X.ts.leStart (X.label (k + 1)) = false
  keyInj : ∀ i j, i ≤ X.N → j ≤ X.N → X.ts.keyEq (X.label i) (X.label j) = true → i = j
  valLabel : ∀ k, k ≤ X.N → X.ts.val (X.label k) = X.tv k
  prevLabel : c.memoNormalises = true → ∀ k, k + 1 ≤ X.N → X.ts.norm (X.ts.prev (X.label (k + 1))) = X.label k

/-- the code is the transpiled XMILE model of the graph, or the SD-DSL model of the same graph -/
def RunsGraph (X : Ctx T α) : Prop :=
  X.code = compile X.M ∨ X.code = compileDsl (X.M.elems.map toDsl)

/-- every element at every grid index: the Euler value exists and the memoised run — from any memo
produced by earlier evaluations, with any sufficient recursion budget — returns exactly it -/
def EulerExact (X : Ctx T α) : Prop :=
  ∀ n k, n < X.len → k ≤ X.N →
    ∃ v, euler X.C X.M X.tv n k = some v ∧
      ∀ f mm, X.mu n k + 1 ≤ f → X.MemoOK mm →
        runVal X.C X.ts X.M.dtv X.code f mm n (X.label k) = some v
end Ctx

/-- C04 at full strength: for every carrier, time representation admitted by the mechanism, acyclic
stock/flow graph (XMILE code or DSL code), element and grid index. -/
def C04_euler (c : Cfg) : Prop :=
  ∀ (T α : Type) (X : Ctx T α), X.Admissible c → X.Acyclic → X.RunsGraph → X.EulerExact

/-- times of the rows of a run (`SdSimulation.__simulate`): `timerange(start, stop, dt?, exclusive=False)` where `dt?` is the dt
the model integrates with (`dt`) when the fact holds, else the dt the simulation object copied at construction (`dtFile`, the
`<dt>` of the XMILE file when a scenario overrides it) -/
def rowTimes (c : Cfg) (fl : ℚ → ℚ) (fuel : ℕ) (start stop dt dtFile : ℚ) (prec : ℕ) : Option (List ℚ) :=
  Bptk.C05.timerangeP fl fuel start stop (if c.xmileRunGridUsesModelDt then dt else dtFile) prec false

/-- the rows of a run are labelled by the grid of the run specs the model integrates with: for every float model, every
decimal grid (start, dt), every number of steps n (C05's budget) and whatever dt the file had, the row times are exactly the
labels `0 … n` of that grid -/
def C04_rows (c : Cfg) : Prop :=
  ∀ (F : Bptk.C05.Fl) (G : Bptk.C05.Grid) (n : ℕ) (r : ℚ), Bptk.C05.Budget F G (n + 1) r → ∀ fuel, n + 2 ≤ fuel → ∀ dtFile : ℚ,
    rowTimes c F.fl fuel (G.s F) (Bptk.C05.label F G n) (G.h F) dtFile G.p
      = some ((List.range (n + 1)).map (fun i : ℕ => Bptk.C05.label F G (i : ℤ)))

/-- C04 at full strength: Euler-exact values (`C04_euler`) on rows labelled by the grid of the integration run specs
(`C04_rows`) -/
def C04_full (c : Cfg) : Prop := C04_euler c ∧ C04_rows c

theorem code_of_runsGraph (h : X.RunsGraph) :
    ∀ n el, X.M.elems[n]? = some el → X.code n = some (compileElem n el) := by
  intro n el hel
  rcases h with h | h
  · simp [h, compile, hel]
  · simp [h, compileDsl, List.getElem?_map, hel, compileDsl_toDsl]

theorem memoOK_nil : X.MemoOK [] := by intro e he; simp at he

/-- run = euler whenever the keys land on the grid (the core theorem; `xmile_run_eq_euler`) -/
theorem xmile_run_eq_euler (hG : X.GridOK) (hA : X.Acyclic) (hR : X.RunsGraph) : X.EulerExact := by
  intro n k hn hk
  obtain ⟨v, h1, h2⟩ := good hG hA (code_of_runsGraph hR) (X.mu n k + 1) n k (by omega) hn hk
  refine ⟨v, ?_, ?_⟩
  · have hb := hA.bound n hn
    have : X.mu n k + 1 ≤ fuelFor X.M.elems.length X.M.elems.length k := by
      simp only [Ctx.mu, fuelFor, Ctx.len] at *; omega
    simpa [euler, Ctx.eu] using h1 _ this
  · intro f mm hf hmm
    obtain ⟨m', hc, _⟩ := h2 f hf mm hmm (X.label k) (hG.normLabel k hk)
    simp only [Ctx.call] at hc
    simp [runVal, hc]

theorem gridOK_of_admissible {c : Cfg} (h : X.Admissible c) (hc : c.memoNormalises = true) : X.GridOK :=
  ⟨h.normLabel, h.prevLabel hc, h.start0, h.startS, h.keyInj, h.valLabel⟩

theorem C04_full_of_good (c : Cfg) (h : c.good = true) : C04_full c := by
  simp only [Cfg.good, Bool.and_eq_true] at h
  refine ⟨?_, ?_⟩
  · intro T α X hadm hA hR
    exact xmile_run_eq_euler (gridOK_of_admissible hadm h.1) hA hR
  · intro F G n r B fuel hf dtFile
    simp only [rowTimes, h.2, if_true]
    exact Bptk.C05.timerange_spec F G n r B fuel hf

/-- whatever the mechanism: if `t - dt` from a label is (after `norm`) the previous label — exact
arithmetic, e.g. a dyadic dt with representable grid — the run is Euler-exact -/
theorem C04_partial (c : Cfg) (T α : Type) (X : Ctx T α) (hadm : X.Admissible c)
    (hexact : ∀ k, k + 1 ≤ X.N → X.ts.norm (X.ts.prev (X.label (k + 1))) = X.label k)
    (hA : X.Acyclic) (hR : X.RunsGraph) : X.EulerExact :=
  xmile_run_eq_euler ⟨hadm.normLabel, hexact, hadm.start0, hadm.startS, hadm.keyInj, hadm.valLabel⟩ hA hR

/-- XMILE code and DSL code of the same graph produce the same trajectory -/
theorem dsl_xmile_agree (X Y : Ctx T α) (hM : Y.M = X.M) (hC : Y.C = X.C) (htv : Y.tv = X.tv)
    (hXc : X.code = compile X.M) (hYc : Y.code = compileDsl (Y.M.elems.map toDsl))
    (hGX : X.GridOK) (hGY : Y.GridOK) (hAX : X.Acyclic) (hAY : Y.Acyclic)
    (n k : Nat) (hn : n < X.len) (hkX : k ≤ X.N) (hkY : k ≤ Y.N) (f g : Nat)
    (hf : X.mu n k + 1 ≤ f) (hg : Y.mu n k + 1 ≤ g) :
    runVal X.C X.ts X.M.dtv X.code f [] n (X.label k) = runVal Y.C Y.ts Y.M.dtv Y.code g [] n (Y.label k) := by
  obtain ⟨v, hv, hrun⟩ := xmile_run_eq_euler hGX hAX (Or.inl hXc) n k hn hkX
  obtain ⟨w, hw, hrun'⟩ := xmile_run_eq_euler hGY hAY (Or.inr hYc) n k (by simpa [Ctx.len, hM] using hn) hkY
  rw [hM, hC, htv, hv] at hw
  simp only [Option.some.injEq] at hw
  subst hw
  rw [hrun f [] hf memoOK_nil, hrun' g [] hg memoOK_nil]

/-! ### Exact time arithmetic: every exactly representable grid (dyadic dt), raw keys -/

/-- times as integer multiples of a quantum (2^-p): subtraction is exact, no normalisation needed -/
def exactTS (d s : Int) (tv : Nat → α) : TimeSem Int α where
  prev := fun t => t - d
  norm := id
  leStart := fun t => decide (t ≤ s)
  keyEq := fun a b => a == b
  val := fun t => tv ((t - s) / d).toNat

theorem exact_dt_partial (C : Carrier α) (M : Model α) (tv : Nat → α) (r : Nat → Nat) (N : Nat) (d s : Int)
    (hd : 0 < d)
    (hA : (Ctx.mk C (exactTS d s tv) M tv (fun k => s + k * d) N r (compile M)).Acyclic) :
    (Ctx.mk C (exactTS d s tv) M tv (fun k => s + k * d) N r (compile M)).EulerExact := by
  apply xmile_run_eq_euler _ hA (Or.inl rfl)
  refine ⟨fun k _ => rfl, ?_, ?_, ?_, ?_, ?_⟩
  · intro k _
    simp only [exactTS, id]
    push_cast
    rw [Int.add_mul]
    omega
  · simp [exactTS]
  · intro k _
    simp only [exactTS, decide_eq_false_iff_not, Int.not_le]
    have : 0 < ((k : Int) + 1) * d := Int.mul_pos (by omega) hd
    push_cast
    omega
  · intro i j _ _ h
    simp only [exactTS, beq_iff_eq] at h
    have h' : (i : Int) * d = j * d := by omega
    have := Int.eq_of_mul_eq_mul_right (Int.ne_of_gt hd) h'
    exact_mod_cast this
  · intro k _
    simp only [exactTS]
    have : (s + (k : Int) * d - s) / d = k := by
      have e : s + (k : Int) * d - s = k * d := by omega
      rw [e]
      exact Int.mul_ediv_cancel _ (Int.ne_of_gt hd)
    rw [this]
    simp

/-! ### Negation witness: raw float keys, dt = 0.1 -/

def wLabel (k : Nat) : Float := [0.0, 0.1, 0.2, 0.3, 0.4].getD k 0.4

/-- one stock, one inflow that is constantly 1, dt = 1, on the integers: the value of the stock at index
`k` is the number of integration steps taken -/
def wM : Model Int := { elems := [.stock (.int 0) [1] [], .flow true (.int 1)], dtv := 1 }

def wTS : TimeSem Float Int where
  prev := fun t => t - 0.1
  norm := id
  leStart := fun t => t <= 0.0
  keyEq := fun a b => a == b
  val := fun _ => 0

def wX : Ctx Float Int :=
  { C := intCarrier, ts := wTS, M := wM, tv := fun _ => 0, label := wLabel, N := 4, r := fun _ => 0, code := compile wM }

/-- the drift itself, checked by the kernel on doubles: four times `- 0.1` from 0.4 stays above 0 -/
theorem xmile_drift_witness : ((0.4 : Float) - 0.1 - 0.1 - 0.1 - 0.1 <= 0.0) = false := by decide +kernel

theorem wX_acyclic : wX.Acyclic := by
  refine ⟨?_, ?_, ?_, ?_⟩
  · intro n el h m hm
    match n, h with
    | 0, h => simp [wX, wM] at h; subst h; simp [sameRefs, exRefs] at hm
    | 1, h => simp [wX, wM] at h; subst h; simp [sameRefs, exRefs] at hm
    | n + 2, h => simp [wX, wM] at h
  · intro n el h m hm
    match n, h with
    | 0, h => simp [wX, wM] at h; subst h; simp [prevRefs] at hm; subst hm; simp [Ctx.len, wX, wM]
    | 1, h => simp [wX, wM] at h; subst h; simp [prevRefs] at hm
    | n + 2, h => simp [wX, wM] at h
  · intro n _; simp [wX, Ctx.len, wM]
  · intro n el h
    match n, h with
    | 0, h => simp [wX, wM] at h; subst h; rfl
    | 1, h => simp [wX, wM] at h; subst h; rfl
    | n + 2, h => simp [wX, wM] at h

theorem wX_admissible (c : Cfg) (hc : c.memoNormalises = false) : wX.Admissible c := by
  refine ⟨fun k _ => rfl, by decide +kernel, ?_, ?_, fun k _ => rfl, fun h => by simp [hc] at h⟩
  · intro k hk
    have hk' : k + 1 ≤ 4 := hk
    have : k = 0 ∨ k = 1 ∨ k = 2 ∨ k = 3 := by omega
    rcases this with rfl | rfl | rfl | rfl <;> decide +kernel
  · intro i j hi hj
    have hi' : i ≤ 4 := hi
    have hj' : j ≤ 4 := hj
    have h1 : i = 0 ∨ i = 1 ∨ i = 2 ∨ i = 3 ∨ i = 4 := by omega
    have h2 : j = 0 ∨ j = 1 ∨ j = 2 ∨ j = 3 ∨ j = 4 := by omega
    rcases h1 with rfl | rfl | rfl | rfl | rfl <;> rcases h2 with rfl | rfl | rfl | rfl | rfl <;> decide +kernel

/-- with raw float keys the full property fails: S(0.4) takes five Euler steps -/
theorem C04_witness_raw_keys (c : Cfg) (h : c.memoNormalises = false) : ¬ C04_full c := by
  intro hfull
  obtain ⟨v, he, hr⟩ := hfull.1 Float Int wX (wX_admissible c h) wX_acyclic (Or.inl rfl) 0 4 (by decide) (by decide)
  have h4 : euler wX.C wX.M wX.tv 0 4 = some 4 := by decide +kernel
  have h5 : runVal wX.C wX.ts wX.M.dtv wX.code 40 [] 0 (wX.label 4) = some 5 := by decide +kernel
  have hr' := hr 40 [] (by decide) memoOK_nil
  rw [h4] at he
  rw [h5] at hr'
  simp only [Option.some.injEq] at he hr'
  omega

/-! ### Syntax: the emitted stock equation parses to the intended skeleton -/

open Bptk.Py in
/-- per-run obligation ⇒ for every probed (inflows, outflows) combination the emitted token sequence
parses (CPython binding powers, A1) to the intended parenthesised skeleton, whose denotation is the
stock code of the model -/
theorem skeletons_parse (sk : List (Nat × Nat × List Tok)) (h : skeletonsOK sk = true) :
    ∀ e ∈ sk, Parses e.2.2 (skelPyP (nmS 0) (.num "7.5") ((flowIxs 1 e.1).map nmS) ((flowIxs (1 + e.1) e.2.1).map nmS)) ∧
      tmOfPy ixTable (erase (skelPyP (nmS 0) (.num "7.5") ((flowIxs 1 e.1).map nmS) ((flowIxs (1 + e.1) e.2.1).map nmS))) =
        some (stockTm 0 (.lit "7.5") (flowIxs 1 e.1) (flowIxs (1 + e.1) e.2.1)) := by
  intro e he
  simp only [skeletonsOK, Bool.and_eq_true, List.all_eq_true] at h
  have h1 := h.1 e he
  simp only [skeletonOK, Bool.and_eq_true, decide_eq_true_eq] at h1
  obtain ⟨⟨htoks, hwl⟩, htm⟩ := h1
  refine ⟨?_, htm⟩
  rw [htoks]
  exact parse_print _ hwl

section levels
open Bptk.Py
theorem lvlH_paren (L : Nat) (e : Py) : lvlH L (.paren e) = 100 := rfl
theorem lvlH_bin (L : Nat) (k : BinOp) (l r : Py) : lvlH L (.bin k l r) = bp k := rfl
theorem lvlH_neg (L : Nat) (e : Py) : lvlH L (.neg e) = 7 := rfl
theorem lvlH_num (L : Nat) (s : String) : lvlH L (.num s) = 100 := rfl
theorem lvlH_name (L : Nat) (s : String) : lvlH L (.name s) = 100 := rfl
theorem lvlH_str (L : Nat) (s : String) : lvlH L (.str s) = 100 := rfl
theorem lvlH_attr (L : Nat) (e : Py) (a : String) : lvlH L (.attr e a) = 100 := rfl
theorem lvlH_call (L : Nat) (f : Py) (as : List Py) : lvlH L (.call f as) = 100 := rfl
theorem lvlH_ite (L : Nat) (x c y : Py) : lvlH L (.ite x c y) = 0 := rfl

theorem memoPy_lvl (n : String) (te : TE) : lvlH 0 (memoPy n te) = 100 := by cases te <;> rfl

theorem memoPy_wl (n : String) (te : TE) : WLb 0 (memoPy n te) = true := by
  cases te <;>
    simp [WLb, memoPy, selfAttr, WLbArgs, WLbArg, lvlH_name, lvlH_attr, lvlH_str, lvlH_bin, ldem, rbp, bp]

theorem sumPy_wl (te : TE) (ns : List String) (acc : Py) (hacc : WLb 0 acc = true)
    (hl : 5 ≤ lvlH 0 acc) : WLb 0 (sumPy te acc ns) = true ∧ 5 ≤ lvlH 0 (sumPy te acc ns) := by
  induction ns generalizing acc with
  | nil => exact ⟨by simpa [sumPy] using hacc, by simpa [sumPy] using hl⟩
  | cons n ns ih =>
    simp only [sumPy]
    apply ih
    · simp [WLb, hacc, memoPy_wl, memoPy_lvl, ldem, rbp, bp, hl]
    · simp [lvlH_bin, bp]

theorem sumPy_memo_wl (i : String) (is : List String) :
    WLb 0 (sumPy .prev (memoPy i .prev) is) = true ∧ 5 ≤ lvlH 0 (sumPy .prev (memoPy i .prev) is) :=
  sumPy_wl .prev is (memoPy i .prev) (memoPy_wl i .prev) (by simp [memoPy_lvl])

theorem netPyP_wl (ins outs : List String) : WLb 0 (netPyP ins outs) = true ∧ 7 ≤ lvlH 0 (netPyP ins outs) := by
  match ins, outs with
  | [], [] => simp [netPyP, WLb, lvlH_num]
  | i :: is, [] => simp [netPyP, WLb, lvlH_paren, (sumPy_memo_wl i is).1]
  | [], o :: os =>
    simp [netPyP, WLb, lvlH_paren, lvlH_neg, lvlH_num, (sumPy_memo_wl o os).1, ldem, rbp, bp]
  | i :: is, o :: os =>
    have h1 := sumPy_memo_wl i is
    have h2 := sumPy_memo_wl o os
    simp [netPyP, WLb, lvlH_paren, h1.1, h2.1, h1.2, ldem, rbp, bp]

/-- for ANY number of inflows and outflows the intended text is well-levelled, hence (A1 round trip)
its tokens parse to exactly the intended tree: inflows summed left to right, minus the parenthesised
sum of the outflows, all at `t-self.dt` -/
theorem skelPyP_parses (s : String) (init : Py) (hinit : WLb 0 init = true) (ins outs : List String) :
    Parses (pr (skelPyP s init ins outs)) (skelPyP s init ins outs) := by
  apply parse_print
  have hnet := netPyP_wl ins outs
  have h7 : 7 ≤ lvlH 0 (netPyP ins outs) := hnet.2
  show WLb 0 (skelPyP s init ins outs) = true
  simp [skelPyP, WLb, hinit, memoPy_wl, memoPy_lvl, hnet.1, selfAttr, lvlH_paren, lvlH_bin, lvlH_name, lvlH_attr,
    ldem, rbp, bp]
  omega
end levels

/-! ### Wave 2 (1): the denotation of the stock text, for ANY number of inflows and outflows -/

section names
/-! the string round trip for element names -/

theorem charDigit_digitChar (d : Nat) (h : d < 10) : charDigit (digitChar d) = some d := by
  have : d = 0 ∨ d = 1 ∨ d = 2 ∨ d = 3 ∨ d = 4 ∨ d = 5 ∨ d = 6 ∨ d = 7 ∨ d = 8 ∨ d = 9 := by omega
  rcases this with rfl | rfl | rfl | rfl | rfl | rfl | rfl | rfl | rfl | rfl <;> decide

theorem decAcc_append (acc : Nat) (l : List Char) (c : Char) :
    decAcc acc (l ++ [c]) = (decAcc acc l).bind (fun a => (charDigit c).map (fun d => a * 10 + d)) := by
  induction l generalizing acc with
  | nil => simp [decAcc]; cases charDigit c <;> simp
  | cons x xs ih =>
    simp only [List.cons_append, decAcc]
    cases charDigit x with
    | none => simp
    | some d => exact ih _

theorem encNat_ne_nil (n : Nat) : encNat n ≠ [] := by
  rw [encNat]; split <;> simp

theorem decAcc_encNat (n : Nat) : decAcc 0 (encNat n) = some n := by
  induction n using Nat.strongRecOn with
  | _ n ih =>
    rw [encNat]
    split
    · rename_i h; simp [decAcc, charDigit_digitChar n h]
    · rename_i h
      rw [decAcc_append, ih (n / 10) (by omega), charDigit_digitChar _ (by omega)]
      simp; omega

theorem decNat_encNat (n : Nat) : decNat (encNat n) = some n := by
  have := encNat_ne_nil n
  cases h : encNat n with
  | nil => exact absurd h this
  | cons c cs => simp only [decNat]; rw [← h]; exact decAcc_encNat n

/-- `e<decimal n>` decodes to `n`, for every `n` (the lemma the wave-1 report said was missing) -/
theorem nameIx_nmG (n : Nat) : nameIx (nmG n) = some n := by
  simp [nameIx, nmG, decNat_encNat]

/-- the literal table of the per-run obligations agrees with the generic coding -/
theorem nmS_eq_nmG (n : Nat) (hn : n < 10) : nmS n = nmG n := by
  have : n = 0 ∨ n = 1 ∨ n = 2 ∨ n = 3 ∨ n = 4 ∨ n = 5 ∨ n = 6 ∨ n = 7 ∨ n = 8 ∨ n = 9 := by omega
  rcases this with rfl | rfl | rfl | rfl | rfl | rfl | rfl | rfl | rfl | rfl <;>
    (rw [nmG, encNat]; decide)
end names

section denote
open Bptk.Py

theorem tmOfPy_memo (ix : String → Option Nat) (nm : String) (te : TE) :
    tmOfPy ix (memoPy nm te) = (ix nm).map (fun n => Tm.memo n te) := by
  cases te <;> rfl

theorem erase_memoPy (nm : String) (te : TE) : erase (memoPy nm te) = memoPy nm te := by
  cases te <;> rfl

theorem erase_sumPy (te : TE) (ns : List String) (acc : Py) :
    erase (sumPy te acc ns) = sumPy te (erase acc) ns := by
  induction ns generalizing acc with
  | nil => rfl
  | cons n ns ih => simp only [sumPy]; rw [ih]; simp [erase, erase_memoPy]

/-- erasing the parentheses `StockExpressions` writes gives the intended net-flow tree -/
theorem erase_netPyP (ins outs : List String) : erase (netPyP ins outs) = netPy ins outs := by
  match ins, outs with
  | [], [] => rfl
  | i :: is, [] => simp [netPyP, netPy, erase, erase_sumPy, erase_memoPy]
  | [], o :: os => simp [netPyP, netPy, erase, erase_sumPy, erase_memoPy]
  | i :: is, o :: os => simp [netPyP, netPy, erase, erase_sumPy, erase_memoPy]

theorem tmOfPy_bin (ix : String → Option Nat) (k : BinOp) (l r : Py) (o : Op) (a b : Tm String)
    (ho : opOf k = some o) (hl : tmOfPy ix l = some a) (hr : tmOfPy ix r = some b) :
    tmOfPy ix (.bin k l r) = some (.bin o a b) := by
  simp [tmOfPy, ho, hl, hr]

theorem tmOfPy_ifStart (ix : String → Option Nat) (x y : Py) (a b : Tm String)
    (hx : tmOfPy ix x = some a) (hy : tmOfPy ix y = some b) :
    tmOfPy ix (.ite x (.bin .le (.name "t") (.attr (.name "self") "starttime")) y) = some (.ifStart a b) := by
  simp [tmOfPy, hx, hy]

variable (ix : String → Option Nat) (nm : Nat → String) (hix : ∀ n, ix (nm n) = some n)
include hix

theorem tmOfPy_sumPy (te : TE) (ns : List Nat) (acc : Py) (a : Tm String) (h : tmOfPy ix acc = some a) :
    tmOfPy ix (sumPy te acc (ns.map nm)) = some (sumTm te a ns) := by
  induction ns generalizing acc a with
  | nil => simpa [sumPy, sumTm] using h
  | cons n ns ih =>
    simp only [List.map_cons, sumPy, sumTm]
    apply ih
    exact tmOfPy_bin ix .add _ _ .add _ _ rfl h (by rw [tmOfPy_memo, hix]; rfl)

theorem tmOfPy_sumPy_memo (n : Nat) (ns : List Nat) :
    tmOfPy ix (sumPy .prev (memoPy (nm n) .prev) (ns.map nm)) = some (sumTm .prev (.memo n .prev) ns) :=
  tmOfPy_sumPy ix nm hix .prev ns _ _ (by rw [tmOfPy_memo, hix]; rfl)

/-- the net-flow tree denotes the model's net-flow code (four shapes of `StockExpressions`), all n -/
theorem tmOfPy_netPy (ins outs : List Nat) :
    tmOfPy ix (netPy (ins.map nm) (outs.map nm)) = some (netTm ins outs) := by
  match ins, outs with
  | [], [] => rfl
  | i :: is, [] => simpa [netPy, netTm] using tmOfPy_sumPy_memo ix nm hix i is
  | [], o :: os =>
    simp only [List.map_nil, List.map_cons, netPy, netTm]
    exact tmOfPy_bin ix .mul _ _ .mul _ _ rfl rfl (tmOfPy_sumPy_memo ix nm hix o os)
  | i :: is, o :: os =>
    simp only [List.map_cons, netPy, netTm]
    exact tmOfPy_bin ix .sub _ _ .sub _ _ rfl (tmOfPy_sumPy_memo ix nm hix i is) (tmOfPy_sumPy_memo ix nm hix o os)

/-- **generic denotation theorem**: for ANY lists of inflows and outflows, any stock index, any initial
value text, and any name coding with a left inverse: the emitted stock text (parentheses erased) denotes
the `Tm` code `stockTm` that `compile` assigns to the stock -/
theorem skelPyP_denotes (s : Nat) (init : Py) (it : Tm String) (hinit : tmOfPy ix (erase init) = some it)
    (ins outs : List Nat) :
    tmOfPy ix (erase (skelPyP (nm s) init (ins.map nm) (outs.map nm))) = some (stockTm s it ins outs) := by
  have hnet := tmOfPy_netPy ix nm hix ins outs
  have hmul : tmOfPy ix (.bin .mul (selfAttr "dt") (netPy (ins.map nm) (outs.map nm))) = some (.bin .mul .dt (netTm ins outs)) :=
    tmOfPy_bin ix .mul _ _ .mul _ _ rfl rfl hnet
  have hadd : tmOfPy ix (.bin .add (memoPy (nm s) .prev) (.bin .mul (selfAttr "dt") (netPy (ins.map nm) (outs.map nm))))
      = some (.bin .add (.memo s .prev) (.bin .mul .dt (netTm ins outs))) :=
    tmOfPy_bin ix .add _ _ .add _ _ rfl (by rw [tmOfPy_memo, hix]; rfl) hmul
  simp only [skelPyP, erase, erase_netPyP, erase_memoPy, selfAttr, stockTm] at *
  exact tmOfPy_ifStart ix _ _ _ _ hinit hadd
end denote

section alln
open Bptk.Py

/-- **syntax tie for all n** (`skelPyP_parses` + `skelPyP_denotes` + A1 soundness/determinism): for every
stock index, every well-levelled initial-value text and every list of inflows and outflows, the stock
text (i) parses (CPython binding powers) to the intended parenthesised tree, (ii) that tree denotes the
model's stock code, and (iii) whatever tree the executable parser returns for the text denotes the
model's stock code too -/
theorem stock_text_denotes (s : Nat) (init : Py) (hw : WLb 0 init = true) (it : Tm String)
    (hinit : tmOfPy nameIx (erase init) = some it) (ins outs : List Nat) :
    Parses (pr (skelPyP (nmG s) init (ins.map nmG) (outs.map nmG))) (skelPyP (nmG s) init (ins.map nmG) (outs.map nmG)) ∧
    tmOfPy nameIx (erase (skelPyP (nmG s) init (ins.map nmG) (outs.map nmG))) = some (stockTm s it ins outs) ∧
    ∀ p, parse (pr (skelPyP (nmG s) init (ins.map nmG) (outs.map nmG))) = some p →
      tmOfPy nameIx (erase p) = some (stockTm s it ins outs) := by
  have h1 := skelPyP_parses (nmG s) init hw (ins.map nmG) (outs.map nmG)
  have h2 := skelPyP_denotes nameIx nmG nameIx_nmG s init it hinit ins outs
  refine ⟨h1, h2, ?_⟩
  intro p hp
  rw [parses_unique _ _ _ (parse_sound _ _ hp) h1]
  exact h2

/-- the wave-2 probe of larger shapes, run by the driver on the tokens the real `StockExpressions` +
`parseExpression` emit: if it answers `ok`, the emitted tokens parse to the skeleton and denote the
stock code of a stock with `nin` inflows and `nout` outflows — for any `nin`, `nout` -/
theorem skeletonTextOK_sound (nin nout : Nat) (toks : List Tok) (h : skeletonTextOK nin nout toks = true) :
    Parses toks (skelPyP (nmG 0) (.num "7.5") ((flowIxs 1 nin).map nmG) ((flowIxs (1 + nin) nout).map nmG)) ∧
    ∀ p, parse toks = some p →
      tmOfPy nameIx (erase p) = some (stockTm 0 (.lit "7.5") (flowIxs 1 nin) (flowIxs (1 + nin) nout)) := by
  simp only [skeletonTextOK, decide_eq_true_eq] at h
  subst h
  have h := stock_text_denotes 0 (.num "7.5") (by decide) (.lit "7.5") (by decide) (flowIxs 1 nin) (flowIxs (1 + nin) nout)
  exact ⟨h.1, h.2.2⟩

theorem pr_sumPy (te : TE) (ns : List String) (acc : Py) :
    pr (sumPy te acc ns) = pr acc ++ ns.flatMap (fun n => Tok.op .add :: pr (memoPy n te)) := by
  induction ns generalizing acc with
  | nil => simp [sumPy]
  | cons n ns ih => simp [sumPy, ih, pr]

/-- **`JoinedExpression` for any n**: the right-nested IR the `reduce` loop builds prints — because the
`+` template writes no parentheses — exactly the tokens of the LEFT-nested Python sum; so by
`skelPyP_parses` Python adds the flows left to right, as `sumTm`/`sumAcc` do -/
theorem joined_flat (a : String) (as : List String) :
    renderJ (joinedIR (a :: as)) = pr (sumPy .prev (memoPy a .prev) as) := by
  rw [pr_sumPy]
  induction as generalizing a with
  | nil => simp [joinedIR, renderJ]
  | cons b bs ih => simp [joinedIR, renderJ, ih b]
end alln

/-! ### Graphical functions: the generated LERP is a clamped interpolation -/

theorem lerp_clamped_left (C : Carrier α) (p0 : α × α) (rest : List (α × α)) (x : α)
    (h : C.cmp .le x p0.1 = true) : lerp C (p0 :: rest) x = some p0.2 := by
  simp [lerp, h]

theorem lerp_clamped_right (C : Carrier α) (p0 : α × α) (rest : List (α × α)) (x : α)
    (h0 : C.cmp .le x p0.1 = false) (h : C.cmp .ge x (lastD p0 rest).1 = true) :
    lerp C (p0 :: rest) x = some (lastD p0 rest).2 := by
  simp [lerp, h0, h]

/-- inside the table: on the first segment whose right end is beyond `x`, the value is the point's `y`
when `x` is exactly the left end, else `(y1-y0)/(x1-x0)*(x-x0)+y0` in this operation order -/
theorem lerp_interior (C : Carrier α) (p0 p1 : α × α) (rest : List (α × α)) (x : α)
    (h0 : C.cmp .le x p0.1 = false) (hl : C.cmp .ge x (lastD p0 (p1 :: rest)).1 = false)
    (h1 : C.cmp .lt x p1.1 = true) (hne : C.cmp .eq x p0.1 = false) :
    lerp C (p0 :: p1 :: rest) x =
      some (C.bin .add (C.bin .mul (C.bin .div (C.bin .sub p1.2 p0.2) (C.bin .sub p1.1 p0.1)) (C.bin .sub x p0.1)) p0.2) := by
  simp [lerp, h0, hl, lerpIn, h1, hne]

theorem lerp_total (C : Carrier α) (p0 : α × α) (rest : List (α × α)) (x : α) :
    ∃ v, lerp C (p0 :: rest) x = some v := by
  simp only [lerp]
  split
  · exact ⟨_, rfl⟩
  · split <;> exact ⟨_, rfl⟩

/-! ### Time keys: the normalising memoize lands on the previous label (rational time, bounded error) -/

/-- Python's round-half-even to an integer, on ℚ -/
def rndHE (y : ℚ) : ℤ :=
  let f := ⌊y⌋
  let r := y - f
  if r < 1/2 then f else if 1/2 < r then f + 1 else (if f % 2 = 0 then f else f + 1)

theorem rndHE_near (y : ℚ) (k : ℤ) (h : |y - k| < 1/2) : rndHE y = k := by
  have h1 := abs_lt.mp h
  unfold rndHE
  simp only
  by_cases hk : (k:ℚ) ≤ y
  · have hf : ⌊y⌋ = k := by
      rw [Int.floor_eq_iff]; constructor
      · exact hk
      · linarith [h1.2]
    rw [hf]
    have : y - (k:ℚ) < 1/2 := by linarith [h1.2]
    rw [if_pos this]
  · rw [not_le] at hk
    have hf : ⌊y⌋ = k - 1 := by
      rw [Int.floor_eq_iff]; constructor
      · push_cast; linarith [h1.1]
      · push_cast; linarith
    rw [hf]
    have h2 : ¬ (y - ((k - 1 : ℤ) : ℚ) < 1/2) := by push_cast; linarith [h1.1]
    have h3 : (1/2 : ℚ) < y - ((k - 1 : ℤ) : ℚ) := by push_cast; linarith [h1.1]
    rw [if_neg h2, if_pos h3]; ring

/-- `grid_time` / `fp.normalize` in exact arithmetic -/
def normQ (start dt x : ℚ) : ℚ := dt * (rndHE ((x - start) / dt)) + start

theorem normQ_near (start dt x : ℚ) (k : ℤ) (hdt : 0 < dt) (h : |x - (start + k * dt)| < dt / 2) :
    normQ start dt x = start + k * dt := by
  unfold normQ
  have : |(x - start) / dt - k| < 1/2 := by
    have e : (x - start) / dt - k = (x - (start + k * dt)) / dt := by field_simp; ring
    rw [e, abs_div, abs_of_pos hdt, div_lt_iff₀ hdt]
    linarith
  rw [rndHE_near _ k this]; ring

/-- rational time with an ADVERSARIAL rounding error on `t - dt` (any `err` below half a step) and the
normalising memoize -/
def ratTS (start dt : ℚ) (err : ℚ → ℚ) (tv : Nat → α) : TimeSem ℚ α where
  prev := fun t => t - dt + err t
  norm := normQ start dt
  leStart := fun t => decide (t ≤ start)
  keyEq := fun a b => decide (a = b)
  val := fun t => tv (rndHE ((t - start) / dt)).toNat

/-- `normalize_keys_on_grid`: whatever the rounding error of `t - dt` (below dt/2), the key the
normalising memoize computes from label k+1 is label k; labels are fixed points; the start test is exact -/
theorem normalize_keys_on_grid (C : Carrier α) (M : Model α) (tv : Nat → α) (r : Nat → Nat) (N : Nat)
    (start dt : ℚ) (err : ℚ → ℚ) (hdt : 0 < dt) (herr : ∀ t, |err t| < dt / 2) (code : Nat → Option (Tm α)) :
    (Ctx.mk C (ratTS start dt err tv) M tv (fun k => start + k * dt) N r code).GridOK := by
  refine ⟨?_, ?_, ?_, ?_, ?_, ?_⟩
  · intro k _
    have := normQ_near start dt (start + (k : ℕ) * dt) (k : ℤ) hdt (by simp; linarith)
    simpa [ratTS] using this
  · intro k _
    have h := normQ_near start dt (start + ((k + 1 : ℕ) : ℚ) * dt - dt + err (start + ((k + 1 : ℕ) : ℚ) * dt)) (k : ℤ) hdt (by
      have e : start + ((k + 1 : ℕ) : ℚ) * dt - dt + err (start + ((k + 1 : ℕ) : ℚ) * dt) - (start + ((k : ℤ) : ℚ) * dt)
          = err (start + ((k + 1 : ℕ) : ℚ) * dt) := by push_cast; ring
      rw [e]; exact herr _)
    simpa [ratTS] using h
  · simp [ratTS]
  · intro k _
    simp only [ratTS, decide_eq_false_iff_not, not_le]
    have : (0 : ℚ) < ((k + 1 : ℕ) : ℚ) * dt := by positivity
    linarith
  · intro i j _ _ h
    simp only [ratTS, decide_eq_true_eq] at h
    have h' : (i : ℚ) * dt = j * dt := by linarith
    have := mul_right_cancel₀ (ne_of_gt hdt) h'
    exact_mod_cast this
  · intro k _
    have e : (start + (k : ℚ) * dt - start) / dt = k := by
      have : start + (k : ℚ) * dt - start = k * dt := by ring
      rw [this]; field_simp
    have : rndHE ((start + (k : ℚ) * dt - start) / dt) = (k : ℤ) := by
      apply rndHE_near
      rw [e]; simp
    show tv (rndHE ((start + (k : ℚ) * dt - start) / dt)).toNat = tv k
    rw [this]; simp

/-- rational time, adversarial rounding of `t - dt`, normalising memoize ⇒ Euler-exact for any dt -/
theorem rational_time_euler_exact (C : Carrier α) (M : Model α) (tv : Nat → α) (r : Nat → Nat) (N : Nat)
    (start dt : ℚ) (err : ℚ → ℚ) (hdt : 0 < dt) (herr : ∀ t, |err t| < dt / 2)
    (hA : (Ctx.mk C (ratTS start dt err tv) M tv (fun k => start + k * dt) N r (compile M)).Acyclic) :
    (Ctx.mk C (ratTS start dt err tv) M tv (fun k => start + k * dt) N r (compile M)).EulerExact :=
  xmile_run_eq_euler (normalize_keys_on_grid C M tv r N start dt err hdt herr _) hA (Or.inl rfl)

/-! ### Wave 2 (2): time keys on FLOATS — `GridOK` from C05's `normalize_near`

The generated `grid_time(t, dt, start)` is, operation for operation, `util.floating_point.normalize(t, dt,
start, max(scale start, scale dt))`, which `Bptk.C05.normalize` models with every float operation rounded
by an adversarial `fl` of bounded relative error (`Bptk.C05.Fl`).  The statements match: the labels are
C05's `label F G k = fl (S + k·H)`, `t - self.dt` is `fl (t - fl H)`, and C05's explicit error `Budget`
gives all six clauses of `GridOK`. -/

section c05
open Bptk.C05 (Fl Grid Budget label normalize normalize_near label_lt label_zero Qerr_mono Derr_mono Qerr Derr)


/-- the generated class on floats as C05 models them: `prev` is the rounded subtraction, `norm` is
`grid_time` = C05's `normalize` with the float constants `fl dt`, `fl start`; `num` embeds time values into
the carrier (`TIME`) -/
def flTS (F : Fl) (G : Grid) (num : ℚ → α) : TimeSem ℚ α where
  prev := fun t => F.fl (t - G.h F)
  norm := fun t => normalize F.fl t (G.h F) (G.s F) G.p
  leStart := fun t => decide (t ≤ G.s F)
  keyEq := fun a b => decide (a = b)
  val := num

theorem prev_err (F : Fl) (G : Grid) (N : ℕ) (r : ℚ) (B : Budget F G N r) (k : ℕ) (hk : k + 1 ≤ N) :
    |F.fl (label F G ((k + 1 : ℕ) : ℤ) - G.h F) - G.g (k : ℤ)| ≤ r := by
  have e0 := F.u_nonneg
  have hH := G.H_pos
  have hM := G.g_abs_le N (k + 1) hk
  have hM0 : 0 ≤ G.M N := le_trans (abs_nonneg _) hM
  have hh := B.h_pos
  set e := F.u
  set h := G.h F with hhd
  set L := label F G ((k + 1 : ℕ) : ℤ) with hL
  set y := L - h with hy
  have l1 : |L - G.g ((k + 1 : ℕ) : ℤ)| ≤ e * |G.g ((k + 1 : ℕ) : ℤ)| := F.err _
  have l2 : |L| ≤ (1 + e) * |G.g ((k + 1 : ℕ) : ℤ)| := F.abs_le _
  have l3 : |h - G.H| ≤ e * G.H := by
    have := F.err G.H; rwa [abs_of_pos hH] at this
  have y1 : |y| ≤ (1 + e) * |G.g ((k + 1 : ℕ) : ℤ)| + h := by
    have := abs_sub L h
    rw [abs_of_pos hh] at this; linarith
  have y2 := F.err y
  have y3 : |y - G.g (k : ℤ)| ≤ e * |G.g ((k + 1 : ℕ) : ℤ)| + e * G.H := by
    have hs := G.g_succ k
    have e1 : y - G.g (k : ℤ) = (L - G.g ((k + 1 : ℕ) : ℤ)) - (h - G.H) := by rw [hy, hs]; ring
    rw [e1]
    have := abs_sub (L - G.g ((k + 1 : ℕ) : ℤ)) (h - G.H)
    linarith
  have y4 := abs_sub_le (F.fl y) y (G.g (k : ℤ))
  have y5 : e * |y| ≤ e * ((1 + e) * |G.g ((k + 1 : ℕ) : ℤ)| + h) := mul_le_mul_of_nonneg_left y1 e0
  have y6 : e * ((1 + e) * |G.g ((k + 1 : ℕ) : ℤ)|) ≤ e * ((1 + e) * G.M N) :=
    mul_le_mul_of_nonneg_left (mul_le_mul_of_nonneg_left hM (by positivity)) e0
  have y7 : e * |G.g ((k + 1 : ℕ) : ℤ)| ≤ e * G.M N := mul_le_mul_of_nonneg_left hM e0
  have := B.hR
  nlinarith

theorem label_err_le (F : Fl) (G : Grid) (N : ℕ) (r : ℚ) (B : Budget F G N r) (k : ℕ) (hk : k ≤ N) :
    |label F G (k : ℤ) - G.g (k : ℤ)| ≤ r := by
  have e0 := F.u_nonneg
  have hH := G.H_pos
  have hM := G.g_abs_le N k hk
  have hM0 : 0 ≤ G.M N := le_trans (abs_nonneg _) hM
  have hh := B.h_pos
  have l1 : |label F G (k : ℤ) - G.g (k : ℤ)| ≤ F.u * |G.g (k : ℤ)| := F.err _
  have y7 : F.u * |G.g (k : ℤ)| ≤ F.u * G.M N := mul_le_mul_of_nonneg_left hM e0
  have := B.hR
  have h1 : 0 ≤ F.u * ((1 + F.u) * G.M N + G.h F) := by positivity
  have h2 : 0 ≤ F.u * G.H := by positivity
  linarith

/-- **GridOK from C05's `normalize_near`** -/
theorem gridOK_of_C05 (C : Carrier α) (M : Model α) (rk : Nat → Nat) (code : Nat → Option (Tm α))
    (F : Fl) (G : Grid) (N : ℕ) (r : ℚ) (B : Budget F G N r) (num : ℚ → α) :
    (Ctx.mk C (flTS F G num) M (fun k => num (label F G (k : ℤ))) (fun k => label F G (k : ℤ)) N rk code).GridOK := by
  have key : ∀ k : ℕ, k ≤ N → ∀ x : ℚ, |x - G.g (k : ℤ)| ≤ r →
      normalize F.fl x (G.h F) (G.s F) G.p = label F G (k : ℤ) := by
    intro k hk x hx
    have hKN : |(((k : ℕ) : ℤ) : ℚ)| ≤ (N : ℚ) := by
      rw [abs_of_nonneg (by positivity)]; exact_mod_cast hk
    exact normalize_near F G x k r B.h_pos hx
      (lt_of_le_of_lt (Qerr_mono _ G.S G.H _ r _ _ F.u_nonneg B.h_pos G.H_pos hKN) B.hQ)
      (lt_of_le_of_lt (Derr_mono _ G.S G.H (G.s F) _ _ _ F.u_nonneg B.h_pos G.H_pos hKN) B.hD)
  refine ⟨?_, ?_, ?_, ?_, ?_, ?_⟩
  · intro k hk
    exact key k hk _ (label_err_le F G N r B k hk)
  · intro k hk
    have hk' : k + 1 ≤ N := hk
    exact key k (by omega) _ (prev_err F G N r B k hk')
  · show decide (label F G ((0 : ℕ) : ℤ) ≤ G.s F) = true
    simp [label_zero F G]
  · intro k hk
    have hk' : k + 1 ≤ N := hk
    show decide (label F G ((k + 1 : ℕ) : ℤ) ≤ G.s F) = false
    have h0 : label F G ((0 : ℕ) : ℤ) = G.s F := by simpa using label_zero F G
    have := label_lt F G N r B 0 (k + 1) (by omega) hk'
    rw [h0] at this
    simpa using this
  · intro i j hi hj h
    have h' : label F G (i : ℤ) = label F G (j : ℤ) := by simpa [flTS] using h
    by_contra hne
    rcases Nat.lt_or_gt_of_ne hne with hlt | hlt
    · exact absurd h' (ne_of_lt (label_lt F G N r B i j hlt hj))
    · exact absurd h'.symm (ne_of_lt (label_lt F G N r B j i hlt hi))
  · intro k _; rfl

/-- float time (C05's adversary `Fl` with its explicit `Budget`), normalising memoize ⇒ Euler-exact -/
theorem float_time_euler_exact (C : Carrier α) (M : Model α) (rk : Nat → Nat)
    (F : Fl) (G : Grid) (N : ℕ) (r : ℚ) (B : Budget F G N r) (num : ℚ → α)
    (hA : (Ctx.mk C (flTS F G num) M (fun k => num (label F G (k : ℤ))) (fun k => label F G (k : ℤ)) N rk (compile M)).Acyclic) :
    (Ctx.mk C (flTS F G num) M (fun k => num (label F G (k : ℤ))) (fun k => label F G (k : ℤ)) N rk (compile M)).EulerExact :=
  xmile_run_eq_euler (gridOK_of_C05 C M rk _ F G N r B num) hA (Or.inl rfl)

/-- exact rational time on a decimal grid with the REAL `normalize` (decimal rounding step included) and an
adversarial error on `t - dt` -/
def ratDecTS (G : Grid) (err : ℚ → ℚ) (num : ℚ → α) : TimeSem ℚ α where
  prev := fun t => t - G.H + err t
  norm := fun t => normalize id t G.H G.S G.p
  leStart := fun t => decide (t ≤ G.S)
  keyEq := fun a b => decide (a = b)
  val := num

theorem normalize_exact_near (G : Grid) (x : ℚ) (k : ℤ) (r : ℚ) (hr : r < G.H / 2) (hx : |x - G.g k| ≤ r) :
    normalize id x G.H G.S G.p = G.g k := by
  have hH := G.H_pos
  have h := normalize_near Bptk.C05.Fl.exact G x k r (by simpa [Grid.h, Bptk.C05.Fl.exact] using hH) hx
    (by
      show Qerr 0 G.S G.H (id G.H) r |(k:ℚ)| < 1/2
      unfold Qerr
      simp only [id]
      have : r / G.H < 1/2 := by rw [div_lt_iff₀ hH]; linarith
      simpa using this)
    (by
      show Derr 0 G.S G.H (id G.S) (id G.H) |(k:ℚ)| < 1 / (2 * Bptk.C05.pow10 G.p)
      unfold Derr
      have := Bptk.C05.pow10_pos G.p
      simp only [zero_mul, add_zero]
      positivity)
  simpa [Grid.h, Grid.s, Bptk.C05.Fl.exact, Bptk.C05.label] using h

theorem normalize_keys_on_grid_dec (C : Carrier α) (M : Model α) (rk : Nat → Nat) (code : Nat → Option (Tm α))
    (G : Grid) (N : ℕ) (err : ℚ → ℚ) (r : ℚ) (hr : r < G.H / 2) (herr : ∀ t, |err t| ≤ r) (num : ℚ → α) :
    (Ctx.mk C (ratDecTS G err num) M (fun k => num (G.g (k : ℤ))) (fun k => G.g (k : ℤ)) N rk code).GridOK := by
  have hH := G.H_pos
  have hr0 : 0 ≤ r := le_trans (abs_nonneg _) (herr 0)
  refine ⟨?_, ?_, ?_, ?_, ?_, ?_⟩
  · intro k _
    exact normalize_exact_near G _ k r hr (by simpa using hr0)
  · intro k _
    show normalize id (G.g ((k + 1 : ℕ) : ℤ) - G.H + err (G.g ((k + 1 : ℕ) : ℤ))) G.H G.S G.p = G.g (k : ℤ)
    apply normalize_exact_near G _ k r hr
    have e : G.g ((k + 1 : ℕ) : ℤ) - G.H + err (G.g ((k + 1 : ℕ) : ℤ)) - G.g (k : ℤ) = err (G.g ((k + 1 : ℕ) : ℤ)) := by
      rw [G.g_succ]; ring
    rw [e]; exact herr _
  · show decide (G.g ((0 : ℕ) : ℤ) ≤ G.S) = true
    simp [Grid.g]
  · intro k _
    show decide (G.g ((k + 1 : ℕ) : ℤ) ≤ G.S) = false
    have : (0 : ℚ) < ((k + 1 : ℕ) : ℚ) * G.H := by positivity
    rw [decide_eq_false_iff_not, not_le]
    unfold Grid.g
    push_cast at this ⊢
    linarith
  · intro i j _ _ h
    have h' : G.g (i : ℤ) = G.g (j : ℤ) := by simpa [ratDecTS] using h
    unfold Grid.g at h'
    have h2 : ((i : ℤ) : ℚ) * G.H = ((j : ℤ) : ℚ) * G.H := by linarith
    have := mul_right_cancel₀ (ne_of_gt hH) h2
    exact_mod_cast this
  · intro k _; rfl

/-- non-vacuity: the budget is satisfiable (exact adversary, dt = 0.1 from 0, any horizon) -/
theorem budget_exact_G01 (N : ℕ) : Budget Bptk.C05.Fl.exact Bptk.C05.G01 N 0 := by
  have hp := Bptk.C05.pow10_pos Bptk.C05.G01.p
  refine ⟨?_, ?_, ?_, ?_, ?_⟩
  · show (0 : ℚ) < id Bptk.C05.G01.H
    exact Bptk.C05.G01.H_pos
  · show Qerr 0 _ _ _ 0 _ < 1/2
    unfold Qerr; norm_num
  · show Derr 0 _ _ _ _ _ < _
    unfold Derr
    simp only [zero_mul, add_zero]
    positivity
  · show (0 : ℚ) * _ + 0 * _ + 0 * _ ≤ 0
    simp
  · show 2 * (0 : ℚ) * _ < _
    simp only [mul_zero, zero_mul]
    exact Bptk.C05.G01.H_pos


/-- non-vacuity with a genuinely inexact adversary: C05's counter-model rounding `flW` (which moves
0.1 up) meets the budget on dt = 0.1, so all hypotheses of `gridOK_of_C05` are satisfiable there -/
example (C : Carrier α) (M : Model α) (rk : Nat → Nat) (num : ℚ → α) :
    (Ctx.mk C (flTS Bptk.C05.flW Bptk.C05.G01 num) M (fun k => num (label Bptk.C05.flW Bptk.C05.G01 (k : ℤ)))
      (fun k => label Bptk.C05.flW Bptk.C05.G01 (k : ℤ)) 4 rk (compile M)).GridOK :=
  gridOK_of_C05 C M rk _ Bptk.C05.flW Bptk.C05.G01 4 (1/500) Bptk.C05.budget_W num
end c05

/-! ### The reference really is the Euler recurrence: one integration step per grid interval -/

theorem sumAcc_congr (C : Carrier α) (look look' : Nat → Option α) (ns : List Nat)
    (h : ∀ m ∈ ns, look m = look' m) (acc : α) : sumAcc C look acc ns = sumAcc C look' acc ns := by
  induction ns generalizing acc with
  | nil => rfl
  | cons n ns ih =>
    simp only [sumAcc]
    rw [h n (by simp)]
    cases look' n with
    | none => rfl
    | some v => exact ih (fun m hm => h m (by simp [hm])) _

theorem sumL_congr (C : Carrier α) (look look' : Nat → Option α) (n : Nat) (ns : List Nat)
    (h : ∀ m ∈ n :: ns, look m = look' m) : sumL C look n ns = sumL C look' n ns := by
  simp only [sumL]
  rw [h n (by simp)]
  cases look' n with
  | none => rfl
  | some v => exact sumAcc_congr C look look' ns (fun m hm => h m (by simp [hm])) _

theorem net_congr (C : Carrier α) (look look' : Nat → Option α) (ins outs : List Nat)
    (h : ∀ m ∈ ins ++ outs, look m = look' m) : net C look ins outs = net C look' ins outs := by
  match ins, outs with
  | [], [] => rfl
  | i :: is, [] => simp only [net]; exact sumL_congr C look look' i is (fun m hm => h m (by simpa using hm))
  | [], o :: os =>
    simp only [net]; rw [sumL_congr C look look' o os (fun m hm => h m (by simpa using hm))]
  | i :: is, o :: os =>
    simp only [net]
    rw [sumL_congr C look look' i is (fun m hm => h m (by simp only [List.mem_append]; exact Or.inl hm)),
      sumL_congr C look look' o os (fun m hm => h m (by simp only [List.mem_append]; exact Or.inr hm))]

/-- every element has an Euler value at every index of the horizon -/
theorem euler_val (hG : X.GridOK) (hA : X.Acyclic) (hR : X.RunsGraph) {n k : Nat} (hn : n < X.len) (hk : k ≤ X.N) :
    ∃ v, X.Val n k v ∧ euler X.C X.M X.tv n k = some v := by
  obtain ⟨v, h1, _⟩ := good hG hA (code_of_runsGraph hR) (X.mu n k + 1) n k (by omega) hn hk
  refine ⟨v, h1, ?_⟩
  have hb := hA.bound n hn
  have : X.mu n k + 1 ≤ fuelFor X.M.elems.length X.M.elems.length k := by
    simp only [Ctx.mu, fuelFor, Ctx.len] at *; omega
  simpa [euler, Ctx.eu] using h1 _ this

/-- `stock (k+1) = stock k + dt * net k`, net = (Σ inflows) − (Σ outflows) evaluated at index k: the
reference trajectory advances by exactly one explicit-Euler step per grid interval -/
theorem euler_stock_succ (hG : X.GridOK) (hA : X.Acyclic) (hR : X.RunsGraph) {n k : Nat} {init : Ex α}
    {ins outs : List Nat} (hel : X.M.elems[n]? = some (.stock init ins outs)) (hk : k + 1 ≤ X.N) :
    ∃ s d, euler X.C X.M X.tv n k = some s ∧
      net X.C (fun m => euler X.C X.M X.tv m k) ins outs = some d ∧
      euler X.C X.M X.tv n (k + 1) = some (X.C.bin .add s (X.C.bin .mul X.M.dtv d)) := by
  have hn : n < X.len := by simp only [Ctx.len]; exact (List.getElem?_eq_some_iff.mp hel).1
  have hk' : k ≤ X.N := by omega
  obtain ⟨s, hsv, hs⟩ := euler_val hG hA hR hn hk'
  obtain ⟨w, hwv, hw⟩ := euler_val hG hA hR hn hk
  -- unfold one step of the reference at the canonical fuel
  have hb := hA.bound n hn
  have hfuel : fuelFor X.M.elems.length X.M.elems.length (k + 1) =
      ((k + 1) * (X.M.elems.length + 1) + X.M.elems.length) + 1 := by simp [fuelFor]
  have hF : X.mu n k + 1 ≤ (k + 1) * (X.M.elems.length + 1) + X.M.elems.length := by
    have := Nat.succ_mul k (X.M.elems.length + 1)
    simp only [Ctx.mu, Ctx.len, Nat.succ_eq_add_one] at *
    omega
  have hs' : eulerF X.C X.M X.tv ((k + 1) * (X.M.elems.length + 1) + X.M.elems.length) n k = some s := by
    simpa [Ctx.eu] using hsv _ hF
  have hcongr : net X.C (fun m => eulerF X.C X.M X.tv ((k + 1) * (X.M.elems.length + 1) + X.M.elems.length) m k) ins outs
      = net X.C (fun m => euler X.C X.M X.tv m k) ins outs := by
    apply net_congr
    intro m hm
    have hml := hA.prev n _ hel m (by simpa [prevRefs] using hm)
    obtain ⟨vm, hvm, hem⟩ := euler_val hG hA hR hml hk'
    have hbm := hA.bound m hml
    have hFm : X.mu m k + 1 ≤ (k + 1) * (X.M.elems.length + 1) + X.M.elems.length := by
      have := Nat.succ_mul k (X.M.elems.length + 1)
      simp only [Ctx.mu, Ctx.len, Nat.succ_eq_add_one] at *
      omega
    have := hvm _ hFm
    simp only [Ctx.eu] at this
    rw [this, hem]
  have hw' : eulerF X.C X.M X.tv (((k + 1) * (X.M.elems.length + 1) + X.M.elems.length) + 1) n (k + 1) = some w := by
    have h0 := hw
    simp only [euler] at h0
    rw [hfuel] at h0
    exact h0
  simp only [eulerF, hel, hs'] at hw'
  rw [hcongr] at hw'
  cases hd : net X.C (fun m => euler X.C X.M X.tv m k) ins outs with
  | none => simp [hd] at hw'
  | some d =>
    simp only [hd, Option.some.injEq] at hw'
    exact ⟨s, d, hs, rfl, by rw [hw, ← hw']⟩

/-! ### Wave 2 (3): non-negative stocks, flows defined by a graphical function

`.gflow` is an ordinary element of the model, so `xmile_run_eq_euler`, `C04_full_of_good`,
`dsl_xmile_agree`, … cover it (case `gflow` of `elem_ok`, `compileDsl_toDsl`).  A non-negative stock is
`xStock true`: the transpiler clamps the INITIAL VALUE only. -/

section wave2_3
open Bptk.Py

theorem WLbArg_of_WLb (a : Py) (h : WLb 0 a = true) : WLbArg 0 a = true := by
  cases a <;> simp_all [WLb, WLbArg]

theorem nnPy_wl (e : Py) (h : WLb 0 e = true) : WLb 0 (nnPy e) = true := by
  simp [nnPy, WLb, WLbArgs, WLbArg, WLbL, h, lvlH_name]

theorem lerpPyP_wl (name : String) (a : Py) (h : WLb 0 a = true) : WLb 0 (lerpPyP name a) = true := by
  simp [lerpPyP, WLb, WLbArgs, WLbArg, WLbArg_of_WLb a h, selfAttr, lvlH_name, lvlH_attr]

theorem gflowPyP_wl (nn : Bool) (name : String) (a : Py) (h : WLb 0 a = true) : WLb 0 (gflowPyP nn name a) = true := by
  cases nn
  · simpa [gflowPyP] using lerpPyP_wl name a h
  · simpa [gflowPyP] using nnPy_wl _ (lerpPyP_wl name a h)

theorem tmOfPy_nnPy (ix : String → Option Nat) (e : Py) (x : Tm String) (h : tmOfPy ix (erase e) = some x) :
    tmOfPy ix (erase (nnPy e)) = some (.mx (.int 0) x) := by
  simp [nnPy, erase, eraseL, tmOfPy, h]

theorem tmOfPy_lerpPyP (ix : String → Option Nat) (name : String) (a : Py) (x : Tm String)
    (h : tmOfPy ix (erase a) = some x) : tmOfPy ix (erase (lerpPyP name a)) = some (.lerp x []) := by
  simp [lerpPyP, erase, eraseL, selfAttr, tmOfPy, h]

/-- a flow defined by a graphical function: the emitted text parses to the intended tree and denotes the
model's code (`compileElem` of `.gflow`), for any argument text -/
theorem gflow_text_denotes (nn : Bool) (n : Nat) (a : Py) (hw : WLb 0 a = true) (e : Ex String)
    (pts : List (String × String)) (ha : tmOfPy nameIx (erase a) = some ((cEx .cur e).shape id)) :
    Parses (pr (gflowPyP nn (nmG n) a)) (gflowPyP nn (nmG n) a) ∧
    tmOfPy nameIx (erase (gflowPyP nn (nmG n) a)) = some ((compileElem n (.gflow nn e pts)).shape id) := by
  refine ⟨parse_print _ (gflowPyP_wl nn _ a hw), ?_⟩
  cases nn
  · simpa [gflowPyP, compileElem, Tm.shape] using tmOfPy_lerpPyP nameIx (nmG n) a _ ha
  · simpa [gflowPyP, compileElem, Tm.shape] using tmOfPy_nnPy nameIx _ _ (tmOfPy_lerpPyP nameIx (nmG n) a _ ha)

/-- a NON-NEGATIVE stock, any numbers of in/outflows: the text is the ordinary skeleton around
`max([0 , init])`; it parses to it and denotes `compileElem` of `xStock true …` -/
theorem nnstock_text_denotes (s : Nat) (init : Py) (hw : WLb 0 init = true) (it : Tm String)
    (hinit : tmOfPy nameIx (erase init) = some it) (ins outs : List Nat) :
    Parses (pr (skelPyP (nmG s) (nnPy init) (ins.map nmG) (outs.map nmG))) (skelPyP (nmG s) (nnPy init) (ins.map nmG) (outs.map nmG)) ∧
    tmOfPy nameIx (erase (skelPyP (nmG s) (nnPy init) (ins.map nmG) (outs.map nmG))) = some (stockTm s (.mx (.int 0) it) ins outs) :=
  let h := stock_text_denotes s (nnPy init) (nnPy_wl init hw) (.mx (.int 0) it) (tmOfPy_nnPy nameIx init it hinit) ins outs
  ⟨h.1, h.2.1⟩

theorem compile_xStock (n : Nat) (nn : Bool) (init : Ex α) (ins outs : List Nat) :
    compileElem n (xStock nn init ins outs) =
      stockTm n (if nn then .mx (.int 0) (cEx .cur init) else cEx .cur init) ins outs := by
  cases nn <;> simp [xStock, nnWrap, compileElem, cEx]

theorem evalEx_nnWrap (C : Carrier α) (dtv tnow : α) (look : Nat → Option α) (e : Ex α) :
    evalEx C dtv tnow look (nnWrap true e) = (evalEx C dtv tnow look e).map (pyMax C (C.int 0)) := by
  simp only [nnWrap, if_true, evalEx]
  cases evalEx C dtv tnow look e <;> rfl

/-- non-negative stock at the start: the Euler value is `max(0, initial value)` … -/
theorem euler_nnstock_zero (C : Carrier α) (M : Model α) (tv : Nat → α) (f n : Nat) (init : Ex α) (ins outs : List Nat)
    (hel : M.elems[n]? = some (xStock true init ins outs)) :
    eulerF C M tv (f + 1) n 0 =
      (evalEx C M.dtv (tv 0) (fun m => eulerF C M tv f m 0) init).map (pyMax C (C.int 0)) := by
  simp only [xStock] at hel
  simp only [eulerF, hel, evalEx_nnWrap]

/-- … and every later value is the plain Euler step: NOT clamped (instance of `euler_stock_succ`) -/
theorem euler_nnstock_succ (hG : X.GridOK) (hA : X.Acyclic) (hR : X.RunsGraph) {n k : Nat} {init : Ex α}
    {ins outs : List Nat} (hel : X.M.elems[n]? = some (xStock true init ins outs)) (hk : k + 1 ≤ X.N) :
    ∃ s d, euler X.C X.M X.tv n k = some s ∧
      net X.C (fun m => euler X.C X.M X.tv m k) ins outs = some d ∧
      euler X.C X.M X.tv n (k + 1) = some (X.C.bin .add s (X.C.bin .mul X.M.dtv d)) :=
  euler_stock_succ hG hA hR (init := nnWrap true init) hel hk

/-- value of a flow defined by a graphical function: clamp ∘ LERP ∘ equation -/
theorem euler_gflow (C : Carrier α) (M : Model α) (tv : Nat → α) (f n k : Nat) (nn : Bool) (e : Ex α) (pts : List (α × α))
    (hel : M.elems[n]? = some (.gflow nn e pts)) :
    eulerF C M tv (f + 1) n k =
      ((evalEx C M.dtv (tv k) (fun m => eulerF C M tv f m k) e).bind (lerp C pts)).map
        (fun v => if nn then pyMax C (C.int 0) v else v) := by
  simp only [eulerF, hel]
  cases evalEx C M.dtv (tv k) (fun m => eulerF C M tv f m k) e with
  | none => rfl
  | some x => cases h : lerp C pts x <;> simp [h]

/-- what the code does with a "non-negative" stock, on the integers: initial value -2 is raised to 0, but
with an outflow of 3 per step the stock is 0, -3, -6: the integration is not clamped -/
def nnM : Model Int := { elems := [xStock true (.int (-2)) [] [1], .flow true (.int 3)], dtv := 1 }

example : euler intCarrier nnM (fun _ => 0) 0 0 = some 0 := by decide +kernel
example : euler intCarrier nnM (fun _ => 0) 0 2 = some (-6) := by decide +kernel
example : runVal intCarrier (natTS (fun _ => (0 : Int))) 1 (compile nnM) 40 [] 0 2 = some (-6) := by decide +kernel

/-- gf flows in a feedback graph (non-vacuity): uniflow and biflow defined by tables, a non-negative stock -/
def gfM : Model Int :=
  { elems := [ xStock true (.int 4) [1] [2],
               .gflow true (.bin .sub (.ref 0) (.int 2)) [(0, -5), (5, 3), (10, 8)],
               .gflow false .time [(0, -1), (2, 3), (5, 8)] ],
    dtv := 1 }

example : euler intCarrier gfM (fun k => (k : Int)) 0 3 = runVal intCarrier (natTS (fun k => (k : Int))) 1 (compile gfM) 100 [] 0 3 := by
  decide +kernel
example : (euler intCarrier gfM (fun k => (k : Int)) 0 3).isSome = true := by decide +kernel


/-- the driver's probe of non-negative stock skeletons (any numbers of flows) is sound -/
theorem skeletonTextNNOK_sound (nin nout : Nat) (toks : List Tok) (h : skeletonTextNNOK nin nout toks = true) :
    Parses toks (skelPyP (nmG 0) (nnPy (.num "7.5")) ((flowIxs 1 nin).map nmG) ((flowIxs (1 + nin) nout).map nmG)) ∧
    ∀ p, parse toks = some p →
      tmOfPy nameIx (erase p) = some (stockTm 0 (.mx (.int 0) (.lit "7.5")) (flowIxs 1 nin) (flowIxs (1 + nin) nout)) := by
  simp only [skeletonTextNNOK, decide_eq_true_eq] at h
  subst h
  have h := nnstock_text_denotes 0 (.num "7.5") (by decide) (.lit "7.5") (by decide) (flowIxs 1 nin) (flowIxs (1 + nin) nout)
  refine ⟨h.1, ?_⟩
  intro p hp
  rw [parses_unique _ _ _ (parse_sound _ _ hp) h.1]
  exact h.2
end wave2_3

/-! ### Non-vacuity -/

/-- a two-stock feedback graph with a stock-to-stock uniflow, a biflow, an auxiliary using TIME and a
graphical function, on the idealised grid with the integers as carrier: the hypotheses of the theorem
are satisfiable and the run returns a definite trajectory value -/
def exM : Model Int :=
  { elems := [ .stock (.int 10) [2] [3],              -- e0: in e2, out e3
               .stock (.int 0) [3] [],                -- e1: in e3 (the outflow of e0)
               .flow false (.bin .sub (.ref 4) (.ref 1)),   -- e2 biflow: aux - stock1
               .flow true (.bin .div (.ref 0) (.int 2)),    -- e3 uniflow: stock0 / 2
               .gf (.bin .add .time (.ref 0)) [(0, 0), (10, 100)] ],   -- e4: graphical function of TIME + stock0
    dtv := 1 }

def exX : Ctx Nat Int :=
  { C := intCarrier, ts := natTS (fun k => (k : Int)), M := exM, tv := fun k => (k : Int), label := id, N := 50,
    r := fun n => if n = 2 then 1 else 0, code := compile exM }

example : exX.GridOK :=
  ⟨fun _ _ => rfl, fun _ _ => rfl, rfl, fun _ _ => rfl, fun i j _ _ h => by simpa [exX, natTS] using h, fun _ _ => rfl⟩

example : euler intCarrier exM (fun k => (k : Int)) 0 3 = runVal intCarrier (natTS (fun k => (k : Int))) 1 (compile exM) 100 [] 0 3 := by
  decide +kernel

example : (euler intCarrier exM (fun k => (k : Int)) 0 3).isSome = true := by decide +kernel

/-- the counting model on the idealised grid takes exactly `k` steps to index `k` (here k = 4), while the
raw-float run of `C04_witness_raw_keys` takes 5 -/
example : runVal intCarrier (natTS (fun _ => (0 : Int))) 1 (compile wM) 40 [] 0 4 = some 4 := by decide +kernel


/-! ### Wave 5: the IR builder `StockExpressions`/`JoinedExpression` for ANY numbers of inflows and outflows -/

section builder
open Bptk.Py

theorem renderS_joinedS (a : String) (as : List String) :
    renderS (joinedS (a :: as)) = pr (sumPy .prev (memoPy a .prev) as) := by
  rw [pr_sumPy]
  induction as generalizing a with
  | nil => simp [joinedS, renderS]
  | cons b bs ih => simp [joinedS, renderS, ih b]

/-- **the builder's text, all n and m**: the `sum` node built for any lists of inflows and outflows prints to the intended
net-flow text — inflows left to right, minus the PARENTHESISED sum of the outflows (only outflows: `-1 * ( … )`) -/
theorem renderS_sumS (ins outs : List String) : renderS (sumS ins outs) = pr (netPyP ins outs) := by
  match ins, outs with
  | [], [] => simp [sumS, sumSWith, renderS, netPyP, pr]
  | i :: is, [] => simp [sumS, sumSWith, renderS, netPyP, pr, renderS_joinedS]
  | [], o :: os => simp [sumS, sumSWith, renderS, netPyP, pr, renderS_joinedS]
  | i :: is, o :: os => simp [sumS, sumSWith, renderS, netPyP, pr, renderS_joinedS]

theorem stockToks_eq (s : String) (init : Py) (ins outs : List String) :
    stockToks s (pr init) (renderS (sumS ins outs)) = pr (skelPyP s init ins outs) := by
  rw [renderS_sumS]
  simp [stockToks, skelPyP, pr, selfAttr]

/-- **builder → text → tree → code, all n and m.** For every stock index, every (well-levelled) initial-value text and
ANY lists of inflows and outflows: the tokens emitted for the IR that `StockExpressions` builds parse (A1) to the
parenthesised skeleton; every tree the executable parser returns for them denotes the stock code
`ifStart init (memo s prev + dt * netTm ins outs)` — which is `compileElem` of the stock, the code whose memoised run
`xmile_run_eq_euler` proves Euler-exact and whose net flow `net_ok` evaluates to `(Σ inflows) − (Σ outflows)`
(only outflows: `-1 * Σ outflows`). -/
theorem builder_stock_text (s : Nat) (init : Py) (hw : WLb 0 init = true) (it : Tm String)
    (hinit : tmOfPy nameIx (erase init) = some it) (ins outs : List Nat) :
    let toks := stockToks (nmG s) (pr init) (renderS (sumS (ins.map nmG) (outs.map nmG)))
    Parses toks (skelPyP (nmG s) init (ins.map nmG) (outs.map nmG)) ∧
    tmOfPy nameIx (erase (skelPyP (nmG s) init (ins.map nmG) (outs.map nmG))) = some (stockTm s it ins outs) ∧
    ∀ p, parse toks = some p → tmOfPy nameIx (erase p) = some (stockTm s it ins outs) := by
  intro toks
  have e : toks = pr (skelPyP (nmG s) init (ins.map nmG) (outs.map nmG)) := stockToks_eq _ _ _ _
  rw [e]
  exact stock_text_denotes s init hw it hinit ins outs

theorem compileElem_stock {α : Type} (n : Nat) (init : Ex α) (ins outs : List Nat) :
    compileElem n (.stock init ins outs) = stockTm n (cEx .cur init) ins outs := rfl

/-- a successful probe obligation: every probed stock is, node for node, the model's IR and, token for token, the model's
text, hence (general theorem above) parses to the skeleton -/
theorem builder_sound (ps : List BProbe) (h : builderOK ps = true) :
    ∀ e ∈ ps, e.ir = sumS e.ins e.outs ∧ e.toks = pr (skelPyP e.s (.num "7.5") e.ins e.outs) ∧
      Parses e.toks (skelPyP e.s (.num "7.5") e.ins e.outs) := by
  intro e he
  simp only [builderOK, Bool.and_eq_true, List.all_eq_true] at h
  have h1 := h.1 e he
  simp only [bprobeOK, Bool.and_eq_true, decide_eq_true_eq] at h1
  have ht : e.toks = pr (skelPyP e.s (.num "7.5") e.ins e.outs) := by
    rw [h1.2, h1.1]
    exact stockToks_eq e.s (.num "7.5") e.ins e.outs
  refine ⟨h1.1, ht, ?_⟩
  rw [ht]
  exact skelPyP_parses e.s (.num "7.5") (by decide) e.ins e.outs

/-! #### Negation witness: the only-outflows branch without the inner `()` node -/

theorem sumTm_cons_head {α : Type} (te : TE) (acc : Tm α) (n : Nat) (ns : List Nat) :
    ∃ a b, sumTm te acc (n :: ns) = .bin .add a b := by
  induction ns generalizing acc n with
  | nil => exact ⟨acc, .memo n te, rfl⟩
  | cons m ms ih => simp only [sumTm] at ih ⊢; exact ih _ m

/-- the tree the text of the defective builder denotes: `-1 * o1` is the FIRST summand -/
def bareOutPy (o1 : String) (os : List String) : Py :=
  .paren (sumPy .prev (.bin .mul (.neg (.num "1")) (memoPy o1 .prev)) os)

/-- **witness, all m ≥ 2**: without the `()` node around the joined outflows the text of the only-outflows branch parses to
`( -1 * o1 + o2 + … )`, which denotes `(-1 * o1) + o2 + …` — not `-1 * (o1 + o2 + …)` -/
theorem bare_outflows_witness (o1 o2 : Nat) (os : List Nat) :
    let outs := (o1 :: o2 :: os).map nmG
    renderS (sumSWith false [] outs) = pr (bareOutPy (nmG o1) ((o2 :: os).map nmG)) ∧
    Parses (renderS (sumSWith false [] outs)) (bareOutPy (nmG o1) ((o2 :: os).map nmG)) ∧
    tmOfPy nameIx (erase (bareOutPy (nmG o1) ((o2 :: os).map nmG)))
      = some (sumTm .prev (.bin .mul (.int (-1)) (.memo o1 .prev)) (o2 :: os)) ∧
    sumTm .prev (.bin .mul (.int (-1)) (.memo o1 .prev)) (o2 :: os) ≠ (netTm [] (o1 :: o2 :: os) : Tm String) := by
  intro outs
  have hr : renderS (sumSWith false [] outs) = pr (bareOutPy (nmG o1) ((o2 :: os).map nmG)) := by
    simp only [outs, List.map_cons, sumSWith, bareOutPy, renderS, Bool.false_eq_true, if_false]
    rw [renderS_joinedS]
    simp [pr, pr_sumPy]
  have hwl : WLb 0 (bareOutPy (nmG o1) ((o2 :: os).map nmG)) = true := by
    have := sumPy_wl .prev ((o2 :: os).map nmG) (.bin .mul (.neg (.num "1")) (memoPy (nmG o1) .prev))
      (by simp [WLb, memoPy_wl, memoPy_lvl, lvlH_neg, lvlH_num, ldem, rbp, bp]) (by simp [lvlH_bin, bp])
    simpa [bareOutPy, WLb] using this.1
  refine ⟨hr, ?_, ?_, ?_⟩
  · rw [hr]; exact parse_print _ hwl
  · simp only [bareOutPy, erase]
    rw [erase_sumPy]
    have hacc : tmOfPy nameIx (erase (Py.bin .mul (.neg (.num "1")) (memoPy (nmG o1) .prev)))
        = some (.bin .mul (.int (-1)) (.memo o1 .prev)) := by
      simp only [erase, erase_memoPy]
      exact tmOfPy_bin nameIx .mul _ _ .mul _ _ rfl rfl (by rw [tmOfPy_memo, nameIx_nmG]; rfl)
    exact tmOfPy_sumPy nameIx nmG nameIx_nmG .prev (o2 :: os) _ _ hacc
  · obtain ⟨a, b, hab⟩ := sumTm_cons_head (α := String) .prev (.bin .mul (.int (-1)) (.memo o1 .prev)) o2 os
    rw [hab]
    simp [netTm]

/-- the smallest instance, evaluated by the kernel: two outflows -/
example : (parse (renderS (sumSWith false [] ["e1", "e2"]))).map sexp
    = some "(+ (* (neg (num 1)) (call (attr (name self) memoize) (str e1) (- (name t) (attr (name self) dt)))) (call (attr (name self) memoize) (str e2) (- (name t) (attr (name self) dt))))"
    ∧ (parse (renderS (sumS [] ["e1", "e2"]))).map sexp
    = some "(* (neg (num 1)) (+ (call (attr (name self) memoize) (str e1) (- (name t) (attr (name self) dt))) (call (attr (name self) memoize) (str e2) (- (name t) (attr (name self) dt)))))" := by
  decide +kernel

end builder

#print axioms renderS_sumS
#print axioms builder_stock_text
#print axioms builder_sound
#print axioms bare_outflows_witness


/-! ### Wave 6: the generated `LERP` on unevenly spaced tables -/

/-- a discharged row obligation: the REAL `LERP` returned, on every probed (table, abscissa), the value of the model's
`lerp` — the function whose clamping / interior / totality `lerp_clamped_left`, `lerp_clamped_right`, `lerp_interior`,
`lerp_total` describe -/
theorem lerpRows_sound (rows : List LerpRow) (h : lerpRowsOK rows = true) :
    ∀ r ∈ rows, lerp intC r.pts r.x = some r.y := by
  intro r hr
  simp only [lerpRowsOK, Bool.and_eq_true, List.all_eq_true] at h
  have := h.1 r hr
  simpa using this

/-- **witness: segment search with a correction of at most one.** Table x = 0, 1, 2, 3, 20 (y = 0, 10, 0, 10, 61): at x = 3
the proportional guess is segment 0, one correction reaches segment 1 (1 → 2) and extrapolates it to −10; `LERP` is 10 (the
knot). At x = 10 (inside the long last segment, guess 2) the bounded search is right — the defect needs a skewed table AND
an abscissa two or more segments away from the guess. -/
theorem lerp_bounded_witness :
    let tbl : List (Int × Int) := [(0, 0), (1, 10), (2, 0), (3, 10), (20, 61)]
    lerp intC tbl 3 = some 10 ∧ lerpBounded tbl 3 = some (-10) ∧
    lerp intC tbl 2 = some 0 ∧ lerpBounded tbl 2 = some 0 ∧
    lerp intC tbl 10 = some 31 ∧ lerpBounded tbl 10 = some 31 := by
  decide +kernel

#print axioms lerpRows_sound
#print axioms lerp_bounded_witness


/-! ### Wave 11: rows from another dt than the integration uses -/

/-- **witness**: `<dt>0.25</dt>` in the XMILE file, scenario run specs start 0, stop 2, dt 0.1 (exact arithmetic, C05's grid
`G01`): when the simulation walks the grid with the file's dt, the run has 9 rows where the grid of the run specs has 21 -/
theorem rows_stale_dt_witness :
    (rowTimes { memoNormalises := true, xmileRunGridUsesModelDt := false } Bptk.C05.Fl.exact.fl 22 (Bptk.C05.G01.s Bptk.C05.Fl.exact)
        (Bptk.C05.label Bptk.C05.Fl.exact Bptk.C05.G01 ((20 : ℕ) : ℤ)) (Bptk.C05.G01.h Bptk.C05.Fl.exact) (1 / 4) Bptk.C05.G01.p).map List.length = some 9 ∧
    ((List.range (20 + 1)).map (fun i : ℕ => Bptk.C05.label Bptk.C05.Fl.exact Bptk.C05.G01 (i : ℤ))).length = 21 := by
  refine ⟨?_, by simp⟩
  decide +kernel

/-- the output grid walked with a stale dt: the property fails -/
theorem C04_witness_run_grid (c : Cfg) (h : c.xmileRunGridUsesModelDt = false) : ¬ C04_full c := by
  intro hfull
  have h2 := hfull.2 Bptk.C05.Fl.exact Bptk.C05.G01 20 0 (budget_exact_G01 21) 22 (by norm_num) (1 / 4)
  have hw := rows_stale_dt_witness.1
  have e : rowTimes c Bptk.C05.Fl.exact.fl 22 (Bptk.C05.G01.s Bptk.C05.Fl.exact)
      (Bptk.C05.label Bptk.C05.Fl.exact Bptk.C05.G01 ((20 : ℕ) : ℤ)) (Bptk.C05.G01.h Bptk.C05.Fl.exact) (1 / 4) Bptk.C05.G01.p
      = rowTimes { memoNormalises := true, xmileRunGridUsesModelDt := false } Bptk.C05.Fl.exact.fl 22 (Bptk.C05.G01.s Bptk.C05.Fl.exact)
      (Bptk.C05.label Bptk.C05.Fl.exact Bptk.C05.G01 ((20 : ℕ) : ℤ)) (Bptk.C05.G01.h Bptk.C05.Fl.exact) (1 / 4) Bptk.C05.G01.p := by
    simp [rowTimes, h]
  rw [e] at h2
  rw [h2] at hw
  simp at hw

#print axioms C04_witness_run_grid
#print axioms rows_stale_dt_witness

#print axioms xmile_run_eq_euler
#print axioms C04_full_of_good
#print axioms C04_partial
#print axioms C04_witness_raw_keys
#print axioms dsl_xmile_agree
#print axioms exact_dt_partial
#print axioms skeletons_parse
#print axioms skelPyP_parses
#print axioms nameIx_nmG
#print axioms skelPyP_denotes
#print axioms stock_text_denotes
#print axioms skeletonTextOK_sound
#print axioms joined_flat
#print axioms gflow_text_denotes
#print axioms nnstock_text_denotes
#print axioms skeletonTextNNOK_sound
#print axioms euler_nnstock_zero
#print axioms euler_nnstock_succ
#print axioms euler_gflow
#print axioms compileDsl_toDsl
#print axioms lerp_interior
#print axioms euler_stock_succ
#print axioms normalize_keys_on_grid
#print axioms rational_time_euler_exact
#print axioms gridOK_of_C05
#print axioms float_time_euler_exact
#print axioms normalize_exact_near
#print axioms normalize_keys_on_grid_dec

end Bptk.C04
