import Bptk.Core.C17
/-!
C17 — property theorems.  Quantifier: every timed history (`List (Nat × Ev)`, times non-decreasing),
every state reachable by one, every next request at every later clock value.  Nothing is bounded.
-/
namespace Bptk.C17

/-! ### basic facts about the building blocks -/

theorem hasId_iff (s : State) (k : Nat) : hasId s k = true ↔ ∃ i ∈ s.insts, i.id = k := by
  simp [hasId, List.any_eq_true]

theorem hasId_false_iff (s : State) (k : Nat) : hasId s k = false ↔ ∀ i ∈ s.insts, i.id ≠ k := by
  rw [← Bool.not_eq_true, hasId_iff]; simp

theorem mem_sweep (now : Nat) (s : State) (i : Inst) :
    i ∈ (sweep now s).insts ↔ i ∈ s.insts ∧ now < i.last + i.timeout := by
  simp [sweep, expired, List.mem_filter]

theorem touchInst_id (now k : Nat) (i : Inst) : (touchInst now k i).id = i.id := by
  unfold touchInst; split <;> rfl

theorem touchInst_timeout (now k : Nat) (i : Inst) : (touchInst now k i).timeout = i.timeout := by
  unfold touchInst; split <;> rfl

theorem touchInst_other (now k : Nat) (i : Inst) (h : i.id ≠ k) : touchInst now k i = i := by
  simp [touchInst, h]

theorem touchInst_self (now k : Nat) (i : Inst) (h : i.id = k) : (touchInst now k i).last = now := by
  simp [touchInst, h]

theorem setSess_id (k : Nat) (b : Bool) (i : Inst) : (setSess k b i).id = i.id := by
  unfold setSess; split <;> rfl

theorem setSess_last (k : Nat) (b : Bool) (i : Inst) : (setSess k b i).last = i.last := by
  unfold setSess; split <;> rfl

theorem setSess_timeout (k : Nat) (b : Bool) (i : Inst) : (setSess k b i).timeout = i.timeout := by
  unfold setSess; split <;> rfl

theorem map_touch_ids (now k : Nat) (l : List Inst) : (l.map (touchInst now k)).map (·.id) = l.map (·.id) := by
  simp [List.map_map, Function.comp_def, touchInst_id]

theorem map_setSess_ids (k : Nat) (b : Bool) (l : List Inst) : (l.map (setSess k b)).map (·.id) = l.map (·.id) := by
  simp [List.map_map, Function.comp_def, setSess_id]

/-- what the lifetime statement is about: id, last access, timeout (not the session flag) -/
def core (i : Inst) : Nat × Nat × Nat := (i.id, i.last, i.timeout)

theorem setSess_core (k : Nat) (b : Bool) (i : Inst) : core (setSess k b i) = core i := by
  unfold setSess core; split <;> rfl

theorem map_setSess_core (k : Nat) (b : Bool) (l : List Inst) : (l.map (setSess k b)).map core = l.map core := by
  simp [List.map_map, Function.comp_def, setSess_core]

/-- `applyKind` changes neither ids, nor timers, nor timeouts, nor the destroy log -/
theorem applyKind_core (s : State) (i : Inst) (kind : Kind) :
    (applyKind s i kind).1.insts.map core = s.insts.map core ∧
    (applyKind s i kind).1.destroyed = s.destroyed ∧ (applyKind s i kind).1.next = s.next := by
  cases kind
  · exact ⟨map_setSess_core _ _ _, rfl, rfl⟩
  · exact ⟨rfl, rfl, rfl⟩
  · simp only [applyKind]; split <;> exact ⟨rfl, rfl, rfl⟩
  · exact ⟨map_setSess_core _ _ _, rfl, rfl⟩

theorem mem_core (l : List Inst) (k a b : Nat) :
    (k, a, b) ∈ l.map core ↔ ∃ i ∈ l, i.id = k ∧ i.last = a ∧ i.timeout = b := by
  simp [core, List.mem_map, Prod.ext_iff]

/-! ### the invariant of reachable states -/

structure Inv (s : State) (t : Nat) : Prop where
  nodup : (s.insts.map (·.id)).Nodup
  bound : ∀ i ∈ s.insts, i.id < s.next
  lastLe : ∀ i ∈ s.insts, i.last ≤ t
  storedBound : ∀ k τ, lookupStored s.stored k = some τ → k < s.next

theorem inv_init : Inv State.init 0 := by
  constructor <;> simp [State.init, lookupStored]

theorem inv_sweep (s : State) (t now : Nat) (h : Inv s t) : Inv (sweep now s) t := by
  constructor
  · simp only [sweep]
    exact List.Nodup.sublist (List.Sublist.map _ List.filter_sublist) h.nodup
  · intro i hi; exact h.bound i ((mem_sweep now s i).mp hi).1
  · intro i hi; exact h.lastLe i ((mem_sweep now s i).mp hi).1
  · exact h.storedBound

theorem inv_touch (s : State) (t now k : Nat) (h : Inv s t) (ht : t ≤ now) : Inv (touch now k s) now := by
  constructor
  · simp only [touch, map_touch_ids]; exact h.nodup
  · intro i hi
    simp only [touch] at hi
    obtain ⟨j, hj, rfl⟩ := List.mem_map.mp hi
    rw [touchInst_id]; exact h.bound j hj
  · intro i hi
    simp only [touch] at hi
    obtain ⟨j, hj, rfl⟩ := List.mem_map.mp hi
    unfold touchInst; split
    · simp
    · have := h.lastLe j hj; omega
  · exact h.storedBound

theorem inv_mono (s : State) (t t' : Nat) (h : Inv s t) (ht : t ≤ t') : Inv s t' :=
  ⟨h.nodup, h.bound, fun i hi => Nat.le_trans (h.lastLe i hi) ht, h.storedBound⟩

theorem inv_ensure (s : State) (t now k : Nat) (h : Inv s t) (ht : t ≤ now) : Inv (ensure s now k).1 now := by
  unfold ensure
  split
  · exact inv_mono s t now h ht
  · rename_i hk
    split
    · exact inv_mono s t now h ht
    · rename_i τ hτ
      have hk' := (hasId_false_iff s k).mp (by simpa using hk)
      constructor
      · simp only [List.map_append, List.map_cons, List.map_nil]
        rw [List.nodup_append]
        refine ⟨h.nodup, by simp, ?_⟩
        intro a ha b hb
        simp at hb; subst hb
        obtain ⟨i, hi, rfl⟩ := List.mem_map.mp ha
        exact hk' i hi
      · intro i hi
        simp only [List.mem_append, List.mem_singleton] at hi
        rcases hi with hi | rfl
        · exact h.bound i hi
        · exact h.storedBound k τ hτ
      · intro i hi
        simp only [List.mem_append, List.mem_singleton] at hi
        rcases hi with hi | rfl
        · have := h.lastLe i hi; omega
        · simp
      · exact h.storedBound

theorem inv_applyKind (s : State) (t : Nat) (i : Inst) (hi : i ∈ s.insts) (kind : Kind) (h : Inv s t) :
    Inv (applyKind s i kind).1 t := by
  have hsess : ∀ b, Inv { s with insts := s.insts.map (setSess i.id b) } t := by
    intro b
    constructor
    · simp only [map_setSess_ids]; exact h.nodup
    · intro j hj
      obtain ⟨j0, hj0, rfl⟩ := List.mem_map.mp hj
      rw [setSess_id]; exact h.bound j0 hj0
    · intro j hj
      obtain ⟨j0, hj0, rfl⟩ := List.mem_map.mp hj
      rw [setSess_last]; exact h.lastLe j0 hj0
    · exact h.storedBound
  cases kind
  · exact hsess true
  · exact h
  · simp only [applyKind]; split
    · constructor
      · exact h.nodup
      · exact h.bound
      · exact h.lastLe
      · intro k τ hk
        simp only [lookupStored] at hk
        split at hk
        · rename_i e; rw [← e]; exact h.bound i hi
        · exact h.storedBound k τ hk
    · exact h
  · exact hsess false

theorem findInst_mem (s : State) (k : Nat) (i : Inst) (h : findInst s k = some i) : i ∈ s.insts ∧ i.id = k := by
  unfold findInst at h
  exact ⟨List.mem_of_find?_eq_some h, by simpa using List.find?_some h⟩

theorem findInst_none (s : State) (k : Nat) (h : findInst s k = none) : ∀ i ∈ s.insts, i.id ≠ k := by
  unfold findInst at h
  intro i hi
  have := List.find?_eq_none.mp h i hi
  simpa using this

theorem inv_step (c : Cfg) (s : State) (t now : Nat) (ev : Ev) (h : Inv s t) (ht : t ≤ now) :
    Inv (step c s now ev).1 now := by
  cases ev with
  | create τ =>
    simp only [step, create]
    have h1 := inv_mono _ t now (inv_sweep s t now h) ht
    constructor
    · simp only [List.map_append, List.map_cons, List.map_nil]
      rw [List.nodup_append]
      refine ⟨h1.nodup, by simp, ?_⟩
      intro a ha b hb
      simp at hb; subst hb
      obtain ⟨i, hi, rfl⟩ := List.mem_map.mp ha
      exact Nat.ne_of_lt (h1.bound i hi)
    · intro i hi
      simp only [List.mem_append, List.mem_singleton] at hi
      rcases hi with hi | rfl
      · have := h1.bound i hi; simp only at this ⊢; omega
      · simp
    · intro i hi
      simp only [List.mem_append, List.mem_singleton] at hi
      rcases hi with hi | rfl
      · exact h1.lastLe i hi
      · simp
    · intro k τ' hk
      have := h1.storedBound k τ' hk
      simp only at this ⊢; omega
  | access k kind =>
    simp only [step, access]
    have he := inv_ensure s t now k h ht
    cases hen : ensure s now k with
    | mk s1 b =>
      rw [hen] at he
      cases b with
      | false => exact inv_mono s t now h ht
      | true =>
        simp only
        have h2 := inv_sweep _ now now (inv_touch s1 now now k he (Nat.le_refl _))
        cases hf : findInst (sweep now (touch now k s1)) k with
        | none => exact h2
        | some i => exact inv_applyKind _ now i (findInst_mem _ _ _ hf).1 kind h2
  | keepAlive k =>
    simp only [step, keepAlive]
    cases hr : c.keepAliveRestores with
    | true =>
      simp only [if_true]
      have he := inv_ensure s t now k h ht
      cases hen : ensure s now k with
      | mk s1 b =>
        rw [hen] at he
        cases b with
        | false => exact inv_mono s t now h ht
        | true => exact inv_sweep _ now now (inv_touch s1 now now k he (Nat.le_refl _))
    | false =>
      simp only [Bool.false_eq_true, if_false]
      cases hasId s k with
      | false => exact inv_mono s t now h ht
      | true => exact inv_sweep _ now now (inv_touch s t now k h ht)
  | metrics => exact inv_mono _ t now (inv_sweep s t now h) ht
  | fullMetrics => exact inv_mono _ t now (inv_sweep s t now h) ht

/-- the invariant holds after every well-timed history -/
theorem inv_run (c : Cfg) (evs : List (Nat × Ev)) : ∀ (s : State) (t0 : Nat), Inv s t0 → wellTimed t0 evs = true →
    Inv (run c s evs) (endTime t0 evs) := by
  induction evs with
  | nil => intro s t0 h _; exact h
  | cons e rest ih =>
    intro s t0 h hw
    obtain ⟨t, ev⟩ := e
    simp only [wellTimed, Bool.and_eq_true, decide_eq_true_eq] at hw
    exact ih _ t (inv_step c s t0 t ev h hw.1) hw.2

/-! ### alive: less than the timeout elapsed since the last access ⇒ still there -/

/-- instance `k` is held with timeout `τ` and a last-access time ≥ `l` -/
def Holds (s : State) (k τ l : Nat) : Prop := ∃ i ∈ s.insts, i.id = k ∧ i.timeout = τ ∧ l ≤ i.last

theorem holds_iff_core (s : State) (k τ l : Nat) :
    Holds s k τ l ↔ ∃ a, (k, a, τ) ∈ s.insts.map core ∧ l ≤ a := by
  constructor
  · rintro ⟨i, hi, h1, h2, h3⟩
    exact ⟨i.last, (mem_core _ _ _ _).mpr ⟨i, hi, h1, rfl, h2⟩, h3⟩
  · rintro ⟨a, ha, hl⟩
    obtain ⟨i, hi, h1, h2, h3⟩ := (mem_core _ _ _ _).mp ha
    exact ⟨i, hi, h1, h3, by omega⟩

theorem holds_sweep (s : State) (k τ l now : Nat) (h : Holds s k τ l) (hn : now < l + τ) :
    Holds (sweep now s) k τ l := by
  obtain ⟨i, hi, h1, h2, h3⟩ := h
  exact ⟨i, (mem_sweep now s i).mpr ⟨hi, by omega⟩, h1, h2, h3⟩

theorem holds_touch (s : State) (k τ l now j : Nat) (h : Holds s k τ l) (hl : l ≤ now) :
    Holds (touch now j s) k τ l := by
  obtain ⟨i, hi, h1, h2, h3⟩ := h
  refine ⟨touchInst now j i, List.mem_map.mpr ⟨i, hi, rfl⟩, by rw [touchInst_id]; exact h1,
    by rw [touchInst_timeout]; exact h2, ?_⟩
  unfold touchInst; split
  · exact hl
  · exact h3

theorem ensure_insts (s : State) (now k : Nat) :
    (ensure s now k).1.insts = s.insts ∨
    (hasId s k = false ∧ ∃ τ, lookupStored s.stored k = some τ ∧
      (ensure s now k).1.insts = s.insts ++ [{ id := k, last := now, timeout := τ, sess := true }] ∧
      (ensure s now k).2 = true) := by
  unfold ensure
  split
  · left; rfl
  · rename_i hk
    split
    · left; rfl
    · rename_i τ hτ
      right
      exact ⟨by simpa using hk, τ, hτ, rfl, rfl⟩

theorem ensure_destroyed (s : State) (now k : Nat) : (ensure s now k).1.destroyed = s.destroyed := by
  unfold ensure; split
  · rfl
  · split <;> rfl

theorem ensure_stored (s : State) (now k : Nat) : (ensure s now k).1.stored = s.stored := by
  unfold ensure; split
  · rfl
  · split <;> rfl

theorem holds_ensure (s : State) (k τ l now j : Nat) (h : Holds s k τ l) : Holds (ensure s now j).1 k τ l := by
  obtain ⟨i, hi, h1, h2, h3⟩ := h
  rcases ensure_insts s now j with e | ⟨_, τ', _, e, _⟩
  · exact ⟨i, by rw [e]; exact hi, h1, h2, h3⟩
  · exact ⟨i, by rw [e]; exact List.mem_append_left _ hi, h1, h2, h3⟩

theorem holds_applyKind (s : State) (k τ l : Nat) (i : Inst) (kind : Kind) (h : Holds s k τ l) :
    Holds (applyKind s i kind).1 k τ l := by
  rw [holds_iff_core] at h ⊢
  rw [(applyKind_core s i kind).1]; exact h

/-- one request at `now` keeps every instance whose timeout has not elapsed (`now < l + τ`) -/
theorem alive_step (c : Cfg) (s : State) (k τ l now : Nat) (ev : Ev) (h : Holds s k τ l)
    (hl : l ≤ now) (hn : now < l + τ) : Holds (step c s now ev).1 k τ l := by
  cases ev with
  | create τ' =>
    simp only [step, create]
    obtain ⟨i, hi, h1, h2, h3⟩ := holds_sweep s k τ l now h hn
    exact ⟨i, List.mem_append_left _ hi, h1, h2, h3⟩
  | access j kind =>
    simp only [step, access]
    have he := holds_ensure s k τ l now j h
    cases hen : ensure s now j with
    | mk s1 b =>
      rw [hen] at he
      cases b with
      | false => exact h
      | true =>
        simp only
        have h2 := holds_sweep _ k τ l now (holds_touch s1 k τ l now j he hl) hn
        cases hf : findInst (sweep now (touch now j s1)) j with
        | none => exact h2
        | some i => exact holds_applyKind _ k τ l i kind h2
  | keepAlive j =>
    simp only [step, keepAlive]
    cases hr : c.keepAliveRestores with
    | true =>
      simp only [if_true]
      have he := holds_ensure s k τ l now j h
      cases hen : ensure s now j with
      | mk s1 b =>
        rw [hen] at he
        cases b with
        | false => exact h
        | true => exact holds_sweep _ k τ l now (holds_touch s1 k τ l now j he hl) hn
    | false =>
      simp only [Bool.false_eq_true, if_false]
      cases hasId s j with
      | false => exact h
      | true => exact holds_sweep _ k τ l now (holds_touch s k τ l now j h hl) hn
  | metrics => exact holds_sweep s k τ l now h hn
  | fullMetrics => exact holds_sweep s k τ l now h hn

/-- `C17_alive`: an instance last accessed at (or after) `l` with timeout `τ` is still there after ANY
well-timed sequence of requests all of which happen before `l + τ` -/
theorem C17_alive (c : Cfg) (evs : List (Nat × Ev)) : ∀ (s : State) (t0 k τ l : Nat), Holds s k τ l →
    l ≤ t0 → wellTimed t0 evs = true → (∀ e ∈ evs, e.1 < l + τ) → Holds (run c s evs) k τ l := by
  induction evs with
  | nil => intro s t0 k τ l h _ _ _; exact h
  | cons e rest ih =>
    intro s t0 k τ l h hl hw hall
    obtain ⟨t, ev⟩ := e
    simp only [wellTimed, Bool.and_eq_true, decide_eq_true_eq] at hw
    have ht : t < l + τ := hall (t, ev) (by simp)
    exact ih _ t k τ l (alive_step c s k τ l t ev h (by omega) ht) (by omega) hw.2
      (fun e he => hall e (by simp [he]))

/-- `C17_never_early`: an instance that was there before a request at `now` and is not there afterwards
had its full timeout elapsed: `last + timeout ≤ now` -/
theorem C17_never_early (c : Cfg) (s : State) (t now : Nat) (ev : Ev) (hinv : Inv s t) (ht : t ≤ now)
    (i : Inst) (hi : i ∈ s.insts) (hgone : ∀ j ∈ (step c s now ev).1.insts, j.id ≠ i.id) :
    i.last + i.timeout ≤ now := by
  rcases Nat.lt_or_ge now (i.last + i.timeout) with hlt | hge
  · exfalso
    have hl : i.last ≤ now := Nat.le_trans (hinv.lastLe i hi) ht
    obtain ⟨j, hj, hid, _, _⟩ := alive_step c s i.id i.timeout i.last now ev ⟨i, hi, rfl, rfl, Nat.le_refl _⟩ hl hlt
    exact hgone j hj hid
  · exact hge

/-! ### access restarts the timer -/

theorem eq_of_nodup_id (l : List Inst) (hn : (l.map (·.id)).Nodup) (a b : Inst) (ha : a ∈ l) (hb : b ∈ l)
    (h : a.id = b.id) : a = b := by
  induction l with
  | nil => cases ha
  | cons x xs ih =>
    simp only [List.map_cons, List.nodup_cons] at hn
    rcases List.mem_cons.mp ha with rfl | ha' <;> rcases List.mem_cons.mp hb with rfl | hb'
    · rfl
    · exact absurd (List.mem_map.mpr ⟨b, hb', h.symm⟩) hn.1
    · exact absurd (List.mem_map.mpr ⟨a, ha', h⟩) hn.1
    · exact ih hn.2 ha' hb'

theorem ensure_present (s : State) (now k : Nat) (h : hasId s k = true) : ensure s now k = (s, true) := by
  simp [ensure, h]

/-- the state right after `touch` + `sweep` on a present instance with a positive timeout -/
theorem touched_survives (s : State) (t now k : Nat) (hinv : Inv s t) (ht : t ≤ now) (i : Inst) (hi : i ∈ s.insts)
    (hk : i.id = k) (hτ : 0 < i.timeout) :
    findInst (sweep now (touch now k s)) k = some { i with last := now } := by
  have hmem : ({ i with last := now } : Inst) ∈ (sweep now (touch now k s)).insts := by
    rw [mem_sweep]
    refine ⟨List.mem_map.mpr ⟨i, hi, by simp [touchInst, hk]⟩, by simp; omega⟩
  have hinv2 := inv_sweep _ now now (inv_touch s t now k hinv ht)
  cases hf : findInst (sweep now (touch now k s)) k with
  | none => exact absurd hk (by have := findInst_none _ _ hf _ hmem; simpa using this)
  | some j =>
    have hj := findInst_mem _ _ _ hf
    rw [eq_of_nodup_id _ hinv2.nodup j _ hj.1 hmem (by simp [hj.2, hk])]

/-- `access_resets` / availability: any instance-scoped request to a present instance with a positive
timeout, whatever time has passed as long as no sweep removed it, succeeds (a `run-step` needs a session)
and leaves it with `last = now` -/
theorem C17_access_resets (s : State) (t now : Nat) (hinv : Inv s t) (ht : t ≤ now) (i : Inst) (hi : i ∈ s.insts)
    (hτ : 0 < i.timeout) (kind : Kind) :
    (∃ j ∈ (access s now i.id kind).1.insts, j.id = i.id ∧ j.last = now ∧ j.timeout = i.timeout) ∧
    ((kind ≠ .step ∨ i.sess = true) → (access s now i.id kind).2 = true) := by
  have hp : hasId s i.id = true := (hasId_iff s i.id).mpr ⟨i, hi, rfl⟩
  have hf := touched_survives s t now i.id hinv ht i hi rfl hτ
  have hj := (findInst_mem _ _ _ hf).1
  simp only [access, ensure_present s now i.id hp, hf]
  constructor
  · have : (i.id, now, i.timeout) ∈ (applyKind (sweep now (touch now i.id s)) { i with last := now } kind).1.insts.map core := by
      rw [(applyKind_core _ _ kind).1]
      exact (mem_core _ _ _ _).mpr ⟨_, hj, rfl, rfl, rfl⟩
    obtain ⟨j, hj', h1, h2, h3⟩ := (mem_core _ _ _ _).mp this
    exact ⟨j, hj', h1, h2, h3⟩
  · intro hk
    cases kind with
    | begin => rfl
    | results => rfl
    | endS => rfl
    | step =>
      rcases hk with hk | hk
      · exact absurd rfl hk
      · simp [applyKind, hk]

theorem C17_keepalive_resets (c : Cfg) (s : State) (t now : Nat) (hinv : Inv s t) (ht : t ≤ now) (i : Inst)
    (hi : i ∈ s.insts) (hτ : 0 < i.timeout) :
    (∃ j ∈ (keepAlive c s now i.id).1.insts, j.id = i.id ∧ j.last = now ∧ j.timeout = i.timeout) ∧
    (keepAlive c s now i.id).2 = true := by
  have hp : hasId s i.id = true := (hasId_iff s i.id).mpr ⟨i, hi, rfl⟩
  have hf := touched_survives s t now i.id hinv ht i hi rfl hτ
  have hj := (findInst_mem _ _ _ hf).1
  have : keepAlive c s now i.id = (sweep now (touch now i.id s), true) := by
    unfold keepAlive
    cases c.keepAliveRestores <;> simp [ensure_present s now i.id hp, hp]
  rw [this]
  exact ⟨⟨_, hj, rfl, rfl, rfl⟩, rfl⟩

/-! ### gone after the next trigger; released exactly once -/

theorem count_filter_zero (l : List Inst) (p : Inst → Bool) (k : Nat) (h : ∀ i ∈ l, i.id = k → p i = false) :
    ((l.filter p).map (·.id)).count k = 0 := by
  rw [List.count_eq_zero]
  intro hm
  obtain ⟨i, hi, hid⟩ := List.mem_map.mp hm
  have hf := List.mem_filter.mp hi
  rw [h i hf.1 hid] at hf
  exact absurd hf.2 (by simp)

theorem count_filter_one (l : List Inst) (p : Inst → Bool) (hn : (l.map (·.id)).Nodup) (i : Inst) (hi : i ∈ l)
    (hp : p i = true) : ((l.filter p).map (·.id)).count i.id = 1 := by
  induction l with
  | nil => cases hi
  | cons x xs ih =>
    simp only [List.map_cons, List.nodup_cons] at hn
    rcases List.mem_cons.mp hi with rfl | hi'
    · have hz : ((xs.filter p).map (·.id)).count i.id = 0 :=
        count_filter_zero xs p i.id (fun j hj hid => absurd (List.mem_map.mpr ⟨j, hj, hid⟩) hn.1)
      simp [hp, hz]
    · have hne : x.id ≠ i.id := fun e => hn.1 (e ▸ List.mem_map.mpr ⟨i, hi', rfl⟩)
      simp only [List.filter_cons]
      split
      · simp only [List.map_cons]
        rw [List.count_cons_of_ne (by simpa using hne)]
        exact ih hn.2 hi'
      · exact ih hn.2 hi'

/-- the sweep itself: an expired instance is removed and `destroy()` is called on it exactly once -/
theorem gone_via (s1 : State) (t now : Nat) (hinv : Inv s1 t) (i : Inst) (hi : i ∈ s1.insts)
    (hexp : i.last + i.timeout ≤ now) :
    (∀ j ∈ (sweep now s1).insts, j.id ≠ i.id) ∧
    (sweep now s1).destroyed.count i.id = s1.destroyed.count i.id + 1 := by
  constructor
  · intro j hj hid
    have hm := (mem_sweep now s1 j).mp hj
    have := eq_of_nodup_id _ hinv.nodup j i hm.1 hi hid
    subst this; omega
  · simp only [sweep, List.count_append]
    rw [count_filter_one _ _ hinv.nodup i hi (by simp [expired, hexp])]

/-- a sweep does not release an instance whose timeout has not elapsed -/
theorem sweep_keeps_count (s1 : State) (t now k τ l : Nat) (hinv : Inv s1 t) (h : Holds s1 k τ l) (hn : now < l + τ) :
    (sweep now s1).destroyed.count k = s1.destroyed.count k := by
  obtain ⟨i, hi, h1, h2, h3⟩ := h
  simp only [sweep, List.count_append]
  rw [count_filter_zero]
  · rfl
  · intro j hj hid
    have := eq_of_nodup_id _ hinv.nodup j i hj hi (by omega)
    subst this
    simp [expired]; omega

theorem absent_of_core (a b : State) (k : Nat) (hc : a.insts.map core = b.insts.map core)
    (h : ∀ j ∈ b.insts, j.id ≠ k) : ∀ j ∈ a.insts, j.id ≠ k := by
  intro j hj hid
  have : (j.id, j.last, j.timeout) ∈ b.insts.map core := by
    rw [← hc]; exact (mem_core _ _ _ _).mpr ⟨j, hj, rfl, rfl, rfl⟩
  obtain ⟨j', hj', h1, _, _⟩ := (mem_core _ _ _ _).mp this
  exact h j' hj' (by omega)

theorem ensure_ok (s : State) (now j : Nat) (h : (hasId s j || (lookupStored s.stored j).isSome) = true) :
    (ensure s now j).2 = true := by
  unfold ensure
  cases hp : hasId s j with
  | true => simp
  | false =>
    simp only [hp, Bool.false_or] at h
    cases hl : lookupStored s.stored j with
    | none => simp [hl] at h
    | some τ => simp

theorem mem_ensure (s : State) (now j : Nat) (i : Inst) (hi : i ∈ s.insts) : i ∈ (ensure s now j).1.insts := by
  rcases ensure_insts s now j with e | ⟨_, _, _, e, _⟩
  · rw [e]; exact hi
  · rw [e]; exact List.mem_append_left _ hi

theorem mem_touch_other (s : State) (now j : Nat) (i : Inst) (hi : i ∈ s.insts) (hne : i.id ≠ j) :
    i ∈ (touch now j s).insts :=
  List.mem_map.mpr ⟨i, hi, touchInst_other now j i hne⟩

/-- `C17_gone_after_trigger`: once `last + timeout ≤ now`, the next metrics query, instance creation or
(successful) request to another instance removes the instance (so it is absent from `_instances`, hence
from both metrics) and calls `destroy()` on it exactly once. -/
theorem C17_gone_after_trigger (c : Cfg) (s : State) (t now : Nat) (ev : Ev) (hinv : Inv s t) (ht : t ≤ now)
    (i : Inst) (hi : i ∈ s.insts) (hexp : i.last + i.timeout ≤ now) (htr : isTrigger c s i.id ev = true) :
    (∀ j ∈ (step c s now ev).1.insts, j.id ≠ i.id) ∧
    (step c s now ev).1.destroyed.count i.id = s.destroyed.count i.id + 1 := by
  cases ev with
  | create τ =>
    obtain ⟨h1, h2⟩ := gone_via s t now hinv i hi hexp
    simp only [step, create]
    refine ⟨?_, h2⟩
    intro j hj
    simp only [List.mem_append, List.mem_singleton] at hj
    rcases hj with hj | rfl
    · exact h1 j hj
    · have := hinv.bound i hi
      simp only [sweep]; omega
  | metrics => exact gone_via s t now hinv i hi hexp
  | fullMetrics => exact gone_via s t now hinv i hi hexp
  | access j kind =>
    simp only [isTrigger, Bool.and_eq_true, bne_iff_ne, ne_eq] at htr
    have hne : i.id ≠ j := fun e => htr.1 e.symm
    have hok := ensure_ok s now j htr.2
    have hinv1 := inv_ensure s t now j hinv ht
    have hi1 := mem_ensure s now j i hi
    have hd1 := ensure_destroyed s now j
    simp only [step, access]
    cases hen : ensure s now j with
    | mk s1 b =>
      rw [hen] at hok hinv1 hi1 hd1
      simp only at hok hinv1 hi1 hd1
      subst hok
      simp only
      have hinv2 := inv_touch s1 now now j hinv1 (Nat.le_refl _)
      obtain ⟨h1, h2⟩ := gone_via (touch now j s1) now now hinv2 i (mem_touch_other s1 now j i hi1 hne) hexp
      have h2' : (sweep now (touch now j s1)).destroyed.count i.id = s.destroyed.count i.id + 1 := by
        rw [h2]; simp only [touch]; rw [hd1]
      cases hf : findInst (sweep now (touch now j s1)) j with
      | none => exact ⟨h1, h2'⟩
      | some x =>
        simp only
        obtain ⟨c1, c2, _⟩ := applyKind_core (sweep now (touch now j s1)) x kind
        exact ⟨absent_of_core _ _ _ c1 h1, by rw [c2]; exact h2'⟩
  | keepAlive j =>
    simp only [isTrigger, Bool.and_eq_true, bne_iff_ne, ne_eq] at htr
    have hne : i.id ≠ j := fun e => htr.1 e.symm
    simp only [step, keepAlive]
    cases hr : c.keepAliveRestores with
    | true =>
      simp only [hr, Bool.true_and] at htr
      simp only [if_true]
      have hok := ensure_ok s now j htr.2
      have hinv1 := inv_ensure s t now j hinv ht
      have hi1 := mem_ensure s now j i hi
      have hd1 := ensure_destroyed s now j
      cases hen : ensure s now j with
      | mk s1 b =>
        rw [hen] at hok hinv1 hi1 hd1
        simp only at hok hinv1 hi1 hd1
        subst hok
        simp only
        have hinv2 := inv_touch s1 now now j hinv1 (Nat.le_refl _)
        obtain ⟨h1, h2⟩ := gone_via (touch now j s1) now now hinv2 i (mem_touch_other s1 now j i hi1 hne) hexp
        exact ⟨h1, by rw [h2]; simp only [touch]; rw [hd1]⟩
    | false =>
      simp only [hr, Bool.false_and, Bool.or_false] at htr
      simp only [Bool.false_eq_true, if_false, htr.2]
      have hinv2 := inv_touch s t now j hinv ht
      obtain ⟨h1, h2⟩ := gone_via (touch now j s) now now hinv2 i (mem_touch_other s now j i hi hne) hexp
      exact ⟨h1, by rw [h2]; rfl⟩

/-! ### id refused / transparent restore -/

/-- a timed-out instance whose state was not externalised: its id is refused and nothing changes -/
theorem C17_refused (c : Cfg) (s : State) (now k : Nat) (kind : Kind) (habs : hasId s k = false)
    (hst : lookupStored s.stored k = none) :
    access s now k kind = (s, false) ∧ keepAlive c s now k = (s, false) := by
  have he : ensure s now k = (s, false) := by simp [ensure, habs, hst]
  constructor
  · simp [access, he]
  · unfold keepAlive
    cases c.keepAliveRestores <;> simp [he, habs]

theorem ensure_restores (s : State) (now k τ : Nat) (habs : hasId s k = false) (hst : lookupStored s.stored k = some τ) :
    ensure s now k = ({ s with insts := s.insts ++ [{ id := k, last := now, timeout := τ, sess := true }]
                               restored := s.restored ++ [k] }, true) := by
  simp [ensure, habs, hst]

/-- `restore_transparent`: an absent instance whose state is externalised is restored by the next
instance-scoped request, which succeeds as on a live instance (also a `run-step`: the restored instance
has its session); its timer starts at `now` with the stored timeout -/
theorem C17_restore (s : State) (t now k τ : Nat) (kind : Kind) (hinv : Inv s t) (ht : t ≤ now)
    (habs : hasId s k = false) (hst : lookupStored s.stored k = some τ) (hτ : 0 < τ) :
    (access s now k kind).2 = true ∧
    ∃ j ∈ (access s now k kind).1.insts, j.id = k ∧ j.last = now ∧ j.timeout = τ := by
  have he := ensure_restores s now k τ habs hst
  have hinv1 := inv_ensure s t now k hinv ht
  rw [he] at hinv1
  simp only at hinv1
  let n : Inst := { id := k, last := now, timeout := τ, sess := true }
  let s1 : State := { s with insts := s.insts ++ [n], restored := s.restored ++ [k] }
  have hn : n ∈ s1.insts := List.mem_append_right _ (by simp)
  have hp1 : hasId s1 k = true := (hasId_iff s1 k).mpr ⟨n, hn, rfl⟩
  have e1 : ensure s1 now k = (s1, true) := ensure_present s1 now k hp1
  have heq : access s now k kind = access s1 now k kind := by
    unfold access; rw [he, e1]
  rw [heq]
  obtain ⟨h1, h2⟩ := C17_access_resets s1 now now hinv1 (Nat.le_refl _) n hn hτ kind
  exact ⟨h2 (Or.inr rfl), h1⟩

theorem C17_restore_keepalive (c : Cfg) (hc : c.keepAliveRestores = true) (s : State) (t now k τ : Nat)
    (hinv : Inv s t) (ht : t ≤ now) (habs : hasId s k = false) (hst : lookupStored s.stored k = some τ) (hτ : 0 < τ) :
    (keepAlive c s now k).2 = true ∧
    ∃ j ∈ (keepAlive c s now k).1.insts, j.id = k ∧ j.last = now ∧ j.timeout = τ := by
  have he := ensure_restores s now k τ habs hst
  have hinv1 := inv_ensure s t now k hinv ht
  rw [he] at hinv1
  simp only at hinv1
  let n : Inst := { id := k, last := now, timeout := τ, sess := true }
  let s1 : State := { s with insts := s.insts ++ [n], restored := s.restored ++ [k] }
  have hn : n ∈ s1.insts := List.mem_append_right _ (by simp)
  have hp1 : hasId s1 k = true := (hasId_iff s1 k).mpr ⟨n, hn, rfl⟩
  have e1 : ensure s1 now k = (s1, true) := ensure_present s1 now k hp1
  have heq : keepAlive c s now k = keepAlive c s1 now k := by
    unfold keepAlive; simp only [hc, if_true]; rw [he, e1]
  rw [heq]
  obtain ⟨h1, h2⟩ := C17_keepalive_resets c s1 now now hinv1 (Nat.le_refl _) n hn hτ
  exact ⟨h2, h1⟩

/-- `units_sum`: the timeout dictionary is the sum of its seven units -/
theorem units_sum (t : Timeout) :
    t.toMicros = t.weeks * 604800000000 + t.days * 86400000000 + t.hours * 3600000000 + t.minutes * 60000000
      + t.seconds * 1000000 + t.milliseconds * 1000 + t.microseconds := by
  unfold Timeout.toMicros; omega

/-- while its timeout has not elapsed an instance's resources are not released -/
theorem alive_not_destroyed (c : Cfg) (s : State) (t now : Nat) (ev : Ev) (hinv : Inv s t) (ht : t ≤ now)
    (k τ l : Nat) (h : Holds s k τ l) (hl : l ≤ now) (hn : now < l + τ) :
    (step c s now ev).1.destroyed.count k = s.destroyed.count k := by
  cases ev with
  | create τ' => simp only [step, create]; exact sweep_keeps_count s t now k τ l hinv h hn
  | metrics => exact sweep_keeps_count s t now k τ l hinv h hn
  | fullMetrics => exact sweep_keeps_count s t now k τ l hinv h hn
  | access j kind =>
    simp only [step, access]
    have he := holds_ensure s k τ l now j h
    have hinv1 := inv_ensure s t now j hinv ht
    have hd1 := ensure_destroyed s now j
    cases hen : ensure s now j with
    | mk s1 b =>
      rw [hen] at he hinv1 hd1
      cases b with
      | false => rfl
      | true =>
        simp only at hd1 ⊢
        have hinv2 := inv_touch s1 now now j hinv1 (Nat.le_refl _)
        have h2 := sweep_keeps_count (touch now j s1) now now k τ l hinv2 (holds_touch s1 k τ l now j he hl) hn
        have h2' : (sweep now (touch now j s1)).destroyed.count k = s.destroyed.count k := by
          rw [h2]; simp only [touch]; rw [hd1]
        cases hf : findInst (sweep now (touch now j s1)) j with
        | none => exact h2'
        | some x => simp only; rw [(applyKind_core _ x kind).2.1]; exact h2'
  | keepAlive j =>
    simp only [step, keepAlive]
    cases hr : c.keepAliveRestores with
    | true =>
      simp only [if_true]
      have he := holds_ensure s k τ l now j h
      have hinv1 := inv_ensure s t now j hinv ht
      have hd1 := ensure_destroyed s now j
      cases hen : ensure s now j with
      | mk s1 b =>
        rw [hen] at he hinv1 hd1
        cases b with
        | false => rfl
        | true =>
          simp only at hd1 ⊢
          have hinv2 := inv_touch s1 now now j hinv1 (Nat.le_refl _)
          rw [sweep_keeps_count (touch now j s1) now now k τ l hinv2 (holds_touch s1 k τ l now j he hl) hn]
          simp only [touch]; rw [hd1]
    | false =>
      simp only [Bool.false_eq_true, if_false]
      cases hasId s j with
      | false => rfl
      | true =>
        simp only
        have hinv2 := inv_touch s t now j hinv ht
        rw [sweep_keeps_count (touch now j s) now now k τ l hinv2 (holds_touch s k τ l now j h hl) hn]
        rfl

/-! ### the property -/

/-- Everything the statement says except "keep-alive restores an externalised instance": for every
well-timed history from the empty server, in the state `s` it leads to, for every next request `ev` at
every later clock value `now`. -/
def C17_core (c : Cfg) : Prop :=
  ∀ (evs : List (Nat × Ev)), wellTimed 0 evs = true →
    ∀ (now : Nat), endTime 0 evs ≤ now → ∀ (ev : Ev),
      let s := run c State.init evs
      let s' := (step c s now ev).1
      -- (1) less than the timeout elapsed since the last access: still there, same timeout, timer not moved back, not released
      (∀ i ∈ s.insts, now < i.last + i.timeout →
        (∃ j ∈ s'.insts, j.id = i.id ∧ j.timeout = i.timeout ∧ i.last ≤ j.last) ∧
        s'.destroyed.count i.id = s.destroyed.count i.id) ∧
      -- (2) never removed early
      (∀ i ∈ s.insts, (∀ j ∈ s'.insts, j.id ≠ i.id) → i.last + i.timeout ≤ now) ∧
      -- (3) every instance-scoped request and keep-alive succeeds on a present instance and restarts its timer
      (∀ i ∈ s.insts, 0 < i.timeout → ∀ kind,
        (∃ j ∈ (access s now i.id kind).1.insts, j.id = i.id ∧ j.last = now ∧ j.timeout = i.timeout) ∧
        ((kind ≠ .step ∨ i.sess = true) → (access s now i.id kind).2 = true)) ∧
      (∀ i ∈ s.insts, 0 < i.timeout →
        (∃ j ∈ (keepAlive c s now i.id).1.insts, j.id = i.id ∧ j.last = now ∧ j.timeout = i.timeout) ∧
        (keepAlive c s now i.id).2 = true) ∧
      -- (4) full timeout elapsed: gone after the next trigger, released exactly once
      (∀ i ∈ s.insts, i.last + i.timeout ≤ now → isTrigger c s i.id ev = true →
        (∀ j ∈ s'.insts, j.id ≠ i.id) ∧ s'.destroyed.count i.id = s.destroyed.count i.id + 1) ∧
      -- (5) id refused when gone and not externalised (and nothing changes)
      (∀ k kind, hasId s k = false → lookupStored s.stored k = none →
        access s now k kind = (s, false) ∧ keepAlive c s now k = (s, false)) ∧
      -- (6) externalised: the next instance-scoped request restores it transparently
      (∀ k τ kind, hasId s k = false → lookupStored s.stored k = some τ → 0 < τ →
        (access s now k kind).2 = true ∧
        ∃ j ∈ (access s now k kind).1.insts, j.id = k ∧ j.last = now ∧ j.timeout = τ)

/-- keep-alive is a request to the instance as well: it restores an externalised instance -/
def C17_keepalive_restores (c : Cfg) : Prop :=
  ∀ (evs : List (Nat × Ev)), wellTimed 0 evs = true →
    ∀ (now : Nat), endTime 0 evs ≤ now →
      let s := run c State.init evs
      ∀ k τ, hasId s k = false → lookupStored s.stored k = some τ → 0 < τ →
        (keepAlive c s now k).2 = true ∧
        ∃ j ∈ (keepAlive c s now k).1.insts, j.id = k ∧ j.last = now ∧ j.timeout = τ

/-- The property at full strength. -/
def C17_full (c : Cfg) : Prop := C17_core c ∧ C17_keepalive_restores c

/-- holds whatever the configuration -/
theorem C17_partial (c : Cfg) : C17_core c := by
  intro evs hw now hnow ev
  have hinv := inv_run c evs State.init 0 inv_init hw
  refine ⟨?_, ?_, ?_, ?_, ?_, ?_, ?_⟩
  · intro i hi hlt
    have hl : i.last ≤ now := Nat.le_trans (hinv.lastLe i hi) hnow
    have hh : Holds (run c State.init evs) i.id i.timeout i.last := ⟨i, hi, rfl, rfl, Nat.le_refl _⟩
    exact ⟨alive_step c _ i.id i.timeout i.last now ev hh hl hlt,
      alive_not_destroyed c _ _ now ev hinv hnow i.id i.timeout i.last hh hl hlt⟩
  · intro i hi hg
    exact C17_never_early c _ _ now ev hinv hnow i hi hg
  · intro i hi hτ kind
    exact C17_access_resets _ _ now hinv hnow i hi hτ kind
  · intro i hi hτ
    exact C17_keepalive_resets c _ _ now hinv hnow i hi hτ
  · intro i hi hexp htr
    exact C17_gone_after_trigger c _ _ now ev hinv hnow i hi hexp htr
  · intro k kind habs hst
    exact C17_refused c _ now k kind habs hst
  · intro k τ kind habs hst hτ
    exact C17_restore _ _ now k τ kind hinv hnow habs hst hτ

theorem C17_full_of_good (c : Cfg) (hc : c.keepAliveRestores = true) : C17_full c := by
  refine ⟨C17_partial c, ?_⟩
  intro evs hw now hnow s k τ habs hst hτ
  exact C17_restore_keepalive c hc _ _ now k τ (inv_run c evs State.init 0 inv_init hw) hnow habs hst hτ

/-- Negation witness `keep-alive-no-restore`: create (1 s), begin-session, run-step (externalised),
metrics at 5 s (timed out and swept), keep-alive at 6 s is refused and restores nothing. -/
theorem C17_witness_keepalive (c : Cfg) (hc : c.keepAliveRestores = false) : ¬ C17_full c := by
  intro h
  have := h.2 [(0, .create 1000000), (1, .access 0 .begin), (2, .access 0 .step), (5000000, .metrics)]
    (by decide) 6000000 (by decide) 0 1000000
  cases c; simp only at hc; subst hc
  revert this; decide

/-! ### non-vacuity -/

-- boundary: one microsecond before `last + timeout` the instance is there, at `last + timeout` it is gone and released once
example : ((run ⟨false⟩ State.init [(0, .create 2000000), (1999999, .metrics)]).insts.map (·.id),
           (run ⟨false⟩ State.init [(0, .create 2000000), (2000000, .metrics)]).insts.map (·.id),
           (run ⟨false⟩ State.init [(0, .create 2000000), (2000000, .metrics), (2000001, .fullMetrics)]).destroyed)
          = ([0], [], [0]) := by decide
-- own access before any sweep revives an expired instance; restore of an externalised one
example : (run ⟨false⟩ State.init [(0, .create 10), (50, .access 0 .begin), (55, .access 0 .step), (70, .create 5),
           (80, .access 0 .results)]).insts.map (fun i => (i.id, i.last, i.timeout, i.sess)) = [(0, 80, 10, true)] := by decide
example : isTrigger ⟨false⟩ (run ⟨false⟩ State.init [(0, .create 10), (0, .create 7)]) 0 (.access 1 .results) = true := by decide

#print axioms C17_alive
#print axioms C17_never_early
#print axioms C17_access_resets
#print axioms C17_keepalive_resets
#print axioms C17_gone_after_trigger
#print axioms C17_refused
#print axioms C17_restore
#print axioms C17_restore_keepalive
#print axioms C17_partial
#print axioms C17_full_of_good
#print axioms C17_witness_keepalive
#print axioms inv_run
#print axioms units_sum

end Bptk.C17
